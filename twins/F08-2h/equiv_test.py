"""
Equivalence test for C08 / variant 2 (new option --board_file: regenerate the games of a board
read back from the depiction on top of a generated file).

Sections A-E: nothing that existed before may change (builders, write_robots, main() without the
new option, the manual entry point).
Section F (the new code path): for every board of up to 4 tiles and for sampled larger ones, the
clean tree writes the three games with write_robots(board, probabilities) - the reference -,
the patched tree first writes the board with OTHER probabilities, then reads that file back with
`main() --board_file` (and create_sg_from_board_file) with the wanted probabilities; the file it
produces must be byte for byte the reference, i.e. the games of the board the file depicts.
Section G (patched tree only): malformed depictions must be refused with ValueError and must
not produce any file.

usage: python equiv_test.py <path-to-patched-root> <path-to-clean-root>

Both trees are loaded in separate subprocesses (this same file, run with --worker).  Each
worker runs the same deterministic list of cases in its own scratch directory and records, per
case, either the sha256 of what was produced (file contents byte for byte, file names, repr of
the lists returned by the transition builders) or the exception that was raised (plus whatever
had been written to the file by then).  The parent compares the two records.
"""
import hashlib
import itertools
import json
import os
import random
import shutil
import subprocess
import sys
import tempfile


def sha(text):
    if isinstance(text, str):
        text = text.encode()
    return hashlib.sha256(text).hexdigest()


PROBS = [0.1, 0.5, 1e-9, 0.999999, 1.0 / 3, 0.25, 0.9, 1e-300, 1 - 1e-16, 0.3]


def worker(root, out_json):
    sys.path.insert(0, root)
    scratch = tempfile.mkdtemp(prefix="c08w_")
    os.chdir(scratch)
    os.mkdir("inputs")
    import roberta_generator as g
    import stochastic_game_from_roborta_board as manual
    assert os.path.dirname(os.path.abspath(g.__file__)) == os.path.abspath(root)

    rec = {}

    def record(key, fn):
        assert key not in rec, key
        try:
            rec[key] = "ok:" + sha(fn())
        except Exception as exc:  # noqa
            rec[key] = "exc:" + type(exc).__name__ + ":" + str(exc)

    def written(file_name, *args):
        """write_robots to file_name, returns the content (the partial content when it raises)"""
        if os.path.exists(file_name):
            os.remove(file_name)
        try:
            g.write_robots(file_name, *args)
        except Exception as exc:
            part = open(file_name).read() if os.path.exists(file_name) else "<no file>"
            raise type(exc)(str(exc) + " | partial " + sha(part))
        with open(file_name, "rb") as fh:
            return fh.read()

    # ---- A. the transition builders, called directly -------------------------------------
    rnd = random.Random(12345)
    shapes = [(l, w) for l in range(0, 5) for w in range(0, 5)] + [(1, 7), (7, 1), (3, 6)]
    for (length, width) in shapes:
        for rep in range(6):
            arrows = [0, 1, 2, 3] if rep < 4 else [0, 1, 2, 3, 4, -1, 7, True, 2.0, 3.0, None]
            moves = [[rnd.choice(arrows) for _ in range(width)] for _ in range(length)]
            if rep == 0:
                moves = [[(i * width + j) % 4 for j in range(width)] for i in range(length)]
            loose = [[rnd.choice([0, 1, True, False, 2]) for _ in range(width)]
                     for _ in range(length)]
            n = length * width
            p = PROBS[(length + width + rep) % len(PROBS)]
            tag = "A/%d/%d/%d/" % (length, width, rep)
            pairs = [(0, 0), (n, n), (3 * n, 3 * n), (5 * n, 6 * n), (0, n), (7, 7), (7, 3)]
            for q, (o1, o2) in enumerate(pairs):
                tag = "A/%d/%d/%d/o%d/" % (length, width, rep, q)
                record(tag + "p2/%d/%d" % (o1, o2),
                       lambda: repr(g.player_two_transitions(length, width, moves, o1, o2)))
                record(tag + "p1lr/%d/%d" % (o1, o2),
                       lambda: repr(g.player_one_left_right_transitions(length, width, moves, o1, o2)))
                record(tag + "p1dlr/%d/%d" % (o1, o2),
                       lambda: repr(g.player_one_down_left_right_transitions(
                           length, width, moves, o2, o1, o2 + n)))
                record(tag + "light/%d/%d" % (o1, o2),
                       lambda: repr(g.prob_light_break_transitions(length, width, p, o1, o2)))
            for q, win in enumerate([None, 0, 1, 4 * n + 1, 10 * n + 1]):
                tag = "A/%d/%d/%d/w%d/" % (length, width, rep, q)
                record(tag + "p1d/%r" % (win,),
                       lambda: repr(g.player_one_down_transitions(length, width, 3 * n, win)))
                record(tag + "p1d_kw/%r" % (win,),
                       lambda: repr(g.player_one_down_transitions(
                           length, width, offset=n, winning_state=win)))
                record(tag + "rdown/%r" % (win,),
                       lambda: repr(g.prob_robot_down_break_transitions(length, width, p, 3 * n, win)))
            tag = "A/%d/%d/%d/" % (length, width, rep)
            record(tag + "p1d_default",
                   lambda: repr(g.player_one_down_transitions(length, width, 2 * n)))
            for q, off in enumerate([0, 3 * n, 4 * n, 11]):
                tag = "A/%d/%d/%d/f%d/" % (length, width, rep, q)
                record(tag + "rleft/%d" % off,
                       lambda: repr(g.prob_robot_left_break_transitions(length, width, p, off)))
                record(tag + "rright/%d" % off,
                       lambda: repr(g.prob_robot_right_break_transitions(length, width, p, off)))
                record(tag + "tile/%d" % off,
                       lambda: repr(g.prob_tile_break_transitions(
                           length, width, p, loose, off, 10 * n)))

    # ---- B. every board of up to 4 tiles: all arrows x all loose-tile layouts ---------------
    small_shapes = [(1, 1), (1, 2), (2, 1), (1, 3), (3, 1), (1, 4), (4, 1), (2, 2)]
    count = 0
    for (length, width) in small_shapes:
        n = length * width
        for arrows in itertools.product(range(4), repeat=n):
            for loose_bits in itertools.product((0, 1), repeat=n):
                count += 1
                moves = [list(arrows[i * width:(i + 1) * width]) for i in range(length)]
                loose = [list(loose_bits[i * width:(i + 1) * width]) for i in range(length)]
                rewards = [[(3 * i + 5 * j + count) % 7 for j in range(width)]
                           for i in range(length)]
                pt = PROBS[count % len(PROBS)]
                pr = PROBS[(count // 3) % len(PROBS)]
                pl = PROBS[(count // 7) % len(PROBS)]
                record("B/%d/%d/%s/%s" % (length, width, "".join(map(str, arrows)),
                                          "".join(map(str, loose_bits))),
                       lambda: written("inputs/small.py", length, width, moves, rewards, loose,
                                       pt, pr, pl))

    # ---- C. sampled larger boards, odd containers and value types ------------------------
    rnd = random.Random(777)
    for case in range(400):
        length = rnd.choice([1, 1, 2, 3, 4, 5, 6, 9])
        width = rnd.choice([1, 1, 2, 3, 4, 5, 7, 8])
        down = rnd.random() < 0.5
        moves = [[rnd.choice([0, 1, 2, 3] if down else [0, 1, 2]) for _ in range(width)]
                 for _ in range(length)]
        loose = [[1 if rnd.random() < 0.4 else 0 for _ in range(width)] for _ in range(length)]
        rewards = [[rnd.randrange(0, 7) for _ in range(width)] for _ in range(length)]
        kind = case % 5
        if kind == 1:      # tuples instead of lists
            moves = tuple(tuple(r) for r in moves)
            loose = tuple(tuple(r) for r in loose)
            rewards = tuple(tuple(r) for r in rewards)
        elif kind == 2:    # float rewards, negative rewards
            rewards = [[float(x) - 2 for x in r] for r in rewards]
        elif kind == 3:    # booleans as loose flags
            loose = [[bool(x) for x in r] for r in loose]
        pt, pr, pl = (rnd.choice(PROBS + [rnd.random()]) for _ in range(3))
        record("C/%d" % case,
               lambda: written("inputs/sampled.py", length, width, moves, rewards, loose,
                               pt, pr, pl))

    # boards with arrow codes that are not arrows, ragged boards, wrong sizes
    bad = [
        ("arrow4", 1, 2, [[4, 1]], [[0, 0]], [[0, 0]]),
        ("arrow-1", 2, 2, [[-1, 1], [0, -2]], [[0, 1], [2, 3]], [[0, 1], [1, 0]]),
        ("arrow-4", 1, 1, [[-4]], [[1]], [[1]]),
        ("float_arrow", 1, 2, [[1.0, 3.0]], [[1, 2]], [[0, 0]]),
        ("ragged", 2, 2, [[1, 1], [1]], [[0, 0], [0, 0]], [[0, 0], [0, 0]]),
        ("too_long", 3, 1, [[1], [1]], [[0], [0]], [[0], [0]]),
        ("smaller", 1, 1, [[1, 2], [0, 3]], [[1, 2], [3, 4]], [[0, 1], [1, 1]]),
        ("zero_w", 2, 0, [[], []], [[], []], [[], []]),
        ("zero_l", 0, 3, [], [], []),
        ("loose2", 1, 2, [[1, 1]], [[0, 0]], [[2, 1]]),
    ]
    for (name, length, width, moves, rewards, loose) in bad:
        record("C/bad/" + name,
               lambda: written("inputs/bad.py", length, width, moves, rewards, loose,
                               0.1, 0.2, 0.3))

    # ---- D. the command line entry point ---------------------------------------------------
    def run_main(argv):
        for f in os.listdir("inputs"):
            os.remove(os.path.join("inputs", f))
        old = sys.argv
        sys.argv = ["roberta_generator.py"] + argv
        try:
            g.main()
        except SystemExit as exc:
            raise RuntimeError("SystemExit %r" % (exc.code,))
        finally:
            sys.argv = old
        names = sorted(os.listdir("inputs"))
        return "\n".join(n + ":" + sha(open(os.path.join("inputs", n), "rb").read())
                         for n in names)

    rnd = random.Random(4242)
    argvs = [[], ["-f"], ["-w", "1", "-l", "1"], ["-w", "1", "-l", "1", "-f"],
             ["-w", "1", "-l", "5"], ["-w", "5", "-l", "1", "-f"], ["-w", "1", "-l", "4", "-f"],
             ["-w", "0"], ["-l", "0"], ["-s", "-1"], ["-p", "0"], ["-q", "1"], ["-r", "1.5"],
             ["-t", "0"], ["-m", "0"],
             ["-p", "1e-9", "-q", "0.999999", "-r", "1e-12", "-t", "0.999"],
             ["-p", "0.999999", "-q", "1e-9", "-r", "0.9999999", "-t", "1e-9", "-f"]]
    for _ in range(150):
        a = ["-s", str(rnd.randrange(0, 10 ** 6)),
             "-w", str(rnd.choice([1, 1, 2, 3, 4, 6, 9])),
             "-l", str(rnd.choice([1, 1, 2, 3, 5, 8])),
             "-p", repr(rnd.choice(PROBS[:7] + [rnd.random()])),
             "-q", repr(rnd.choice(PROBS[:7] + [rnd.random()])),
             "-r", repr(rnd.choice(PROBS[:7] + [rnd.random()])),
             "-t", repr(rnd.choice([0.01, 0.3, 0.5, 0.99, rnd.random()])),
             "-m", str(rnd.choice([1, 2, 6, 10]))]
        if rnd.random() < 0.5:
            a.append("--force_down")
        argvs.append(a)
    for k, a in enumerate(argvs):
        record("D/%d/%s" % (k, " ".join(a)), lambda: run_main(a))

    # ---- E. the manual entry point -----------------------------------------------------------
    def run_manual(moves, rewards, loose, pr, pl, pt):
        for f in os.listdir("inputs"):
            os.remove(os.path.join("inputs", f))
        manual.create_sg_from_board(moves, rewards, loose, pr, pl, pt)
        names = sorted(os.listdir("inputs"))
        return "\n".join(n + ":" + sha(open(os.path.join("inputs", n), "rb").read())
                         for n in names)

    rnd = random.Random(99)
    for case in range(60):
        length = rnd.choice([1, 2, 3, 4])
        width = rnd.choice([1, 2, 3, 4])
        arrows = [0, 1, 2, 3] if case % 2 else [0, 1, 2]
        moves = [[rnd.choice(arrows) for _ in range(width)] for _ in range(length)]
        loose = [[rnd.choice([0, 1]) for _ in range(width)] for _ in range(length)]
        rewards = [[rnd.randrange(0, 6) for _ in range(width)] for _ in range(length)]
        pr, pl, pt = (rnd.choice(PROBS[:7]) for _ in range(3))
        record("E/%d" % case, lambda: run_manual(moves, rewards, loose, pr, pl, pt))

    # ---- F. the new path: games regenerated from a depicted board --------------------------
    new = hasattr(g, "parse_board")

    def only_file():
        names = [n for n in os.listdir("inputs") if n != "src.py"]
        assert len(names) == 1, names
        return names[0], open(os.path.join("inputs", names[0]), "rb").read()

    def regenerated(length, width, moves, rewards, loose, pt, pr, pl, how):
        for f in os.listdir("inputs"):
            os.remove(os.path.join("inputs", f))
        if not new:
            # reference: the games of this very board, written directly
            return written("inputs/ref.py", length, width, moves, rewards, loose, pt, pr, pl)
        # the same board written with other probabilities, then read back
        g.write_robots("inputs/src.py", length, width, moves, rewards, loose, 0.42, 0.37, 0.11)
        back = g.read_board_file("inputs/src.py")
        assert back == ([list(r) for r in moves], [[int(x) for x in r] for r in rewards],
                        [[int(x) for x in r] for r in loose]), back
        if how == "main":
            old = sys.argv
            # the board options given here must be ignored
            sys.argv = ["roberta_generator.py", "-b", "inputs/src.py", "-r", repr(pt),
                        "-p", repr(pr), "-q", repr(pl), "-w", "9", "-l", "7", "-s", "5", "-f"]
            try:
                g.main()
            finally:
                sys.argv = old
            name, content = only_file()
            expected = "robot_board_src_w%d_l%d_rb%s_lb%s_tb%s.py" % (
                width, length, g.prob_to_str(pr), g.prob_to_str(pl), g.prob_to_str(pt))
            assert name == expected, (name, expected)
            return content
        manual.create_sg_from_board_file("inputs/src.py", pr, pl, pt)
        return only_file()[1]

    count = 0
    for (length, width) in small_shapes:
        n = length * width
        for arrows in itertools.product(range(4), repeat=n):
            for loose_bits in itertools.product((0, 1), repeat=n):
                count += 1
                moves = [list(arrows[i * width:(i + 1) * width]) for i in range(length)]
                loose = [list(loose_bits[i * width:(i + 1) * width]) for i in range(length)]
                rewards = [[(3 * i + 5 * j + count) % 7 - (count % 3 == 0) for j in range(width)]
                           for i in range(length)]
                # through the command line the probabilities must be in (0,1) as floats
                pt = PROBS[count % len(PROBS)]
                pr = PROBS[(count // 3) % len(PROBS)]
                pl = PROBS[(count // 7) % len(PROBS)]
                how = "main" if count % 4 else "manual"
                if how == "main" and not all(0 < float(repr(x)) < 1 for x in (pt, pr, pl)):
                    how = "manual"
                record("F/%d/%d/%s/%s" % (length, width, "".join(map(str, arrows)),
                                          "".join(map(str, loose_bits))),
                       lambda: regenerated(length, width, moves, rewards, loose, pt, pr, pl, how))
    rnd = random.Random(31337)
    for case in range(300):
        length = rnd.choice([1, 1, 2, 3, 4, 5, 6, 9])
        width = rnd.choice([1, 1, 2, 3, 4, 5, 7, 8])
        moves = [[rnd.choice([0, 1, 2, 3]) for _ in range(width)] for _ in range(length)]
        loose = [[1 if rnd.random() < 0.4 else 0 for _ in range(width)] for _ in range(length)]
        rewards = [[rnd.randrange(-3, 120) for _ in range(width)] for _ in range(length)]
        pt, pr, pl = (rnd.choice(PROBS[:7] + [rnd.random()]) for _ in range(3))
        record("F/sampled/%d" % case,
               lambda: regenerated(length, width, moves, rewards, loose, pt, pr, pl,
                                   "main" if case % 3 else "manual"))

    # ---- G. malformed depictions (patched tree only) -----------------------------------------
    if new:
        bad_texts = {
            "no_board": "{'game_a': 1}\n",
            "empty": "",
            "no_tiles": "# Board:\n#\n\n{}\n",
            "ragged": "# Board:\n#\n#   [1|<>( )] [2|->(X)]\n#   [1|<>( )]\n\n",
            "junk": "# Board:\n#\n#   [1|<>( )] hello [2|->(X)]\n\n",
            "bad_arrow": "# Board:\n#\n#   [1|^^( )]\n\n",
            "bad_tile": "# Board:\n#\n#   [1|<>(Y)]\n\n",
            "bad_reward": "# Board:\n#\n#   [1.5|<>( )]\n\n",
            "unclosed": "# Board:\n#\n#   [1|<>( )\n\n",
            "after_comment": "# Board:\n\n#   [1|<>( )]\n",
        }
        for name, text in bad_texts.items():
            def attempt():
                for f in os.listdir("inputs"):
                    os.remove(os.path.join("inputs", f))
                with open("inputs/src.py", "w") as fh:
                    fh.write(text)
                old = sys.argv
                sys.argv = ["roberta_generator.py", "-b", "inputs/src.py"]
                try:
                    g.main()
                except ValueError as exc:
                    assert os.listdir("inputs") == ["src.py"], os.listdir("inputs")
                    raise
                finally:
                    sys.argv = old
                return "accepted"
            record("G/" + name, attempt)
        # hand made depictions that are fine: other spacing, text after the comment, CRLF
        good = "#Board of mine\n# Board:  \r\n#\r\n#[1|<-( )][-2|v(X)]\r\n  #  [0|->(X)]   [7|<>( )]\r\nrest\n# [9|v( )]\n"
        record("G/good", lambda: repr(g.parse_board(good)))
        assert rec["G/good"] == "ok:" + sha(repr(([[0, 3], [2, 1]], [[1, -2], [0, 7]],
                                                   [[0, 1], [1, 0]]))), rec["G/good"]

    with open(out_json, "w") as fh:
        json.dump(rec, fh)
    os.chdir(root)
    shutil.rmtree(scratch, ignore_errors=True)


def main():
    if len(sys.argv) == 4 and sys.argv[1] == "--worker":
        worker(os.path.abspath(sys.argv[2]), os.path.abspath(sys.argv[3]))
        return 0
    if len(sys.argv) != 3:
        print(__doc__)
        return 2
    roots = [os.path.abspath(sys.argv[1]), os.path.abspath(sys.argv[2])]
    tmp = tempfile.mkdtemp(prefix="c08eq_")
    recs = []
    for k, root in enumerate(roots):
        out = os.path.join(tmp, "rec%d.json" % k)
        env = dict(os.environ, PYTHONDONTWRITEBYTECODE="1", PYTHONHASHSEED="0")
        res = subprocess.run([sys.executable, os.path.abspath(__file__), "--worker", root, out],
                             env=env, capture_output=True, text=True)
        if res.returncode != 0:
            print(res.stdout)
            print(res.stderr)
            print("FAIL (worker for %s crashed)" % root)
            return 1
        recs.append(json.load(open(out)))
    patched, clean = recs
    shutil.rmtree(tmp, ignore_errors=True)
    refused = {k: patched.pop(k) for k in list(patched) if k.startswith("G/")}
    wrong = [k for k, v in refused.items()
             if k != "G/good" and not v.startswith("exc:ValueError:")]
    print("malformed depictions refused: %d of %d" % (len(refused) - 1 - len(wrong),
                                                      len(refused) - 1))
    if wrong or len(refused) < 5:
        print("FAIL (malformed depictions not refused: %s)" % wrong)
        return 1
    diffs = [k for k in sorted(set(patched) | set(clean)) if patched.get(k) != clean.get(k)]
    n_ok = sum(1 for v in clean.values() if v.startswith("ok:"))
    print("cases: %d (%d produce output, %d raise in the clean tree)"
          % (len(clean), n_ok, len(clean) - n_ok))
    if diffs:
        for k in diffs[:25]:
            print("DIFF", k, "\n   patched:", patched.get(k), "\n   clean  :", clean.get(k))
        print("FAIL (%d differing cases)" % len(diffs))
        return 1
    print("PASS")
    return 0


if __name__ == "__main__":
    sys.exit(main())
