#!/usr/bin/env python
"""
Equivalence / property check for variant 2 of C15 (new command-line options
--output_dir / --board_summary / --dry_run, main(argv), board_file_name and
board_summary helpers).

usage: python equiv_test.py <path-to-patched-root> <path-to-clean-root>

Both trees are loaded in separate subprocesses (same module names).  Each
subprocess runs the same battery of observations and dumps them as JSON; the
parent compares the two dumps and additionally checks the statement of C15
directly on the observations of the patched tree.
"""
import json
import os
import subprocess
import sys
import tempfile

WORKER = r'''
import sys, os, io, json, math, random, tempfile, shutil, contextlib, itertools, re
root = sys.argv[1]
out_path = sys.argv[2]
sys.path.insert(0, root)
import roberta_generator as rg
assert os.path.dirname(os.path.abspath(rg.__file__)) == os.path.abspath(root), rg.__file__

obs = {}

def call(fn, *a, **k):
    try:
        return ["ok", fn(*a, **k)]
    except BaseException as e:      # SystemExit from argparse included
        return ["exc", type(e).__name__, str(e)]

# ---------------------------------------------------------------- A: boards
seeds = [0, 1, 2, 3, 7, 40, 41, 47, 51, 999132423, 2**31 - 1, 2**32, 2**32 + 1,
         2**64 + 5, 10**30]
shapes = [(1, 1), (1, 2), (2, 1), (1, 7), (7, 1), (2, 2), (3, 3), (5, 5), (4, 9),
          (10, 5), (13, 2)]
probs = [5e-324, 1e-12, 0.01, 0.3, 0.5, 0.9, 1 - 1e-12, math.nextafter(1.0, 0.0)]
max_rewards = [1, 2, 3, 6, 30, 52, 53, 64, 1022, 1023, 1100]
boards = []
rnd = random.Random(12345)
params = []
for seed in seeds:
    for (l, w) in shapes:
        for fd in (False, True):
            params.append((seed, l, w, rnd.choice(probs), rnd.choice(max_rewards), fd))
for p in probs:
    for m in max_rewards:
        for fd in (False, True):
            params.append((rnd.choice(seeds), 3, 4, p, m, fd))
for _ in range(400):
    params.append((rnd.randrange(0, 2**40), rnd.randint(1, 8), rnd.randint(1, 8),
                   rnd.choice([rnd.random() or 0.5, rnd.choice(probs)]),
                   rnd.randint(1, 12), rnd.random() < 0.5))
for (seed, l, w, p, m, fd) in params:
    # disturb the module-level generator differently before each call: the
    # board must not depend on it
    random.seed(rnd.randrange(10**9)); random.random()
    boards.append([[seed, l, w, p, m, fd], call(rg.gen_rnd_board, seed, l, w, p, m, fd)])
obs["boards"] = boards

# default arguments (max_reward=6, force_down=False) and keyword use
obs["defaults"] = [call(rg.gen_rnd_board, s, 3, 3, 0.3) for s in range(30)]
obs["keywords"] = [call(rg.gen_rnd_board, seed=s, length=2, width=5, prob_loose_tile=0.4,
                        max_reward=3, force_down=True) for s in range(30)]

# twice in a row, and with foreign draws in between: same board
rep = []
for (seed, l, w, p, m, fd) in params[:200]:
    a = call(rg.gen_rnd_board, seed, l, w, p, m, fd)
    random.seed(5); random.random(); random.choices([1, 2], k=3)
    b = call(rg.gen_rnd_board, seed, l, w, p, m, fd)
    rep.append(a == b)
obs["repeatable"] = rep

# big boards for the frequencies
freq = []
for (seed, p, fd) in [(0, 0.3, False), (1, 0.05, True), (2, 0.95, False), (3, 0.5, True)]:
    freq.append([[seed, 120, 100, p, 6, fd], call(rg.gen_rnd_board, seed, 120, 100, p, 6, fd)])
obs["freq"] = freq

# parameter sets the range checks would refuse, handed to gen_rnd_board directly
odd = []
for args in [(0, 0, 3, 0.3, 6, False), (0, 3, 0, 0.3, 6, False), (0, 3, 0, 0.3, 6, True),
             (0, -1, 3, 0.3, 6, True), (0, 3, -2, 0.3, 6, False), (0, 0, 0, 0.3, 6, True),
             (-1, 3, 3, 0.3, 6, False), (-47, 3, 3, 0.3, 6, True), (1, 3, 3, 0.3, 6, False),
             (47, 3, 3, 0.3, 6, True),
             (0, 2, 2, 0.0, 6, False), (0, 2, 2, 1.0, 6, True), (0, 2, 2, -0.5, 6, False),
             (0, 2, 2, 1.5, 6, False), (0, 2, 2, float("nan"), 6, False),
             (0, 2, 2, 0.3, 0, False), (0, 2, 2, 0.3, -1, True), (0, 2, 2, 0.3, -3, False),
             (0, 2, 2, 0.3, -2000, False), (0, 0, 2, 0.3, -2000, False),
             (0, 2, 2, 0.3, 10**6, False), (0, 2, 2, 0.3, 2.5, False),
             (0, 0, 2, 0.3, None, False), (0, 2, 0, 0.3, "x", False),
             (0, 2, 2, 0.3, None, False), (0, 2, 2, "p", 6, False),
             ("seed", 2, 2, 0.3, 6, False), (b"seed", 2, 2, 0.3, 6, True),
             (1.5, 2, 2, 0.3, 6, False), (True, 2, 2, 0.3, 6, True),
             (0, 2.0, 2, 0.3, 6, False), (0, 2, 2.0, 0.3, 6, False), (0, 2, 2, 0.3, 6, 1),
             (0, 2, 2, 0.3, 6, "yes"), (0, 2, 2, 0.3, 6, 0), (0, 2, 2, 0.3, 6, None),
             (0, True, True, 0.3, 6, True), ([1], 2, 2, 0.3, 6, False)]:
    odd.append([repr(args), call(rg.gen_rnd_board, *args)])
obs["odd"] = odd

# ------------------------------------------- B: get_random_moves, legacy use
legacy = []
for s in range(60):
    for (l, w) in [(1, 1), (3, 3), (2, 6), (6, 1)]:
        for fd in (False, True):
            random.seed(s)
            r = call(rg.get_random_moves, l, w, fd)
            nxt = random.random()          # the module-level stream was consumed
            legacy.append([[s, l, w, fd], r, nxt])
random.seed(3)
legacy.append(["w0", call(rg.get_random_moves, 2, 0, False), call(rg.get_random_moves, 2, 0, True),
               call(rg.get_random_moves, 0, 2, True), call(rg.get_random_moves, -1, 2, True)])
obs["legacy_moves"] = legacy

# ------------------------------------------------------- C: check_input
na = math.nextafter
ints = [-10**9, -2, -1, 0, 1, 2, 10**9, True, False, -0.0, 0.5, 1.0]
pvals = [-1.0, -5e-324, -0.0, 0, 0.0, 5e-324, 1e-9, 0.5, na(1.0, 0.0), 1, 1.0, na(1.0, 2.0),
         2, float("inf"), float("-inf"), float("nan"), True, False]
good = dict(seed=0, width=3, length=3, prob_robot_break=0.1, prob_light_break=0.1,
            prob_loose_tile=0.3, prob_tile_break=0.1, max_reward=6)
order = ["seed", "width", "length", "prob_robot_break", "prob_light_break",
         "prob_loose_tile", "prob_tile_break", "max_reward"]
chk = []
for name in order:
    for v in (pvals if name.startswith("prob") else ints):
        kw = dict(good); kw[name] = v
        chk.append([name, repr(v), call(rg.check_input, *[kw[n] for n in order])])
# two offending values at once: which complaint comes first
for a, b in itertools.combinations(order, 2):
    kw = dict(good)
    kw[a] = -1; kw[b] = -1
    chk.append([a, b, call(rg.check_input, *[kw[n] for n in order])])
chk.append(["kw", call(rg.check_input, **good)])
chk.append(["types", call(rg.check_input, "0", 3, 3, 0.1, 0.1, 0.3, 0.1, 6),
            call(rg.check_input, 0, 3, 3, None, 0.1, 0.3, 0.1, 6)])
obs["check_input"] = chk

# ------------------------------------------------- D: main() in a sandbox
def listing(d):
    res = {}
    for dp, dn, fn in os.walk(d):
        for f in fn:
            full = os.path.join(dp, f)
            with open(full, "rb") as fh:
                res[os.path.relpath(full, d)] = fh.read().decode("latin-1")
        for x in dn:
            res[os.path.relpath(os.path.join(dp, x), d) + "/"] = None
    return res

def no_usage(text):
    # the usage synopsis of argparse lists the options, so it legitimately differs
    # once options are added; the "error:" line that follows it is kept
    return "\n".join(l for l in text.splitlines()
                     if not (l.startswith("usage:") or l.startswith("    ")))

def run_main(argv, make_inputs=True):
    d = tempfile.mkdtemp(prefix="c15_")
    old = os.getcwd()
    os.chdir(d)
    if make_inputs:
        os.mkdir("inputs")
    old_argv = sys.argv
    sys.argv = ["roberta_generator.py"] + argv
    so, se = io.StringIO(), io.StringIO()
    try:
        with contextlib.redirect_stdout(so), contextlib.redirect_stderr(se):
            r = call(rg.main)
    finally:
        sys.argv = old_argv
        os.chdir(old)
    files = listing(d)
    shutil.rmtree(d)
    return [argv, r, so.getvalue(), no_usage(se.getvalue()), files]

cli = []
cli_args = [[]]
for s in ["0", "1", "47", "999132423", "18446744073709551621"]:
    for w, l in [("1", "1"), ("1", "2"), ("2", "1"), ("3", "3"), ("5", "4")]:
        for fd in ([], ["-f"]):
            cli_args.append(["-s", s, "-w", w, "-l", l] + fd)
for m in ["1", "2", "6", "40", "1100"]:
    for t in ["1e-12", "0.004", "0.005", "0.3", "0.995", "0.999999999999"]:
        cli_args.append(["--seed", "5", "--max_reward", m, "--prob_loose_tile", t, "--force_down"])
        cli_args.append(["-s", "6", "-m", m, "-t", t, "-p", t, "-q", "0.5", "-r", t])
# boundary and offending values of each of the eight checks, one at a time
bad = {"-s": ["-1", "-2", "0", "1"], "-w": ["0", "-1", "1"], "-l": ["0", "-3", "1"],
       "-m": ["0", "-1", "1"]}
for opt in ["-p", "-q", "-r", "-t"]:
    bad[opt] = ["0", "0.0", "-0.0", "1", "1.0", "-0.1", "1.1", "5e-324", "0.9999999999999999",
                "1.0000000000000002", "nan", "inf", "-inf", "1e-400"]
for opt, vals in bad.items():
    for v in vals:
        for fd in ([], ["-f"]):
            cli_args.append([opt, v] + fd)
            cli_args.append(["--seed=3", "-w", "2", "-l", "2", opt + v] + fd if v[0] != "-"
                            else ["--seed=3", "-w", "2", "-l", "2", opt, v] + fd)
# two offenders, argparse-level errors
cli_args += [["-s", "-1", "-w", "0"], ["-w", "0", "-l", "0"], ["-t", "1", "-m", "0"],
             ["-p", "0", "-q", "1"], ["-s", "x"], ["-w", "1.5"], ["-t", "abc"], ["--bogus"],
             ["-m"], ["-f", "-f"],
             # abbreviated long options must keep resolving the way they did
             ["--s", "5"], ["--se", "5", "--w", "2", "--l", "2", "--f"], ["--m", "3", "--force"],
             ["--p", "0.5"], ["--prob_r", "0.5"], ["--prob_l", "0.5"], ["--prob_li", "0.5"],
             ["--prob_t", "0.5"], ["--prob_lo", "0.5"], ["--max", "0"], ["--wid", "0"],
             ["--len", "0", "--f"], ["-fs5"], ["-s5", "-w2", "-l1", "-m1", "-f"],
             ["-s", "5", "extra"], ["5"]]
for a in cli_args:
    cli.append(run_main(a))
cli.append(run_main([], make_inputs=False))
cli.append(run_main(["-s", "-1"], make_inputs=False))
obs["cli"] = cli

# --------------------------------- E: committed inputs named by parameters
pat = re.compile(r"robot_(\d+)_w(\d+)_l(\d+)_r(\d+)_rb(\d+)_lb(\d+)_tb(\d+)_lt(\d+)(_force_down)?\.py$")
committed = []
for f in sorted(os.listdir(os.path.join(root, "inputs"))):
    m = pat.match(f)
    if not m or m.group(8) == "0":
        continue
    s, w, l, r, rb, lb, tb, lt = [int(x) for x in m.groups()[:8]]
    argv = ["-s", str(s), "-w", str(w), "-l", str(l), "-m", str(r), "-p", str(rb / 100),
            "-q", str(lb / 100), "-r", str(tb / 100), "-t", str(lt / 100)]
    if m.group(9):
        argv.append("-f")
    res = run_main(argv)
    with open(os.path.join(root, "inputs", f), "rb") as fh:
        same = res[4].get(os.path.join("inputs", f)) == fh.read().decode("latin-1")
    committed.append([f, same, res])
obs["committed"] = committed


# ------------------------- F: the new options (patched tree only: "new_" keys)
feat = []
frnd = random.Random(777)
for _ in range(60):
    a = ["-s", str(frnd.randrange(0, 10**6)), "-w", str(frnd.randint(1, 6)),
         "-l", str(frnd.randint(1, 6)), "-m", str(frnd.randint(1, 9)),
         "-t", repr(frnd.choice([0.004, 0.3, 0.5, 0.996, 1e-12, frnd.random() or 0.5])),
         "-p", repr(frnd.random() or 0.5), "-q", "0.25", "-r", repr(frnd.random() or 0.5)]
    if frnd.random() < 0.5:
        a.append("-f")
    feat.append(a)
feat += [["-w", "1", "-l", "1"], ["-w", "1", "-l", "1", "-f"], ["-w", "1", "-l", "4", "-f"],
         ["-w", "4", "-l", "1"], []]
for opt, vals in bad.items():
    for v in vals:
        feat.append([opt, v] + (["-f"] if len(feat) % 2 else []))
feat += [["-s", "-1", "-w", "0"], ["-t", "1", "-m", "0"]]

def run_main2(argv):
    d = tempfile.mkdtemp(prefix="c15_")
    old = os.getcwd()
    os.chdir(d)
    os.mkdir("inputs"); os.mkdir("out")
    so, se = io.StringIO(), io.StringIO()
    try:
        with contextlib.redirect_stdout(so), contextlib.redirect_stderr(se):
            r = call(rg.main, argv)          # main(argv), not sys.argv
    finally:
        os.chdir(old)
    files = listing(d)
    shutil.rmtree(d)
    return [argv, r, so.getvalue(), no_usage(se.getvalue()), files]

def parsed_board(argv):
    with contextlib.redirect_stderr(io.StringIO()):
        ns = call(rg.init_parser().parse_args, argv)
    if ns[0] != "ok":
        return None
    ns = ns[1]
    return call(rg.gen_rnd_board, ns.seed, ns.length, ns.width, ns.prob_loose_tile,
                ns.max_reward, ns.force_down)

obs["feat_base"] = [run_main(a) for a in feat]
obs["feat_board"] = [parsed_board(a) for a in feat]
if hasattr(rg, "board_summary"):
    import copy
    obs["new_argv_default"] = [run_main2(a) for a in feat]
    obs["new_out"] = [run_main2(a + ["-o", "out"]) for a in feat]
    obs["new_out_long"] = [run_main2(["--output_dir=out/", "--board_summary"] + a) for a in feat]
    obs["new_summary"] = [run_main2(a + ["-b"]) for a in feat]
    obs["new_dry"] = [run_main2(a + ["-n"]) for a in feat]
    obs["new_dry_summary"] = [run_main2(["-n", "-b", "-o", "out"] + a) for a in feat]
    obs["new_missing_dir"] = [run_main2(a + ["-o", "nowhere/deeper"]) for a in feat]
    obs["new_cwd"] = [run_main2(a + ["-o", ""]) for a in feat[:20]]
    # the summary only reads the board
    pure = []
    for s in range(40):
        b = rg.gen_rnd_board(s, 1 + s % 5, 1 + s % 4, 0.3, 6, bool(s % 2))
        c = copy.deepcopy(b)
        st = random.getstate()
        rg.board_summary(*b)
        pure.append(b == c and st == random.getstate() and rg.gen_rnd_board(
            s, 1 + s % 5, 1 + s % 4, 0.3, 6, bool(s % 2)) == c)
    obs["new_pure"] = pure
    obs["new_empty_summary"] = [call(rg.board_summary, [], [], []),
                                call(rg.board_summary, [[]], [[]], [[]])]
    obs["new_name"] = [
        rg.board_file_name(1, 2, 3, 6, 0.1, 0.05, 0.1, 0.3, False),
        rg.board_file_name(1, 2, 3, 6, 0.1, 0.05, 0.1, 0.3, True),
        rg.board_file_name(1, 2, 3, 6, 0.1, 0.05, 0.1, 0.3, True, "x"),
        rg.DEFAULT_OUTPUT_DIR]

with open(out_path, "w") as fh:
    json.dump(obs, fh)
'''

CLI_CASES = [
    [], ["-f"], ["-s", "47", "-w", "5", "-l", "5", "-f"], ["-s", "1", "-w", "1", "-l", "1"],
    ["-s", "-1"], ["-w", "0"], ["-l", "0"], ["-m", "0"], ["-p", "0"], ["-p", "1"],
    ["-q", "0"], ["-q", "1.0"], ["-r", "0"], ["-r", "1"], ["-t", "0"], ["-t", "1"],
    ["-t", "0.9999999999999999"], ["-t", "5e-324", "-f"], ["-s", "x"],
]


def listing(d):
    res = {}
    for dp, _, fn in os.walk(d):
        for f in fn:
            full = os.path.join(dp, f)
            with open(full, "rb") as fh:
                res[os.path.relpath(full, d)] = fh.read()
    return res


def real_cli(root):
    """the script as a user runs it: exit status, last stderr line, inputs/"""
    res = []
    for argv in CLI_CASES:
        with tempfile.TemporaryDirectory() as d:
            os.mkdir(os.path.join(d, "inputs"))
            p = subprocess.run([sys.executable, os.path.join(root, "roberta_generator.py")] + argv,
                               cwd=d, capture_output=True, text=True,
                               env=dict(os.environ, PYTHONDONTWRITEBYTECODE="1"))
            last = p.stderr.strip().splitlines()[-1] if p.stderr.strip() else ""
            res.append((argv, p.returncode, p.stdout, last, listing(d)))
    return res


def observe(root):
    root = os.path.abspath(root)
    with tempfile.TemporaryDirectory() as d:
        worker = os.path.join(d, "worker.py")
        with open(worker, "w") as fh:
            fh.write(WORKER)
        out = os.path.join(d, "obs.json")
        subprocess.run([sys.executable, worker, root, out], check=True, cwd=d,
                       env=dict(os.environ, PYTHONDONTWRITEBYTECODE="1", PYTHONHASHSEED="0"))
        with open(out) as fh:
            return json.load(fh)


failures = []


def fail(msg):
    failures.append(msg)
    print("FAIL:", msg)

ARROWS = ["<-", "<>", "->", "v"]


def expected_summary(head, board):
    """what --board_summary has to print, recomputed here from the clean board"""
    moves, rewards, loose = board
    flat_r = [r for row in rewards for r in row]
    flat_l = [x for row in loose for x in row]
    flat_m = [m for row in moves for m in row]
    hist = {}
    for r in sorted(flat_r):
        hist[r] = hist.get(r, 0) + 1
    lines = [head,
             "    length: %d" % len(rewards),
             "    width: %d" % len(rewards[0]),
             "    tiles: %d" % len(flat_r),
             "    loose_tiles: %d" % sum(flat_l),
             "    loose_fraction: %s" % str(sum(flat_l) / len(flat_l)),
             "    max_reward: %d" % max(flat_r),
             "    total_reward: %d" % sum(flat_r),
             "    reward_count: %s" % str(hist),
             "    arrow_count: %s" % str({ARROWS[k]: flat_m.count(k) for k in range(4)}),
             "    rows_with_down_only: %d" % sum(1 for row in moves if 3 in row)]
    return "\n".join(lines) + "\n"


def only_files(files):
    return {k: v for k, v in files.items() if not k.endswith("/")}


def check_feature(op, oc):
    """the new code paths of the patched tree against the clean default run"""
    base, boards = oc["feat_base"], oc["feat_board"]
    n = 0
    for i, (argv, r, so, se, files) in enumerate(base):
        written = only_files(files)
        dirs = {k: v for k, v in files.items() if k.endswith("/")}
        if r[0] == "ok":
            assert len(written) == 1, (argv, written)
            (path, content), = written.items()
            name = os.path.basename(path)
            assert path == "inputs/" + name
            summary_w = lambda d: expected_summary("written: " + d + name, boards[i][1])
            summary_n = lambda d: expected_summary("not written (dry run): " + d + name,
                                                   boards[i][1])
        else:
            assert not written, (argv, written)
        dirs_out = dict(dirs); dirs_out["out/"] = None

        def expect(key, want_r, want_so, want_files, want_dirs=dirs_out):
            got = op[key][i]
            what = "%s %r" % (key, got[0])
            if r[0] == "exc" and r[1] == "SystemExit":
                # refused by argparse: the usage text names the new options
                if got[1] != r or only_files(got[4]) or got[2] != "":
                    fail(what + ": argparse refusal changed: %r" % (got[1],))
                return
            if got[1] != want_r:
                fail(what + ": outcome %r, expected %r" % (got[1], want_r))
            if got[2] != want_so:
                fail(what + ": stdout %r, expected %r" % (got[2], want_so))
            if got[3] != "":
                fail(what + ": stderr %r" % got[3])
            if only_files(got[4]) != want_files:
                fail(what + ": files %r, expected %r" % (sorted(only_files(got[4])),
                                                        sorted(want_files)))
            if {k: v for k, v in got[4].items() if k.endswith("/")} != want_dirs:
                fail(what + ": directories %r" % sorted(got[4]))

        n += 1
        if r[0] == "ok":
            expect("new_argv_default", r, "", {"inputs/" + name: content})
            expect("new_out", r, "", {"out/" + name: content})
            expect("new_out_long", r, summary_w("out/"), {"out/" + name: content})
            expect("new_summary", r, summary_w("inputs/"), {"inputs/" + name: content})
            expect("new_dry", r, "", {})
            expect("new_dry_summary", r, summary_n("out/"), {})
            got = op["new_missing_dir"][i]
            if got[1][:2] != ["exc", "FileNotFoundError"] or only_files(got[4]) or \
                    any(k.startswith("nowhere") for k in got[4]) or got[2] != "":
                fail("new_missing_dir %r: %r %r" % (argv, got[1], sorted(got[4])))
            if i < len(op["new_cwd"]):
                expect("new_cwd", r, "", {name: content})
        else:
            # refused: the same ValueError whatever new option is given, nothing
            # printed, nothing written, no directory created
            for key in ("new_argv_default", "new_out", "new_out_long", "new_summary", "new_dry",
                        "new_dry_summary", "new_missing_dir", "new_cwd"):
                if i < len(op[key]):
                    expect(key, r, "", {})
    if not all(op["new_pure"]) or len(op["new_pure"]) != 40:
        fail("board_summary touched the board or the random generator")
    for e in op["new_empty_summary"]:
        if e[0] != "ok" or e[1]["tiles"] != 0 or e[1]["loose_fraction"] != 0.0:
            fail("board_summary of an empty board: %r" % (e,))
    want = ["inputs/robot_1_w2_l3_r6_rb10_lb5_tb10_lt30.py",
            "inputs/robot_1_w2_l3_r6_rb10_lb5_tb10_lt30_force_down.py",
            "x/robot_1_w2_l3_r6_rb10_lb5_tb10_lt30_force_down.py", "inputs"]
    if op["new_name"] != want:
        fail("board_file_name: %r" % (op["new_name"],))
    return n


def check_help(root):
    with tempfile.TemporaryDirectory() as d:
        os.mkdir(os.path.join(d, "inputs"))
        p = subprocess.run([sys.executable, os.path.join(root, "roberta_generator.py"), "-h"],
                           cwd=d, capture_output=True, text=True,
                           env=dict(os.environ, PYTHONDONTWRITEBYTECODE="1"))
        if p.returncode != 0 or listing(d) or "--seed" not in p.stdout:
            fail("-h: status %r, files %r" % (p.returncode, sorted(listing(d))))


def check_property(obs):
    """the statement of C15, checked directly on the patched observations"""
    n = 0
    for (args, res) in obs["boards"] + obs["freq"]:
        seed, l, w, p, m, fd = args
        if res[0] != "ok":
            fail("accepted parameters raised: %r %r" % (args, res))
            continue
        moves, rewards, loose = res[1]
        n += 1
        for name, mat in (("moves", moves), ("rewards", rewards), ("loose", loose)):
            if len(mat) != l or any(len(row) != w for row in mat):
                fail("%s has the wrong shape for %r" % (name, args))
        for row in rewards:
            for r in row:
                if type(r) is not int or not 0 <= r <= m:
                    fail("reward %r out of range for %r" % (r, args))
        for row in loose:
            for x in row:
                if x not in (0, 1) or type(x) is not int:
                    fail("loose flag %r for %r" % (x, args))
        allowed = (0, 1, 2, 3) if fd else (0, 1, 2)
        for row in moves:
            if any(x not in allowed or type(x) is not int for x in row):
                fail("arrow outside the allowed set for %r" % (args,))
            if fd and 3 not in row:
                fail("row without a down-only tile for %r" % (args,))
            if not fd and 3 in row:
                fail("down-only tile without force_down for %r" % (args,))
    for (a, res) in obs["freq"]:
        p = a[3]
        flat = [x for row in res[1][2] for x in row]
        f = sum(flat) / len(flat)
        if abs(f - p) > 0.02:
            fail("loose-tile frequency %.4f for requested %.2f" % (f, p))
    if not all(obs["repeatable"]):
        fail("the same seed and parameters gave two different boards")
    # refusals: ValueError and nothing written
    for (argv, r, so, se, files) in obs["cli"]:
        wrote = [f for f in files if not f.endswith("/")]
        if r[0] == "exc" and wrote:
            fail("refused run %r wrote %r" % (argv, wrote))
    return n


def main():
    if len(sys.argv) != 3:
        print(__doc__)
        return 2
    patched, clean = sys.argv[1], sys.argv[2]
    op = observe(patched)
    oc = observe(clean)
    for key in sorted(set(op) | set(oc)):
        if key.startswith("new_"):
            continue
        a, b = op.get(key), oc.get(key)
        if a == b:
            print("same  %-14s (%d observations)" % (key, len(a)))
            continue
        if a is None or b is None or len(a) != len(b):
            fail("%s: different number of observations" % key)
            continue
        for x, y in zip(a, b):
            if x != y:
                fail("%s differs:\n  patched %s\n  clean   %s" % (key, str(x)[:600], str(y)[:600]))
                break
    if not any(k.startswith("new_") for k in op):
        fail("the patched tree does not have the new options")
    else:
        print("new options checked against the clean default run for %d argument vectors"
              % check_feature(op, oc))
    check_help(patched)
    n = check_property(op)
    print("statement of C15 checked directly on %d patched boards" % n)
    ok_committed = sum(1 for c in op["committed"] if c[1])
    print("committed inputs reproduced byte for byte by the patched tree: %d of %d"
          % (ok_committed, len(op["committed"])))
    if [c[:2] for c in op["committed"]] != [c[:2] for c in oc["committed"]]:
        fail("committed inputs: the two trees disagree")
    rp, rc = real_cli(patched), real_cli(clean)
    for x, y in zip(rp, rc):
        if x != y:
            fail("command line %r: patched (%r, %r) clean (%r, %r)"
                 % (x[0], x[1], x[3], y[1], y[3]))
    print("command line runs compared: %d" % len(rp))
    if failures:
        print("FAIL (%d differences)" % len(failures))
        return 1
    print("PASS")
    return 0


if __name__ == "__main__":
    sys.exit(main())
