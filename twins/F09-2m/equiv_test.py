#!/usr/bin/env python
"""
Behavioural equivalence test for property C09 (malformed games are rejected
with ValueError, never solved; the batch runner records the message).

usage: python equiv_test.py <path-to-patched-root> <path-to-clean-root>

Both trees are loaded in separate subprocesses (this same file, --worker mode).
Each worker replays the same deterministic list of cases and dumps one
(case id, observation) pair per case; the parent compares the two dumps.
Prints PASS and exits 0 when nothing differs, FAIL (exit 1) otherwise.

Cases
  * a few hundred random well-formed games (cycles through probabilistic states,
    several finals, dead states, ties, sinks owned by any player), both pruning
    modes, every solve under a time budget (a TIMEOUT on either side is treated
    as "no information", both-sides timeouts are the norm for non-stopping games);
  * for 16 base games: every well-formedness rule broken at every position
    (state, transition, tuple slot), boundary values n and -1 included, several
    offending values per rule, pairs of simultaneously broken rules (which
    message wins), exotic shapes (empty game, nan / str rewards, unhashable
    players, bool successors, tuple subclasses ...), both pruning modes,
    observed through StochasticGame(**game).solve(), check_game() alone,
    init_states() alone (no check_game before), direct node constructors, and
    conditionalrewards.run_games (result dicts without the wall-clock time,
    mutated input dicts, logged error records, report file).
"""
import copy
import json
import os
import random
import shutil
import subprocess
import sys
import tempfile

P1, P2, PR = "Player 1", "Player 2", "Probabilistic"
SOLVE_BUDGET = 0.25      # seconds per solve of a random well-formed game
MUTANT_BUDGET = 0.15     # seconds per solve of a mutant (almost all are rejected at once)
TIMEOUT = "<<TIMEOUT>>"


# --------------------------------------------------------------------------- #
# deterministic case generation (identical in both workers)

def random_game(rng, n=None, back=0.1):
    """back: probability that a transition may point anywhere (cycles); 0 gives a DAG
    over absorbing zero-reward sinks, on which value iteration always stops."""
    n = n if n is not None else rng.randint(1, 8)
    n_sinks = rng.randint(1, max(1, min(3, n)))
    sinks = list(range(n - n_sinks, n))
    players, rewards, tl = [], [], []
    for s in range(n):
        if s in sinks:
            p = rng.choice([PR, PR, P1, P2])
            players.append(p)
            rewards.append(0)
            tl.append([(1, s)] if p == PR else [("stay", s)])
            continue
        p = rng.choice([P1, P2, PR, PR])
        players.append(p)
        rewards.append(rng.choice([0, 0, 1, 2, 5 / 3, 3, 0.5, 10]))
        k = rng.randint(1, 3)
        succs = []
        for _ in range(k):
            if rng.random() >= back and s + 1 < n:
                succs.append(rng.randint(s + 1, n - 1))
            else:
                succs.append(rng.randint(0, n - 1))
        if p == PR:
            weights = [rng.choice([1, 1, 2, 3]) for _ in succs]
            tot = sum(weights)
            tl.append([(w / tot, t) for w, t in zip(weights, succs)])
            if p == PR and all(t == s for t in succs) and rewards[-1]:
                rewards[-1] = 0
        else:
            acts = ["a", "b", "c"]
            if rng.random() < 0.15:
                acts = ["a", "a", "b"]      # duplicated action names
            tl.append([(acts[i], t) for i, t in enumerate(succs)])
    n_fin = rng.randint(1, len(sinks))
    finals = rng.sample(sinks, n_fin)
    if rng.random() < 0.15:
        finals.append(rng.randint(0, n - 1))       # a non-sink (or repeated) final
    if rng.random() < 0.3:
        finals.sort()
    return {"rewards": rewards, "players": players,
            "transition_list": tl, "final_states": finals}


class Pair(tuple):
    """a tuple subclass: still a tuple for isinstance"""


def mutations(game):
    """Yield (label, mutated deep copy) for every rule x every position.
    Labels starting with "!" mark mutants that certainly break a documented rule (they
    must end in ValueError); "cyc:" marks mutants that stay well-formed but may close a
    cycle on which the solver never stops; the others may or may not be well-formed."""
    n = len(game["players"])

    def mk():
        return copy.deepcopy(game)

    # --- list lengths disagree
    for key in ("transition_list", "rewards", "players", "final_states"):
        sure = "" if key == "final_states" else "!"
        g = mk(); g[key] = g[key][:-1]; yield f"{sure}len:{key}:-1", g
        g = mk()
        extra = {"transition_list": [(1, 0)] if False else [("x", 0)], "rewards": 0,
                 "players": PR, "final_states": 0}[key]
        g[key] = g[key] + [extra]; yield f"{sure}len:{key}:+1", g
    g = mk(); g["transition_list"] = g["transition_list"] + [[]]; yield "!len:tl:+empty", g
    g = mk(); g["rewards"] = []; yield ("!" if n else "") + "len:rewards:empty", g
    g = mk(); g["final_states"] = []; yield "!final:empty", g
    g = mk(); g["final_states"] = (); yield "!final:emptytuple", g

    # --- rewards
    for i in range(n):
        for bad in (-1, -1e-12, float("nan"), "1", None, True, -0.0):
            g = mk(); g["rewards"][i] = bad
            yield ("!" if bad in (-1, -1e-12) else "") + f"reward:{i}:{bad!r}", g

    # --- players
    for i in range(n):
        for bad in ("player 1", None, 1, ["Player 1"], b"Player 1"):
            g = mk(); g["players"][i] = bad; yield f"!player:{i}:{bad!r}", g

    # --- final states
    nf = len(game["final_states"])
    for pos in range(nf + 1):
        for bad in (n, -1, n + 1, -n - 1, n - 1, 1.5, "0", None):
            g = mk(); g["final_states"].insert(pos, bad)
            sure = "!" if isinstance(bad, int) and not 0 <= bad < n else ""
            yield f"{sure}final:ins{pos}:{bad!r}", g
    for pos in range(nf):
        for bad in (n, -1, 10 * n + 3):
            g = mk(); g["final_states"][pos] = bad; yield f"!final:set{pos}:{bad!r}", g

    # --- a state without transitions / transition container of the wrong type
    for i in range(n):
        row = game["transition_list"][i]
        for bad in ([], None, (), 0, "", {}, tuple(row), {"a": 0}, "ab", 5, set(row), [row]):
            g = mk(); g["transition_list"][i] = bad
            yield f"!row:{i}:{type(bad).__name__}:{bad!r}"[:80], g

    # --- every transition, every slot
    for i in range(n):
        row = game["transition_list"][i]
        is_prob = game["players"][i] == PR
        for j, (head, succ) in enumerate(row):
            def put(value, _i=i, _j=j):
                g = mk(); g["transition_list"][_i][_j] = value; return g
            # not a tuple
            for bad in ([head, succ], None, "ab", Pair((head, succ))):
                sure = "" if isinstance(bad, tuple) else "!"
                yield f"{sure}t:{i}:{j}:shape:{bad!r}", put(bad)
            # wrong length
            for bad in ((), (head,), (head, succ, succ)):
                yield f"!t:{i}:{j}:len:{bad!r}", put(bad)
            # slot 0
            heads = (None, 1, 0.5, "a", b"a", True, 1j, [0.5])
            for bad in heads:
                sure = "" if isinstance(bad, (int, float) if is_prob else str) else "!"
                yield f"{sure}t:{i}:{j}:head:{bad!r}", put((bad, succ))
            # slot 1
            for bad in (n, -1, n + 1, -n, -n - 1, 10, float(succ), str(succ), None, [succ],
                        1.5, n - 1):
                sure = "" if bad == n - 1 else "!"
                yield f"{sure}t:{i}:{j}:succ:{bad!r}", put((head, bad))
            # still well-formed, but may close a cycle on which the solver never stops
            for bad in (True, False, 0):
                yield f"cyc:t:{i}:{j}:succ:{bad!r}", put((head, bad))
            # both slots broken: which message wins
            yield f"!t:{i}:{j}:both", put((None, n))
            yield f"!t:{i}:{j}:both2", put(((1j if is_prob else 3), "x"))
            yield f"t:{i}:{j}:swapped", put((succ, head))

    # --- two rules broken at two places: which one is reported
    rng = random.Random(n * 7919 + len(game["final_states"]))
    singles = []
    for i in range(n):
        singles.append(("reward", i, -1))
        singles.append(("player", i, "nobody"))
        singles.append(("row", i, []))
        singles.append(("row", i, (("a", 0),)))
        for j in range(len(game["transition_list"][i])):
            singles.append(("succ", i, j, n))
            singles.append(("succ", i, j, -1))
            singles.append(("head", i, j, None))
            singles.append(("shape", i, j, ["a", 0]))
            singles.append(("len3", i, j, None))
    singles.append(("final", 0, n))
    singles.append(("final", 0, -1))
    singles.append(("tl_short",))
    singles.append(("rw_long",))

    def apply(g, m):
        kind = m[0]
        if kind == "reward": g["rewards"][m[1]] = m[2]
        elif kind == "player": g["players"][m[1]] = m[2]
        elif kind == "row":
            if m[1] < len(g["transition_list"]):
                g["transition_list"][m[1]] = m[2]
        elif kind in ("succ", "head", "shape", "len3"):
            if m[1] >= len(g["transition_list"]):
                return
            row = g["transition_list"][m[1]]
            if not isinstance(row, list) or m[2] >= len(row) or not isinstance(row[m[2]], tuple):
                return
            h, s = row[m[2]][0], row[m[2]][1]
            row[m[2]] = {"succ": (h, m[3]), "head": (m[3], s), "shape": m[3],
                         "len3": (h, s, s)}[kind]
        elif kind == "final": g["final_states"].append(m[2])
        elif kind == "tl_short": g["transition_list"] = g["transition_list"][:-1]
        elif kind == "rw_long": g["rewards"] = g["rewards"] + [1]

    for k in range(min(40, len(singles) * 2)):
        a, b = rng.sample(singles, 2) if len(singles) > 1 else (singles[0], singles[0])
        g = mk(); apply(g, a); apply(g, b)
        yield f"!pair:{k}:{a!r}+{b!r}", g


def special_games():
    yield "empty", {"rewards": [], "players": [], "transition_list": [], "final_states": []}
    yield "empty_final0", {"rewards": [], "players": [], "transition_list": [],
                           "final_states": [0]}
    yield "one_self_final", {"rewards": [0], "players": [PR], "transition_list": [[(1, 0)]],
                             "final_states": [0]}
    yield "one_self_final_p1", {"rewards": [3], "players": [P1],
                                "transition_list": [[("a", 0)]], "final_states": [0]}
    yield "strings_as_lists", {"rewards": "ab", "players": "ab", "transition_list": "ab",
                               "final_states": "ab"}
    yield "tuples_everywhere", {"rewards": (0, 0), "players": (PR, PR),
                                "transition_list": ([(1, 1)], [(1, 1)]), "final_states": (1,)}
    yield "dict_rewards", {"rewards": {0: 1, 1: 2}, "players": [PR, PR],
                           "transition_list": [[(1, 1)], [(1, 1)]], "final_states": [1]}
    yield "final_set", {"rewards": [0, 0], "players": [PR, PR],
                        "transition_list": [[(1, 1)], [(1, 1)]], "final_states": {1}}
    yield "final_dup", {"rewards": [0, 0], "players": [P2, PR],
                        "transition_list": [[("a", 1), ("b", 0)], [(1, 1)]],
                        "final_states": [1, 1, 1]}
    yield "start_dead", {"rewards": [1, 0, 0], "players": [PR, PR, PR],
                         "transition_list": [[(1, 1)], [(1, 1)], [(1, 2)]],
                         "final_states": [2]}
    yield "bool_prob", {"rewards": [1, 0], "players": [PR, PR],
                        "transition_list": [[(True, 1)], [(True, 1)]], "final_states": [1]}
    yield "probs_not_summing", {"rewards": [1, 0, 0], "players": [PR, PR, PR],
                                "transition_list": [[(0.2, 1), (0.2, 2)], [(1, 1)], [(1, 2)]],
                                "final_states": [1]}
    yield "negative_prob", {"rewards": [1, 0, 0], "players": [PR, PR, PR],
                            "transition_list": [[(-0.5, 1), (1.5, 2)], [(1, 1)], [(1, 2)]],
                            "final_states": [1]}


# --------------------------------------------------------------------------- #
# worker

def worker(root, out_path):
    import logging
    import signal
    sys.path.insert(0, root)
    workdir = tempfile.mkdtemp(prefix="c09_equiv_")
    os.mkdir(os.path.join(workdir, "outputs"))
    os.chdir(workdir)
    import tad
    import conditionalrewards as cr
    assert os.path.dirname(os.path.abspath(tad.__file__)) == os.path.abspath(root)
    assert os.path.dirname(os.path.abspath(cr.__file__)) == os.path.abspath(root)

    records = []

    class Capture(logging.Handler):
        def emit(self, record):
            records.append(f"{record.levelname}:{record.getMessage()}")
    logging.getLogger().addHandler(Capture(level=logging.WARNING))
    logging.getLogger().setLevel(logging.WARNING)

    class Budget(BaseException):
        pass

    def on_alarm(signum, frame):
        raise Budget()
    signal.signal(signal.SIGALRM, on_alarm)

    def observe(fn, budget=SOLVE_BUDGET):
        signal.setitimer(signal.ITIMER_REAL, budget)
        try:
            try:
                res = fn()
            finally:
                signal.setitimer(signal.ITIMER_REAL, 0)
            return "OK " + repr(res)
        except Budget:
            return TIMEOUT
        except RecursionError:
            return "EXC RecursionError"
        except Exception as e:          # noqa
            return f"EXC {type(e).__name__}: {e}"

    def node_dump(nodes):
        return [(type(x).__name__, sorted(vars(x).items(), key=lambda kv: kv[0]))
                for x in nodes]

    out = []

    def emit(cid, obs):
        out.append([cid, obs])

    def solve_case(cid, game, deep=True, budget=SOLVE_BUDGET):
        for prune in (True, False):
            g = copy.deepcopy(game)
            emit(f"{cid}|solve|{prune}",
                 observe(lambda: tad.StochasticGame(prune_states=prune, **g).solve(), budget))
            emit(f"{cid}|after|{prune}", repr(g))
        if deep:
            g = copy.deepcopy(game)
            emit(f"{cid}|check_game", observe(lambda: tad.StochasticGame(**g).check_game()))
            g = copy.deepcopy(game)
            emit(f"{cid}|init_states",
                 observe(lambda: node_dump(tad.StochasticGame(**g).init_states())))
            emit(f"{cid}|init_after", repr(g))

    def strip_time(results):
        return {name: {k: v for k, v in res.items() if k != "total_time"}
                for name, res in results.items()}

    def run_games_case(cid, games, budget=None, report=True):
        g = copy.deepcopy(games)
        del records[:]
        holder = {}

        def go():
            holder["res"] = cr.run_games(g)
            return strip_time(holder["res"])
        # the batch gets a budget proportional to its size
        if budget is None:
            budget = max(2.0, 2 * SOLVE_BUDGET * len(g))
        emit(f"{cid}|run_games", observe(go, budget=budget))
        emit(f"{cid}|run_games_input_after", repr(g))
        emit(f"{cid}|run_games_log", repr(list(records)))
        if report and "res" in holder:
            res = holder["res"]
            for v in res.values():
                v["total_time"] = 0.25
            stem = "".join(ch if ch.isalnum() else "_" for ch in cid)[:60]
            obs = observe(lambda: cr.save_results_to_file(res, f"some/dir/{stem}.py"), 5.0)
            try:
                with open(os.path.join("outputs", f"{stem}.txt"), "rb") as fh:
                    obs += " FILE " + repr(fh.read())
            except OSError as e:
                obs += f" NOFILE {type(e).__name__}"
            emit(f"{cid}|report", obs)

    # ---- 1. well-formed random games
    rng = random.Random(20260909)
    good = []
    for k in range(330):
        game = random_game(rng, back=(0.0 if k < 40 else rng.choice([0.05, 0.1, 0.3])))
        good.append(game)
        solve_case(f"good{k}", game, deep=(k % 3 == 0))
    for label, game in special_games():
        solve_case(f"special:{label}", game)
    run_games_case("goodbatch", {f"g{k}": g for k, g in enumerate(good[:40])})
    run_games_case("specialbatch", {lab: g for lab, g in special_games()
                                    if lab not in ("strings_as_lists", "one_self_final_p1",
                                                   "dict_rewards")})

    # ---- 2. every rule x every position on base games
    rng = random.Random(4242)
    bases = [random_game(rng, n=k, back=0.0) for k in (1, 1, 2, 2, 3, 3)]
    bases += [random_game(rng, n=rng.randint(2, 5), back=0.0) for _ in range(9)]
    bases.append({"rewards": [0, 2, 5 / 3, 0, 0, 0, 0, 0],
                  "players": [P1, P2, P2, PR, PR, PR, PR, PR],
                  "transition_list": [[("alfa", 1), ("beta", 2)], [(" ", 3)], [(" ", 4)],
                                      [(0.5, 5), (0.5, 6)], [(0.75, 6), (0.25, 7)],
                                      [(1, 5)], [(1, 6)], [(1, 7)]],
                  "final_states": [6]})
    total_mut = 0
    for b, base in enumerate(bases):
        batch = {}
        for label, mutated in mutations(base):
            total_mut += 1
            cid = f"base{b}:m{total_mut}:{label}"
            solve_case(cid, mutated, deep=True, budget=MUTANT_BUDGET)
            # the batch runner on the mutant alone (both pruning modes inside) ...
            run_games_case(cid, {label: mutated}, budget=2 * MUTANT_BUDGET,
                           report=(total_mut % 10 == 0))
            if label.startswith("!"):
                batch[label] = mutated
            elif not label.startswith("cyc:") and total_mut % 25 == 0:
                batch["base@" + label] = base        # a solvable game in between
        # ... and on all the certainly-malformed mutants of this base game in one batch:
        # every one must be turned into a recorded message, none may stop the batch
        run_games_case(f"base{b}batch", batch, budget=30.0)

    # ---- 3. node constructors directly
    node_cases = []
    for cls_name in ("PlayerOne", "PlayerTwo", "ProbabilisticNode", "Node"):
        for player in (P1, P2, PR, "Somebody", None, ["Player 1"]):
            for ns in ([("a", 1)], [(0.5, 1), (0.5, 0)], [], None, (("a", 1),), [("a", 2)],
                       [("a", -1)], [(0.5, 1), (0.5, 2)], [(None, 1)], [(None, "x")],
                       [("a", 1), ["a", 1]], [("a", 1), ("a", 1, 1)], [("a", 1.0)],
                       [(1, True)], [("a", 1), (3, 0)], [(0.5, 1), ("b", 0)]):
                node_cases.append((cls_name, player, ns))
    for k, (cls_name, player, ns) in enumerate(node_cases):
        def build(cls_name=cls_name, player=player, ns=ns):
            arg = copy.deepcopy(ns)
            node = getattr(tad, cls_name)(player=player, idx=0, reward=1, next_states=arg,
                                          num_states=2, is_final_node=False)
            return node_dump([node]), node.next_states is arg, arg
        emit(f"node{k}:{cls_name}:{player!r}:{ns!r}", observe(build))

    emit("meta", f"mutants={total_mut} cases={len(out)}")
    with open(out_path, "w") as fh:
        json.dump(out, fh)
    os.chdir("/")
    shutil.rmtree(workdir, ignore_errors=True)


# --------------------------------------------------------------------------- #
# parent

def run_worker(root, out_path):
    proc = subprocess.run([sys.executable, os.path.abspath(__file__), "--worker",
                           os.path.abspath(root), out_path],
                          stdout=subprocess.PIPE, stderr=subprocess.PIPE, text=True,
                          env=dict(os.environ, PYTHONHASHSEED="0"))
    if proc.returncode != 0:
        print(f"worker for {root} crashed:\n{proc.stdout}\n{proc.stderr[-4000:]}")
        return None
    with open(out_path) as fh:
        return json.load(fh)


def main():
    if len(sys.argv) == 4 and sys.argv[1] == "--worker":
        worker(sys.argv[2], sys.argv[3])
        return 0
    if len(sys.argv) != 3:
        print(__doc__)
        return 2
    patched_root, clean_root = sys.argv[1], sys.argv[2]
    tmp = tempfile.mkdtemp(prefix="c09_equiv_parent_")
    from concurrent.futures import ThreadPoolExecutor
    with ThreadPoolExecutor(2) as pool:
        fa = pool.submit(run_worker, patched_root, os.path.join(tmp, "patched.json"))
        fb = pool.submit(run_worker, clean_root, os.path.join(tmp, "clean.json"))
        a, b = fa.result(), fb.result()
    shutil.rmtree(tmp, ignore_errors=True)
    if a is None or b is None:
        print("FAIL")
        return 1
    failures = []
    da, db = dict(a), dict(b)
    if len(da) != len(a) or len(db) != len(b):
        failures.append("duplicated case ids")
    order = [c for c, _ in a] + [c for c, _ in b if c not in da]
    missing = "<<no such observation>>"   # e.g. no report when run_games did not return
    timeouts = rejected = solved = 0
    for ca in order:
        cb, oa, ob = ca, da.get(ca, missing), db.get(ca, missing)
        if TIMEOUT in (oa, ob):
            timeouts += 1
            continue
        if "|solve|" in ca:
            if oa.startswith("EXC ValueError"):
                rejected += 1
            elif oa.startswith("OK"):
                solved += 1
        if ca != cb or oa != ob:
            failures.append(f"{ca}\n   patched: {oa[:600]}\n   clean  : {ob[:600]}")
        elif ":!" in ca and "|solve|" in ca and not oa.startswith("EXC ValueError"):
            failures.append(f"{ca}\n   a certainly malformed game was not rejected: {oa[:300]}")
    print(f"{len(a)} observations compared; solve calls: {solved} solved, "
          f"{rejected} rejected with ValueError; {timeouts} skipped for the time budget")
    if failures:
        print(f"{len(failures)} differences, first ones:")
        for f in failures[:15]:
            print(" -", f)
        print("FAIL")
        return 1
    print("PASS")
    return 0


if __name__ == "__main__":
    sys.exit(main())
