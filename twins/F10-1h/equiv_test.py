#!/usr/bin/env python
"""
Equivalence / property check for C10 ("solving leaves the game description intact and is repeatable").

usage: python equiv_test.py <path-to-patched-root> <path-to-clean-root>

The two trees are loaded in two separate subprocesses (same module names), each one runs the
same deterministic workload and dumps everything observable as JSON; the parent compares the
two dumps value for value (floats bit for bit) and, on top of that, checks the property itself
on the patched dump (description intact after every solve, all solves of one mode identical).

Workload (see worker()):
  * ~700 random well-formed games (forward games with probabilistic back edges, several finals,
    dead sinks, ties, duplicated targets, zero-probability edges, non-absorbing finals, initial
    state with reach probability 0, ...) + ~150 zero-reward games with arbitrary cycles
    + hand-written boundary games + the games of inputs/paper_games.py and inputs/example_games.py;
  * for every game a random HISTORY of solves on the very same description lists: pruned and
    unpruned, through a long-lived object, through fresh objects, in random order, repeated;
  * the node-level API the property is anchored in (construction, prune_paths,
    prune_paths_reachability, remove_path) on lists owned by the caller;
  * the driver: run_games twice on the same dictionary and the report written from it.
"""
import copy
import inspect
import json
import os
import random
import signal
import subprocess
import sys
import tempfile

N_FORWARD = 700
N_CYCLIC = 150


# --------------------------------------------------------------------------- game generators
def _prob_row(rng, forward, backward):
    """ A probabilistic row: at least one forward edge with positive probability. """
    n_fwd = rng.randint(1, min(3, len(forward)))
    targets = [rng.choice(forward) for _ in range(n_fwd)]
    if backward and rng.random() < 0.35:
        targets += [rng.choice(backward) for _ in range(rng.randint(1, 2))]
    weights = [rng.choice([1, 1, 1, 2, 3, 5, 20]) for _ in targets]
    total = sum(weights)
    if len(targets) == 1:
        row = [(rng.choice([1, 1.0]), targets[0])]
    else:
        row = [(w / total, t) for w, t in zip(weights, targets)]
    if rng.random() < 0.08:
        row.insert(rng.randint(0, len(row)), (rng.choice([0, 0.0]), rng.choice(forward)))
    return row


def _player_row(rng, forward):
    names = ["a", "b", "c", "d"]
    n_act = rng.randint(1, min(4, max(1, len(forward) + 1)))
    if rng.random() < 0.05:
        acts = [rng.choice(names) for _ in range(n_act)]      # duplicated action names
    else:
        acts = names[:n_act]
        if rng.random() < 0.3:
            rng.shuffle(acts)
    return [(a, rng.choice(forward)) for a in acts]


def gen_forward_game(rng):
    """
        States are ordered; player states only move forward, probabilistic states may also move
        backward (or stay) but always keep a forward edge: every play is absorbed with
        probability one, so both value iterations terminate. The last k states are absorbing
        (final or dead, reward 0).
    """
    n = rng.randint(1, 12)
    k = rng.randint(1, min(3, n))
    absorbing = list(range(n - k, n))
    finals = [i for i in absorbing if rng.random() < 0.6]
    if not finals:
        finals = [rng.choice(absorbing)]
    players, rows, rewards = [], [], []
    kinds = ["Player 1", "Player 2", "Probabilistic"]
    bias = rng.choice([None, None, "Player 1", "Player 2", "Probabilistic"])
    for i in range(n):
        kind = bias if (bias and rng.random() < 0.7) else rng.choice(kinds)
        players.append(kind)
        if i in absorbing:
            rewards.append(0)
            rows.append([(rng.choice([1, 1.0]), i)] if kind == "Probabilistic" else [("stay", i)])
            continue
        rewards.append(rng.choice([0, 0, 1, 1, 2, 3, 5, 0.5, 10]))
        forward = list(range(i + 1, n))
        if rng.random() < 0.5:                                   # prefer near states: longer paths
            forward = forward[:3]
        if kind == "Probabilistic":
            rows.append(_prob_row(rng, forward, list(range(0, i + 1))))
        else:
            rows.append(_player_row(rng, forward))
    if rng.random() < 0.15:                                      # a final state that is not absorbing
        cand = [i for i in range(n) if i not in absorbing]
        if cand:
            finals.append(rng.choice(cand))
    if rng.random() < 0.1:
        finals.append(finals[0])                                 # listed twice
    if rng.random() < 0.3:
        rng.shuffle(finals)
    return {"rewards": rewards, "players": players, "transition_list": rows, "final_states": finals}


def gen_cyclic_zero_reward_game(rng):
    """ Arbitrary graph (any cycles, also between the players), all rewards 0. """
    n = rng.randint(1, 9)
    players, rows = [], []
    for i in range(n):
        kind = rng.choice(["Player 1", "Player 2", "Probabilistic"])
        players.append(kind)
        everything = list(range(n))
        if kind == "Probabilistic":
            m = rng.randint(1, 3)
            targets = [rng.choice(everything) for _ in range(m)]
            weights = [rng.choice([1, 1, 2, 3]) for _ in targets]
            total = sum(weights)
            rows.append([(w / total, t) for w, t in zip(weights, targets)] if m > 1 else [(1, targets[0])])
        else:
            rows.append([(a, rng.choice(everything)) for a in ["a", "b", "c"][:rng.randint(1, 3)]])
    finals = sorted(set(rng.choice(range(n)) for _ in range(rng.randint(1, 2))))
    return {"rewards": [0] * n, "players": players, "transition_list": rows, "final_states": finals}


def boundary_games():
    games = {}
    games["single_final"] = {"rewards": [0], "players": ["Probabilistic"],
                             "transition_list": [[(1, 0)]], "final_states": [0]}
    games["single_final_p1"] = {"rewards": [0], "players": ["Player 1"],
                                "transition_list": [[("a", 0)]], "final_states": [0]}
    games["initial_dead"] = {"rewards": [0, 0], "players": ["Probabilistic", "Probabilistic"],
                             "transition_list": [[(1, 0)], [(1, 1)]], "final_states": [1]}
    games["p1_tie"] = {"rewards": [1, 0, 0], "players": ["Player 1", "Probabilistic", "Probabilistic"],
                       "transition_list": [[("a", 1), ("b", 2), ("c", 1)], [(1, 1)], [(1, 2)]],
                       "final_states": [1, 2]}
    games["p2_choice_dead"] = {"rewards": [1, 2, 0, 0], "players": ["Player 2", "Probabilistic", "Probabilistic", "Player 1"],
                               "transition_list": [[("a", 1), ("b", 3)], [(0.5, 2), (0.5, 3)], [(1, 2)], [("stay", 3)]],
                               "final_states": [2]}
    # figure 5.5 of the paper (tests/conftest.py): one pruned solve used to eat the description
    games["fig_5_5"] = {
        "rewards": [0, 0, 0, 0, 0, 0, 0, 0],
        "players": ["Player 1", "Player 2", "Player 2", "Probabilistic", "Probabilistic",
                    "Probabilistic", "Probabilistic", "Probabilistic"],
        "transition_list": [[("a", 1), ("b", 2)], [("c", 3), ("d", 4)], [("e", 4), ("f", 7)],
                            [(0.1, 5), (0.9, 6)], [(0.9, 5), (0.1, 6)], [(1, 5)], [(1, 6)], [(1, 7)]],
        "final_states": [6]}
    games["fig_5_5_rewards"] = dict(copy.deepcopy(games["fig_5_5"]), rewards=[1, 2, 1, 3, 1, 0, 0, 0])
    # redistribution: three successors, one dead, thirds
    games["redistribution"] = {"rewards": [1, 1, 0, 0], "players": ["Probabilistic"] * 4,
                               "transition_list": [[(1 / 3, 1), (1 / 3, 2), (1 / 3, 3)], [(0.5, 0), (0.5, 2)], [(1, 2)], [(1, 3)]],
                               "final_states": [2]}
    # all successors of a probabilistic state dead but itself not initial
    games["dead_branch"] = {"rewards": [1, 1, 0, 0], "players": ["Player 1", "Probabilistic", "Probabilistic", "Probabilistic"],
                            "transition_list": [[("a", 1), ("b", 2)], [(0.5, 3), (0.5, 1)], [(1, 2)], [(1, 3)]],
                            "final_states": [2]}
    # rows that are one and the same list object
    shared = [(1, 2)]
    games["shared_rows"] = {"rewards": [1, 1, 0], "players": ["Probabilistic"] * 3,
                            "transition_list": [shared, shared, [(1, 2)]], "final_states": [2]}
    return games


def all_games(root):
    rng = random.Random(20240610)
    games = {}
    for i in range(N_FORWARD):
        games["fwd_%03d" % i] = gen_forward_game(rng)
    for i in range(N_CYCLIC):
        games["cyc_%03d" % i] = gen_cyclic_zero_reward_game(rng)
    games.update(boundary_games())
    for fname in ("paper_games.py", "example_games.py", "manual_1_game_a.py",
                  "robot_1_w1_l2_r6_rb10_lb5_tb10_lt0.py", "robot_1_w2_l1_r6_rb10_lb5_tb10_lt0.py",
                  "robot_1_w2_l2_r6_rb10_lb5_tb10_lt0.py"):
        path = os.path.join(root, "inputs", fname)
        with open(path) as fh:
            for name, game in eval(fh.read()).items():
                game.pop("prune_states", None)
                games["file_%s_%s" % (fname[:-3], name)] = game
    return games


# --------------------------------------------------------------------------- worker
def plain(value):
    """ JSON-able, type-normalising copy (named tuples / tuples -> lists). """
    if isinstance(value, (list, tuple)):
        return [plain(v) for v in value]
    if isinstance(value, dict):
        return {str(k): plain(v) for k, v in value.items()}
    if isinstance(value, float):
        return {"f": repr(value)}
    if isinstance(value, bool) or value is None or isinstance(value, (int, str)):
        return value
    return {"obj": repr(value)}


def attempt(fn):
    try:
        return {"ok": plain(fn())}
    except Exception as exc:                                     # noqa: BLE001 - everything is data here
        return {"error": [type(exc).__name__, str(exc)]}


class Watch:
    """ Remembers a description (values and identities of every list) to check it later. """
    KEYS = ("rewards", "players", "transition_list", "final_states")

    def __init__(self, game):
        self.game = game
        self.snapshot = copy.deepcopy({k: game[k] for k in self.KEYS})
        self.outer = {k: game[k] for k in self.KEYS}
        self.rows = list(game["transition_list"])
        self.entries = [list(row) for row in game["transition_list"]]

    def intact(self):
        game = self.game
        if any(game[k] is not self.outer[k] for k in self.KEYS):
            return False
        if {k: game[k] for k in self.KEYS} != self.snapshot:
            return False
        if len(game["transition_list"]) != len(self.rows):
            return False
        for row, old_row, old_entries in zip(game["transition_list"], self.rows, self.entries):
            if row is not old_row or len(row) != len(old_entries):
                return False
            if any(a is not b for a, b in zip(row, old_entries)):
                return False
            if any(type(a) is not tuple for a in row):
                return False
        return True


class SolveTimeout(BaseException):
    pass


def _on_alarm(signum, frame):
    raise SolveTimeout()


def screen(tad, game):
    """
        Some games make the total-reward iteration run forever (a Player 1 cycle with rewards
        in the unpruned mode, the robot boards when solved unpruned, oscillating ties): that
        is the repository's behaviour at HEAD and not what C10 is about. Convergent solves of
        these small games take milliseconds, so a 4 s alarm separates the two kinds cleanly.
        Returns {mode: "ok" | "ValueError" | other exception name | "timeout"}.
    """
    status = {}
    for mode in (True, False):
        desc = copy.deepcopy({k: game[k] for k in Watch.KEYS})
        signal.alarm(4)
        try:
            tad.StochasticGame(prune_states=mode, **desc).solve()
            status[mode] = "ok"
        except SolveTimeout:
            status[mode] = "timeout"
        except Exception as exc:                                 # noqa: BLE001
            status[mode] = type(exc).__name__
        finally:
            signal.alarm(0)
    return status


def rng_free_default_check(obj, before):
    """ After an overridden solve, a plain solve() must still use the constructor's mode. """
    plain_again = attempt(obj.solve)
    fresh = attempt(type(obj)(obj.rewards, obj.players, obj.transition_list, obj.final_states,
                              prune_states=before).solve)
    return plain_again == fresh


def run_history(tad, game, rng, has_override, status):
    watch = Watch(game)
    keep = {}
    steps = []
    allowed = [mode for mode in (True, False) if status[mode] != "timeout"]
    for _ in range(rng.randint(3, 6)):
        mode = rng.random() < 0.5
        if not allowed:
            break
        if mode not in allowed:
            mode = not mode
        via = rng.choice(["kept", "kept", "fresh", "fresh_copy", "override", "override"])
        if via == "kept":
            if mode not in keep:
                keep[mode] = tad.StochasticGame(game["rewards"], game["players"], game["transition_list"],
                                                game["final_states"], prune_states=mode)
            result = attempt(keep[mode].solve)
        elif via == "fresh":
            result = attempt(tad.StochasticGame(prune_states=mode, **{k: game[k] for k in Watch.KEYS}).solve)
        elif via == "fresh_copy":
            desc = copy.deepcopy({k: game[k] for k in Watch.KEYS})
            result = attempt(tad.StochasticGame(prune_states=mode, **desc).solve)
        else:
            # one long-lived object solved in both modes. Trees whose solve() takes a per-call
            # prune_states use it; the others get the same effect from the attribute, so that
            # the random stream and the expected results are the same on both sides.
            if "any" not in keep:
                keep["any"] = tad.StochasticGame(game["rewards"], game["players"], game["transition_list"],
                                                 game["final_states"], prune_states=rng.choice(allowed))
            obj = keep["any"]
            before = obj.prune_states
            if has_override:
                result = attempt(lambda: obj.solve(prune_states=mode))
                if obj.prune_states is not before:
                    result = {"error": ["OverrideLeaked", ""]}
                elif rng_free_default_check(obj, before) is False:
                    result = {"error": ["DefaultChanged", ""]}
            else:
                obj.prune_states = mode
                result = attempt(obj.solve)
                obj.prune_states = before
        steps.append({"mode": mode, "result": result, "intact": watch.intact()})
    return steps


def node_level(tad, rng):
    """ The anchored functions called directly on caller-owned lists. """
    out = []
    for _ in range(300):
        n = rng.randint(2, 6)
        m = rng.randint(1, 4)
        weights = [rng.choice([1, 2, 3]) for _ in range(m)]
        caller_list = [(w / sum(weights), rng.randrange(n)) for w in weights]
        caller_copy = list(caller_list)
        node = tad.ProbabilisticNode(player="Probabilistic", idx=0, reward=1, next_states=caller_list,
                                     num_states=n, is_final_node=False)
        others = []
        for j in range(n):
            o = tad.ProbabilisticNode(player="Probabilistic", idx=j, reward=0, next_states=[(1, j)],
                                      num_states=n, is_final_node=False)
            o.reach_probability = rng.choice([0, 0, 0.5, 1])
            others.append(o)
        rec = {"aliased": node.next_states is caller_list, "initial": plain(node.next_states)}
        op = rng.choice(["prune", "remove", "remove_plain", "remove_missing"])
        if op == "prune":
            rec["op"] = attempt(lambda: node.prune_paths(others))
        elif op == "remove":
            rec["op"] = attempt(lambda: node.remove_path(node.next_states[rng.randrange(m)]))
        elif op == "remove_plain":
            rec["op"] = attempt(lambda: node.remove_path(tuple(caller_copy[rng.randrange(m)])))
        else:
            rec["op"] = attempt(lambda: node.remove_path((0.123, 0)))
        rec["after"] = plain(node.next_states)
        rec["all_two_tuples"] = all(isinstance(t, tuple) and len(t) == 2 for t in node.next_states)
        rec["caller_intact"] = caller_list == caller_copy and all(a is b for a, b in zip(caller_list, caller_copy))
        rec["vi"] = attempt(lambda: [node.value_iteration_reach(others), node.value_iteration_rewards(others)])
        out.append(rec)

        acts = ["a", "b", "c", "d"][:rng.randint(1, 4)]
        caller_list = [(a, rng.randrange(n)) for a in acts]
        caller_copy = list(caller_list)
        p1 = tad.PlayerOne(player="Player 1", idx=0, reward=2, next_states=caller_list, num_states=n)
        rec = {"aliased": p1.next_states is caller_list}
        op = rng.choice(["prune", "prune_reach", "remove", "remove_missing"])
        if op == "prune":
            rec["op"] = attempt(lambda: p1.prune_paths(others))
        elif op == "prune_reach":
            rec["op"] = attempt(lambda: p1.prune_paths_reachability(rng.sample(["a", "b", "c", "d"], rng.randint(0, 3))))
        elif op == "remove":
            rec["op"] = attempt(lambda: p1.remove_path(caller_copy[rng.randrange(len(acts))]))
        else:
            rec["op"] = attempt(lambda: p1.remove_path(("zz", 0)))
        rec["after"] = plain(p1.next_states)
        rec["caller_intact"] = caller_list == caller_copy and all(a is b for a, b in zip(caller_list, caller_copy))
        rec["strategies"] = attempt(lambda: [p1.get_best_strategies_reachability(others, 6),
                                             p1.get_best_strategies_total_rewards(others, 6),
                                             p1.value_iteration_reach(others)])
        out.append(rec)
    return out


def strip_times(results):
    return {name: {k: v for k, v in res.items() if k != "total_time"} for name, res in results.items()}


def driver_level(cr, games, rng, statuses):
    out = []
    # run_games solves pruned first and skips the unpruned solve when the pruned one failed
    names = sorted(name for name in games
                   if statuses[name][True] == "ValueError"
                   or (statuses[name][True] == "ok" and statuses[name][False] in ("ok", "ValueError")))
    rng.shuffle(names)
    batches = [names[i:i + 25] for i in range(0, len(names), 25)]
    for b, batch in enumerate(batches):
        games_dict = {name: games[name] for name in batch}
        watches = {name: Watch(games[name]) for name in batch}
        first = attempt(lambda: strip_times(cr.run_games(games_dict)))
        second = attempt(lambda: strip_times(cr.run_games(games_dict)))
        rec = {"first": first, "second": second,
               "intact": all(w.intact() for w in watches.values()),
               "keys": {name: sorted(games[name]) for name in batch},
               "flag": {name: plain(games[name].get("prune_states", "absent")) for name in batch}}
        if b < 6:
            results = cr.run_games(games_dict)
            os.makedirs("outputs", exist_ok=True)
            cr.save_results_to_file(results, "some/dir/batch_%d.py" % b)
            with open("outputs/batch_%d.txt" % b) as fh:
                rec["report"] = [line for line in fh.read().split("\n") if not line.startswith("Total time")]
        out.append(rec)
        for name in batch:
            games[name].pop("prune_states", None)
    return out


def worker(root, out_path):
    sys.path.insert(0, root)
    import tad
    import conditionalrewards as cr
    assert os.path.dirname(os.path.abspath(tad.__file__)) == os.path.abspath(root), tad.__file__
    assert os.path.dirname(os.path.abspath(cr.__file__)) == os.path.abspath(root), cr.__file__
    has_override = "prune_states" in inspect.signature(tad.StochasticGame.solve).parameters
    games = all_games(root)
    rng = random.Random(77)
    signal.signal(signal.SIGALRM, _on_alarm)
    statuses = {name: screen(tad, games[name]) for name in sorted(games)}
    dump = {"histories": {}, "has_override": has_override,
            "screen": {name: {str(m): st for m, st in status.items()} for name, status in statuses.items()}}
    for name in sorted(games):
        dump["histories"][name] = run_history(tad, games[name], rng, has_override, statuses[name])
    dump["nodes"] = node_level(tad, random.Random(5))
    dump["driver"] = driver_level(cr, games, random.Random(9), statuses)
    with open(out_path, "w") as fh:
        json.dump(dump, fh)


# --------------------------------------------------------------------------- parent
def first_difference(a, b, path="$"):
    if type(a) is not type(b):
        return "%s: %r vs %r" % (path, a, b)
    if isinstance(a, dict):
        for k in sorted(set(a) | set(b)):
            if k not in a or k not in b:
                return "%s.%s: only on one side" % (path, k)
            d = first_difference(a[k], b[k], "%s.%s" % (path, k))
            if d:
                return d
        return None
    if isinstance(a, list):
        if len(a) != len(b):
            return "%s: lengths %d vs %d" % (path, len(a), len(b))
        for i, (x, y) in enumerate(zip(a, b)):
            d = first_difference(x, y, "%s[%d]" % (path, i))
            if d:
                return d
        return None
    return None if a == b else "%s: %r vs %r" % (path, a, b)


def run_worker(root, workdir):
    os.makedirs(workdir, exist_ok=True)
    out_path = os.path.join(workdir, "dump.json")
    env = dict(os.environ, PYTHONPATH=os.path.abspath(root), PYTHONDONTWRITEBYTECODE="1", PYTHONHASHSEED="0")
    proc = subprocess.run([sys.executable, os.path.abspath(__file__), "--worker", os.path.abspath(root), out_path],
                          cwd=workdir, env=env, capture_output=True, text=True, timeout=3000)
    if proc.returncode != 0:
        print(proc.stdout[-3000:])
        print(proc.stderr[-3000:])
        raise SystemExit("FAIL (worker for %s crashed)" % root)
    with open(out_path) as fh:
        return json.load(fh)


def main():
    patched_root, clean_root = sys.argv[1], sys.argv[2]
    problems = []
    with tempfile.TemporaryDirectory() as tmp:
        patched = run_worker(patched_root, os.path.join(tmp, "patched"))
        clean = run_worker(clean_root, os.path.join(tmp, "clean"))

    # 1. the property itself, on the patched tree (and the clean one, as a sanity check of the harness)
    for label, dump in (("patched", patched), ("clean", clean)):
        n_solves = n_errors = 0
        for name, steps in dump["histories"].items():
            seen = {}
            for i, step in enumerate(steps):
                n_solves += 1
                n_errors += "error" in step["result"]
                if not step["intact"]:
                    problems.append("%s: description of %s changed by solve #%d" % (label, name, i))
                key = str(step["mode"])
                if key in seen and seen[key] != step["result"]:
                    problems.append("%s: %s mode %s solve #%d differs from an earlier one" % (label, name, key, i))
                seen.setdefault(key, step["result"])
                # ZeroDivisionError: HEAD's redistribution when only zero-probability edges survive
                if "error" in step["result"] and step["result"]["error"][0] not in ("ValueError", "ZeroDivisionError"):
                    problems.append("%s: %s unexpected %s" % (label, name, step["result"]["error"]))
        for i, rec in enumerate(dump["nodes"]):
            if rec["aliased"] or not rec["caller_intact"]:
                problems.append("%s: node-level record %d touches the caller's list" % (label, i))
        for i, rec in enumerate(dump["driver"]):
            if not rec["intact"]:
                problems.append("%s: run_games batch %d changed a description" % (label, i))
            if rec["first"] != rec["second"]:
                problems.append("%s: run_games batch %d not repeatable" % (label, i))
        n_timeouts = sum(st == "timeout" for status in dump["screen"].values() for st in status.values())
        print("%s: %d solves in %d histories (%d ended in an exception; %d game/mode pairs left out as "
              "non-terminating), %d node records, %d driver batches"
              % (label, n_solves, len(dump["histories"]), n_errors, n_timeouts, len(dump["nodes"]),
                 len(dump["driver"])))

    # 2. patched vs clean. Steps through a new per-call API exist only in a patched tree: they
    #    take the equivalent old route in the clean tree (see run_history), so the dumps line up.
    print("per-call prune_states in solve(): patched %s, clean %s" % (patched["has_override"], clean["has_override"]))
    for section in ("screen", "histories", "nodes", "driver"):
        diff = first_difference(patched[section], clean[section], "$." + section)
        if diff:
            problems.append("patched vs clean: " + diff)

    if problems:
        for p in problems[:40]:
            print("  -", p)
        print("FAIL (%d problems)" % len(problems))
        return 1
    print("PASS")
    return 0


if __name__ == "__main__":
    if len(sys.argv) == 4 and sys.argv[1] == "--worker":
        worker(sys.argv[2], sys.argv[3])
    elif len(sys.argv) == 3:
        sys.exit(main())
    else:
        sys.exit(__doc__)
