#!/usr/bin/env python
"""Differential test for property C02 (reported expected rewards = values of the
conditioned game).

usage: python equiv.py <clean_repo_dir> <patched_repo_dir>

Both trees are loaded in their own subprocess (module names collide).  Each
worker runs the SAME deterministic set of cases and writes one line per case
(`case id <TAB> repr of the outcome`).  The driver compares the two transcripts
line by line, prints `SAME` and exits 0 when nothing differs, prints the first
difference and exits 1 otherwise.

Case families (all seeded, identical in both workers):
  A  random *stopping* games of all three state kinds, with cycles through
     probabilistic states, parallel edges, duplicate action names, several
     finals and sinks, zero-probability successors at any place, int and float
     rewards, any numbering, both pruning modes; outcome = solve() tuple.
     A part of them runs with the root logger at DEBUG / 5 / INFO and the
     complete log stream (level + message of every record) is hashed.
  B  "wild" games (finals not absorbing, rewards on cycles, probabilities that
     do not sum to one ...).  They need not converge: a logging handler counts
     the "iteration N" records and aborts the solve after a fixed number of
     sweeps (deterministic guard, no wall clock); the log hash up to the abort
     is part of the outcome, so the partial runs are compared as well.
  C  malformed inputs: exception type and message.
  D  node level: value_iteration_rewards / reach / strategies / prune_paths on
     random nodes whose estimates are arbitrary (also nan, inf, negative).
  E  solver level: prune_reachability / prune_paths / prune_states /
     prune_stochastich_game / value_iteration_total_rewards on random state
     lists with arbitrary reachability values, and other thresholds.
  H  prune_states / prune_stochastich_game on larger sparse state lists (long
     unreachable chains, unreachable cycles, self loops, parallel edges).
  I  root logger without any handler (logging.debug() configures it itself): stderr
     text and handlers left behind, at WARNING / DEBUG / 5 / INFO / NOTSET.
  F  the repository's example inputs through run_games() and
     save_results_to_file() (report bytes; time.time frozen).
  G  boards of the generator (random seeds, small sizes): generated file bytes,
     run_games() per game under the sweep guard with log hash.
"""
import copy
import hashlib
import logging
import os
import random
import signal
import subprocess
import sys
import tempfile

P1, P2, PR = "Player 1", "Player 2", "Probabilistic"


# --------------------------------------------------------------------------- #
# guard: counts sweeps through the logging system, hashes the log stream
# --------------------------------------------------------------------------- #
class TooManySweeps(BaseException):
    pass


class WallClock(BaseException):
    pass


class Guard(logging.Handler):
    def __init__(self):
        super().__init__(level=0)
        self.reset(None)

    def reset(self, cap):
        self.cap = cap
        self.sweeps = 0
        self.records = 0
        self.digest = hashlib.md5()

    def emit(self, record):
        msg = record.getMessage()
        self.records += 1
        self.digest.update(("%s|%s\n" % (record.levelname, msg)).encode())
        if msg.startswith("iteration "):
            self.sweeps += 1
            if self.cap is not None and self.sweeps > self.cap:
                raise TooManySweeps()

    def summary(self):
        return "log[%d,%s]" % (self.records, self.digest.hexdigest())


GUARD = Guard()


class SweepFilter(logging.Filter):
    """Logger-level sweep guard for the runs that must not have a root handler."""

    def __init__(self, cap):
        super().__init__()
        self.cap = cap
        self.sweeps = 0

    def filter(self, record):
        if record.getMessage().startswith("iteration "):
            self.sweeps += 1
            if self.sweeps > self.cap:
                raise TooManySweeps()
        return True


def set_logging(level, cap):
    root = logging.getLogger()
    root.handlers[:] = [GUARD]
    root.setLevel(level)
    GUARD.reset(cap)


def _alarm(signum, frame):
    raise WallClock()


def guarded(fn, level=logging.WARNING, cap=None, wall=20):
    """Runs fn(); returns a string describing the outcome."""
    set_logging(level, cap)
    signal.signal(signal.SIGALRM, _alarm)
    signal.alarm(wall)
    try:
        try:
            out = "OK " + repr(fn())
        except TooManySweeps:
            out = "SWEEPCAP"
        except WallClock:
            out = "WALLCLOCK"
        except Exception as exc:  # noqa
            out = "EXC %s: %s" % (type(exc).__name__, exc)
    finally:
        signal.alarm(0)
    if level <= logging.INFO:
        out += " " + GUARD.summary()
    return out


# --------------------------------------------------------------------------- #
# game generators
# --------------------------------------------------------------------------- #
ACTIONS = ["a", "b", "c", "d", "e", "f"]


def rnd_probs(rng, k):
    style = rng.randrange(4)
    if style == 0:
        w = [rng.random() + 0.05 for _ in range(k)]
    elif style == 1:
        w = [rng.choice([1, 1, 2, 3]) for _ in range(k)]
    elif style == 2:
        w = [rng.choice([0.5, 0.25, 0.125, 1.0]) for _ in range(k)]
    else:
        w = [1.0] * k
    s = sum(w)
    return [x / s for x in w]


def absorbing_transitions(rng, kind, idx):
    if kind == PR:
        return rng.choice([[(1, idx)], [(1.0, idx)], [(0.5, idx), (0.5, idx)],
                           [(0, idx), (1, idx)], [(1, idx), (0.0, idx)]])
    return rng.choice([[("stay", idx)], [("stay", idx), ("again", idx)],
                       [("stay", idx), ("stay", idx)]])


def gen_stopping_game(rng):
    n_core = rng.randint(1, 9)
    n_final = rng.randint(1, 3)
    n_sink = rng.randint(0, 2)
    n = n_core + n_final + n_sink
    names = list(range(n))
    if rng.random() < 0.8:
        rng.shuffle(names)          # any numbering: names[k] = index of logical state k
    core = names[:n_core]
    finals = names[n_core:n_core + n_final]
    sinks = names[n_core + n_final:]
    absorbing = finals + sinks
    kinds = {}
    for s in core:
        kinds[s] = rng.choice([P1, P2, PR, PR])
    if all(kinds[s] != PR for s in core) and rng.random() < 0.5:
        kinds[core[0]] = PR
    for s in absorbing:
        kinds[s] = rng.choice([P1, P2, PR])
    rank = {s: r for r, s in enumerate(core)}
    prob_core = [s for s in core if kinds[s] == PR]
    trans = {}
    rewards = {}
    reward_style = rng.randrange(4)
    for s in core:
        if reward_style == 0:
            rewards[s] = rng.randint(0, 5)
        elif reward_style == 1:
            rewards[s] = rng.choice([0, 0, 1, 2.5, 0.1, 7])
        elif reward_style == 2:
            rewards[s] = round(rng.random() * 4, 3)
        else:
            rewards[s] = 0 if kinds[s] != PR else rng.randint(0, 3)
        if kinds[s] == PR:
            k = rng.randint(1, 5)
            succ = [rng.choice(absorbing)] + [rng.choice(names) for _ in range(k - 1)]
            if finals and rng.random() < 0.5:
                succ.append(rng.choice(finals))
            rng.shuffle(succ)
            probs = rnd_probs(rng, len(succ))
            # the leak into an absorbing state must keep a positive probability
            t = list(zip(probs, succ))
            for _ in range(rng.choice([0, 0, 1, 1, 2, 3])):
                t.insert(rng.randint(0, len(t)), (rng.choice([0, 0.0]), rng.choice(names)))
            trans[s] = t
        else:
            allowed = prob_core + absorbing + [x for x in core
                                               if kinds[x] != PR and rank[x] > rank[s]]
            k = rng.randint(1, 4)
            succ = [rng.choice(allowed) for _ in range(k)]
            if rng.random() < 0.15:
                acts = [rng.choice(ACTIONS[:2]) for _ in range(k)]   # duplicate action names
            else:
                acts = rng.sample(ACTIONS, k)
            trans[s] = list(zip(acts, succ))
    for s in absorbing:
        rewards[s] = 0 if rng.random() < 0.9 else 0.0
        trans[s] = absorbing_transitions(rng, kinds[s], s)
    finals_list = list(finals)
    rng.shuffle(finals_list)
    if rng.random() < 0.1:
        finals_list.append(finals_list[0])      # repeated final state
    return {
        "rewards": [rewards[i] for i in range(n)],
        "players": [kinds[i] for i in range(n)],
        "transition_list": [trans[i] for i in range(n)],
        "final_states": finals_list,
    }


def gen_wild_game(rng):
    n = rng.randint(1, 10)
    kinds = [rng.choice([P1, P2, PR]) for _ in range(n)]
    trans = []
    for s in range(n):
        k = rng.randint(1, 4)
        succ = [rng.randrange(n) for _ in range(k)]
        if kinds[s] == PR:
            probs = rnd_probs(rng, k)
            if rng.random() < 0.1:
                probs = [rng.random() for _ in range(k)]     # does not sum to one
            t = list(zip(probs, succ))
            for _ in range(rng.choice([0, 0, 0, 1, 2])):
                t.insert(rng.randint(0, len(t)), (0, rng.randrange(n)))
        else:
            if rng.random() < 0.15:
                acts = [rng.choice(ACTIONS[:2]) for _ in range(k)]
            else:
                acts = rng.sample(ACTIONS, k)
            t = list(zip(acts, succ))
        trans.append(t)
    style = rng.randrange(3)
    if style == 0:
        rewards = [rng.choice([0, 0, 0, 1, 2]) for _ in range(n)]
    elif style == 1:
        rewards = [0] * n
        rewards[rng.randrange(n)] = rng.randint(1, 9)
    else:
        rewards = [rng.choice([0, 0.5, 1, 3]) for _ in range(n)]
    finals = rng.sample(range(n), rng.randint(1, min(3, n)))
    if rng.random() < 0.6:
        for f in finals:            # make the finals absorbing and worthless
            rewards[f] = 0
            trans[f] = absorbing_transitions(rng, kinds[f], f)
    return {"rewards": rewards, "players": kinds, "transition_list": trans,
            "final_states": finals}


def solve_case(tad, game, prune):
    g = copy.deepcopy(game)
    sg = tad.StochasticGame(prune_states=prune, **g)
    res = sg.solve()
    untouched = (g == game)
    return res, untouched, sg.count_transitions()


# --------------------------------------------------------------------------- #
# families
# --------------------------------------------------------------------------- #
def family_A(tad, emit):
    rng = random.Random(20260502)
    levels = [logging.WARNING, logging.WARNING, logging.WARNING, logging.DEBUG, 5, logging.INFO]
    for i in range(1400):
        game = gen_stopping_game(rng)
        level = levels[i % len(levels)]
        for prune in (True, False):
            cap = 20000 if level <= logging.DEBUG else None
            emit("A%04d/%s" % (i, prune),
                 guarded(lambda: solve_case(tad, game, prune), level=level, cap=cap, wall=4))


def family_B(tad, emit):
    rng = random.Random(777002)
    for i in range(500):
        game = gen_wild_game(rng)
        for prune in (True, False):
            emit("B%04d/%s" % (i, prune),
                 guarded(lambda: solve_case(tad, game, prune), level=logging.DEBUG, cap=150))


def family_C(tad, emit):
    nan, inf = float("nan"), float("inf")
    base = {
        "rewards": [1, 2, 0, 0],
        "players": [P1, PR, P2, PR],
        "transition_list": [[("a", 1), ("b", 2)], [(0.5, 0), (0.5, 3)], [("x", 2)], [(1, 3)]],
        "final_states": [3],
    }

    def variant(**kw):
        g = copy.deepcopy(base)
        g.update(kw)
        return g

    def with_transitions(idx, value):
        g = copy.deepcopy(base)
        g["transition_list"][idx] = value
        return g

    cases = [
        base,
        variant(rewards=[1, 2, 0]),
        variant(rewards=[1, 2, 0, 0, 0]),
        variant(rewards=[]),
        variant(rewards=[1, -2, 0, 0]),
        variant(rewards=[1, -0.0, 0, 0]),
        variant(rewards=[-0.0, -0.0, -0.0, -0.0]),
        variant(rewards=[1, nan, 0, 0]),
        variant(rewards=[nan, 1, 0, 0]),
        variant(rewards=[1, inf, 0, 0]),
        variant(rewards=[inf, 0, 0, 0]),
        variant(rewards=[1, None, 0, 0]),
        variant(rewards=[1, "2", 0, 0]),
        variant(rewards=[True, False, 0, 0]),
        variant(rewards=(1, 2, 0, 0)),
        variant(transition_list=base["transition_list"][:3]),
        variant(transition_list=base["transition_list"] + [[(1, 0)]]),
        variant(transition_list=[]),
        variant(final_states=[]),
        variant(final_states=[4]),
        variant(final_states=[-1]),
        variant(final_states=[3, 7]),
        variant(final_states=[-1, 7]),
        variant(final_states=[3, 3]),
        variant(final_states=[2]),
        variant(final_states=[0]),
        variant(final_states=[0, 1, 2, 3]),
        variant(final_states=["3"]),
        variant(final_states=[3.0]),
        variant(final_states=(3,)),
        variant(final_states=None),
        variant(players=[P1, PR, "Player 3", PR]),
        variant(players=[P1, PR, None, PR]),
        variant(players=[P1, PR, ["x"], PR]),
        variant(players=[P1, PR, P2]),
        variant(players=[P1, PR, P2, PR, PR]),
        variant(players=[]),
        variant(players=["player 1", PR, P2, PR]),
        variant(players=[PR, PR, PR, PR]),
        variant(players=[P2, PR, P1, PR]),
        with_transitions(0, []),
        with_transitions(3, []),
        with_transitions(0, None),
        with_transitions(0, (("a", 1),)),
        with_transitions(0, "ab"),
        with_transitions(0, [["a", 1]]),
        with_transitions(0, [("a", 1, 2)]),
        with_transitions(0, [("a",)]),
        with_transitions(0, [()]),
        with_transitions(0, [(1, 1)]),
        with_transitions(0, [(None, 1)]),
        with_transitions(0, [("a", 1.0)]),
        with_transitions(0, [("a", "1")]),
        with_transitions(0, [("a", None)]),
        with_transitions(0, [("a", 4)]),
        with_transitions(0, [("a", -1)]),
        with_transitions(0, [("a", True)]),
        with_transitions(0, [("a", 1), ("a", 2)]),
        with_transitions(0, [("a", 2), ("b", 2)]),
        with_transitions(0, [("a", 2)]),
        with_transitions(1, [("a", 0)]),
        with_transitions(1, [(None, 0)]),
        with_transitions(1, [(0.5, 0), (0.5, 4)]),
        with_transitions(1, [(0.5, 0), (0.5, -1)]),
        with_transitions(1, [(0.5, 0), (0.5, 3.0)]),
        with_transitions(1, [(True, 3)]),
        with_transitions(1, [(0, 0), (0, 3)]),
        with_transitions(1, [(0, 3)]),
        with_transitions(1, [(1, 2)]),
        with_transitions(1, [(0.5, 2), (0.5, 2)]),
        with_transitions(1, [(0.3, 0), (0.3, 3)]),
        with_transitions(1, [(nan, 0), (0.5, 3)]),
        with_transitions(1, [(inf, 0), (0.5, 3)]),
        with_transitions(1, [(-0.5, 0), (1.5, 3)]),
        with_transitions(1, [(0.5, 1), (0.5, 3)]),
        with_transitions(1, [(1, 1)]),
        with_transitions(2, [("x", 2), ("y", 3)]),
        with_transitions(2, [("x", 3)]),
        with_transitions(2, [(0.5, 3)]),
        with_transitions(3, [(1, 0)]),
        with_transitions(3, [("a", 3)]),
        {"rewards": [], "players": [], "transition_list": [], "final_states": []},
        {"rewards": [], "players": [], "transition_list": [], "final_states": [0]},
        {"rewards": [0], "players": [PR], "transition_list": [[(1, 0)]], "final_states": [0]},
        {"rewards": [3], "players": [P1], "transition_list": [[("a", 0)]], "final_states": [0]},
        {"rewards": [0], "players": [P2], "transition_list": [[("a", 0)]], "final_states": [0]},
        {"rewards": [0], "players": [P2], "transition_list": [[("a", 0)]], "final_states": []},
        {"rewards": [0, 0], "players": [P1, P2], "transition_list": [[("a", 0)], [("a", 1)]],
         "final_states": [1]},
        {"rewards": [0, 0], "players": [PR, P2], "transition_list": [[(1, 0)], [("a", 1)]],
         "final_states": [1]},
    ]
    rng = random.Random(99)
    for i in range(250):                     # random single-point corruptions
        g = gen_stopping_game(rng)
        n = len(g["players"])
        what = rng.randrange(9)
        s = rng.randrange(n)
        if what == 0:
            g["rewards"][s] = rng.choice([-1, -0.5, nan, inf, None, "1"])
        elif what == 1:
            g["players"][s] = rng.choice(["P1", None, 1, "probabilistic"])
        elif what == 2:
            g["transition_list"][s] = rng.choice([[], None, (), [()], [("a",)], "x"])
        elif what == 3:
            t = g["transition_list"][s]
            j = rng.randrange(len(t))
            t[j] = (t[j][0], rng.choice([n, -1, 1.0, None, "0", n + 3]))
        elif what == 4:
            t = g["transition_list"][s]
            j = rng.randrange(len(t))
            t[j] = (rng.choice([None, 1, "a", 0.5, b"a"]), t[j][1])
        elif what == 5:
            g["final_states"] = rng.choice([[], [n], [-1], [0, n], None, [0.0]])
        elif what == 6:
            g["rewards"] = g["rewards"][:-1]
        elif what == 7:
            g["transition_list"] = g["transition_list"] + [[(1, 0)]]
        else:
            g["final_states"] = [x for x in range(n) if g["players"][x] == PR][:1] or [0]
        cases.append(g)
    for i, game in enumerate(cases):
        for prune in (True, False):
            emit("C%04d/%s" % (i, prune),
                 guarded(lambda: solve_case(tad, game, prune), level=logging.DEBUG, cap=300))


SPECIAL = [0, 0.0, -0.0, 1, 2, 0.5, 1e-7, 4e-7, 5e-7, 6e-7, 0.9999995, 0.9999994, 1.0,
           3.25, 1e308, float("inf"), float("nan"), -1, -2.5]


def rnd_value(rng, weird):
    r = rng.random()
    if r < weird:
        return rng.choice(SPECIAL)
    if r < 0.6:
        return rng.choice([0, 0.25, 0.5, 1, 2, 3])
    return rng.random() * rng.choice([1, 1, 10])


def rnd_state_list(tad, rng, weird, allow_empty=True):
    n = rng.randint(1, 9)
    states = []
    for idx in range(n):
        kind = rng.choice([P1, P2, PR])
        k = rng.randint(1, 4)
        succ = [rng.randrange(n) for _ in range(k)]
        if kind == PR:
            t = list(zip(rnd_probs(rng, k), succ))
            for _ in range(rng.choice([0, 0, 1, 2])):
                t.insert(rng.randint(0, len(t)), (0, rng.randrange(n)))
        elif rng.random() < 0.2:
            t = list(zip([rng.choice(ACTIONS[:2]) for _ in range(k)], succ))
        else:
            t = list(zip(rng.sample(ACTIONS, k), succ))
        cls = {P1: tad.PlayerOne, P2: tad.PlayerTwo, PR: tad.ProbabilisticNode}[kind]
        node = cls(player=kind, idx=idx, next_states=t, reward=rnd_value(rng, weird / 2),
                   num_states=n, is_final_node=(rng.random() < 0.2))
        states.append(node)
    for node in states:
        node.reach_probability = rng.choice([0, 0, 0.0, 1, 1.0]) if rng.random() < 0.5 \
            else rnd_value(rng, weird)
        node.expected_rewards = rnd_value(rng, weird)
        node.expected_rewards_min_reach = rnd_value(rng, weird)
        node.expected_reach_min_rewards = rnd_value(rng, weird)
        if allow_empty and rng.random() < 0.12:
            node.next_states = []
    return states


def dump(states):
    return [(type(s).__name__, s.idx, s.reward, s.next_states, s.is_final_node,
             s.reach_probability, s.expected_rewards, s.expected_rewards_min_reach,
             s.expected_reach_min_rewards) for s in states]


def family_D(tad, emit):
    rng = random.Random(4242)
    for i in range(1200):
        weird = 0.0 if i % 3 else 0.3
        states = rnd_state_list(tad, rng, weird)

        def run():
            out = []
            for node in states:
                row = []
                for meth, args in (("value_iteration_rewards", (states,)),
                                   ("value_iteration_reach", (states,)),
                                   ("get_best_strategies_reachability", (states, 6)),
                                   ("get_worst_strategies_reachability", (states, 6)),
                                   ("get_best_strategies_total_rewards", (states, 6)),
                                   ("get_worst_strategies_total_rewards", (states, 6))):
                    if not hasattr(node, meth):
                        continue
                    try:
                        row.append(repr(getattr(node, meth)(*args)))
                    except Exception as exc:  # noqa
                        row.append("EXC %s: %s" % (type(exc).__name__, exc))
                out.append(row)
            out.append(dump(states))
            for node in states:
                if hasattr(node, "prune_paths"):
                    try:
                        node.prune_paths(states)
                    except Exception as exc:  # noqa
                        out.append("EXC %s: %s" % (type(exc).__name__, exc))
            out.append(dump(states))
            return out
        emit("D%04d" % i, guarded(run, level=logging.DEBUG, cap=50))


def family_E(tad, emit):
    rng = random.Random(31337)
    for i in range(1500):
        weird = 0.0 if i % 4 else 0.25
        states = rnd_state_list(tad, rng, weird)
        mode = i % 6
        thr = [1e-6, 1e-6, 1e-3, 1e-9, 1, 0.5, 2, 1e-6][rng.randrange(8)]

        def run():
            solver = tad.Solver(states, thr) if i % 2 else tad.Solver(threshold=thr, state_list=states)
            out = [solver.threshold, solver.floor]
            if mode == 0:
                out.append(solver.prune_states())
            elif mode == 1:
                out.append(solver.prune_paths())
                out.append(dump(states))
                out.append(solver.prune_states())
            elif mode == 2:
                out.append(solver.prune_stochastich_game())
            elif mode == 3:
                strategies = solver._get_reachability_strategies()
                out.append(strategies)
                out.append(solver.prune_reachability(strategies))
                out.append(dump(states))
                out.append(solver.prune_stochastich_game())
            elif mode == 4:
                out.append(solver.value_iteration_total_rewards())
                out.append(solver._get_total_rewards_strategies())
            else:
                strategies = solver._get_reachability_strategies()
                solver.prune_reachability(strategies)
                solver.prune_stochastich_game()
                out.append(dump(states))
                out.append(solver.solve_total_rewards())
            out.append(dump(states))
            return out
        level = [logging.DEBUG, logging.DEBUG, 5][i % 3]
        emit("E%04d" % i, guarded(run, level=level, cap=60, wall=10))


def family_H(tad, emit):
    """prune_states / prune_stochastich_game on larger sparse graphs: long chains of
    unreachable states, unreachable cycles, self loops, parallel edges, empty states."""
    rng = random.Random(8086)
    for i in range(700):
        n = rng.randint(2, 40)
        p1_share = rng.choice([0.0, 0.2, 0.5, 0.9])
        states = []
        for idx in range(n):
            kind = P1 if rng.random() < p1_share else rng.choice([P2, PR])
            k = rng.choice([1, 1, 1, 2, 2, 3])
            style = rng.randrange(4)
            if style == 0:
                succ = [min(n - 1, idx + 1)] * k                 # chain, parallel edges
            elif style == 1:
                succ = [idx] + [rng.randrange(n) for _ in range(k - 1)]   # self loop
            elif style == 2:
                succ = [rng.randrange(idx, n) for _ in range(k)]          # forward
            else:
                succ = [rng.randrange(n) for _ in range(k)]
            if kind == PR:
                t = list(zip(rnd_probs(rng, k), succ))
            else:
                t = list(zip(rng.sample(ACTIONS, k), succ))
            cls = {P1: tad.PlayerOne, P2: tad.PlayerTwo, PR: tad.ProbabilisticNode}[kind]
            node = cls(player=kind, idx=idx, next_states=t, reward=rng.randint(0, 3),
                       num_states=n, is_final_node=(idx == n - 1))
            node.reach_probability = rng.choice([0, 0, 1, 0.5, 0.25])
            states.append(node)
        for node in states:
            if rng.random() < 0.15:
                node.next_states = []

        def run():
            solver = tad.Solver(states)
            first = solver.prune_states() if i % 2 else solver.prune_stochastich_game()
            mid = dump(states)
            second = solver.prune_states()          # idempotent second pass
            return first, mid, second, dump(states)
        emit("H%04d" % i, guarded(run, level=logging.DEBUG, cap=10, wall=10))


def family_I(tad, emit):
    """Root logger WITHOUT handlers (library use): logging.debug() then calls
    basicConfig() itself; the text written to stderr and the handlers left behind are
    compared for direct Solver calls and for complete solves at several levels."""
    import io
    rng = random.Random(1812)
    root = logging.getLogger()
    for i in range(60):
        game = gen_stopping_game(rng)
        states_rng = random.Random(i)
        for level in (logging.WARNING, logging.DEBUG, 5, logging.INFO, logging.NOTSET):
            root.handlers[:] = []
            root.setLevel(level)
            sweep_filter = SweepFilter(40)
            root.addFilter(sweep_filter)     # a filter is not a handler: basicConfig still runs
            fake = io.StringIO()
            real, sys.stderr = sys.stderr, fake
            signal.signal(signal.SIGALRM, _alarm)
            signal.alarm(3)
            try:
                try:
                    if i % 3 == 0:
                        states = rnd_state_list(tad, random.Random(i), 0.0)
                        for st in states:
                            st.reward = 0       # nothing to accumulate: the sweeps settle
                        res = tad.Solver(states, 0.5).value_iteration_total_rewards()
                    elif i % 3 == 1:
                        states = rnd_state_list(tad, random.Random(i), 0.0, allow_empty=False)
                        res = tad.Solver(states, 0.5).value_iteration_reachability(
                            list(range(len(states))), False)
                    else:
                        res = solve_case(tad, game, bool(i % 2))
                    out = "OK " + repr(res)
                except WallClock:
                    out = "WALLCLOCK"
                except TooManySweeps:
                    out = "SWEEPCAP"
                except Exception as exc:  # noqa
                    out = "EXC %s: %s" % (type(exc).__name__, exc)
            finally:
                signal.alarm(0)
                sys.stderr = real
                root.removeFilter(sweep_filter)
            text = fake.getvalue()
            handlers = [type(h).__name__ for h in root.handlers]
            emit("I%03d/%s" % (i, level), "%s %r %s %s" % (
                out, handlers, len(text), hashlib.md5(text.encode()).hexdigest()))
    root.handlers[:] = [GUARD]


QUICK_INPUTS = [
    "example_17_08.py", "example_games.py", "paper_games.py", "manual_1_game_a.py",
    "manual_arrow_bottom.py", "robot_1_w1_l2_r6_rb10_lb5_tb10_lt0.py",
    "robot_1_w2_l1_r6_rb10_lb5_tb10_lt0.py", "robot_1_w2_l2_r6_rb10_lb5_tb10_lt0.py",
    "robot_999132423_w3_l3_r6_rb1_lb2_tb10_lt30.py",
    "robot_999132423_w3_l3_r6_rb1_lb2_tb10_lt30_force_down.py",
    "manual_robot_arrow_down_w4_l4_r5_rb10_lb10_tb10_force_down.py",
    "manual_robot_Roborta_1_w4_l4_r5_rb10_lb10_tb10_.py",
    "robot_manual_0_w4_l4_r6_rb10_lb5_tb10_lt30.py",
    "robot_40_w5_l5_r6_rb10_lb10_tb10_lt30_force_down.py",
]


def strip_time(results):
    return [(name, sorted((k, v) for k, v in res.items() if k != "total_time"))
            for name, res in results.items()]


def family_F(tree, cr, emit, workdir):
    import time as _time
    cr.time.time = lambda: 1234.5          # total_time becomes 0.0 in report and results
    try:
        for fname in QUICK_INPUTS:
            path = os.path.join(tree, "inputs", fname)
            holder = {}

            def run():
                games = cr.read_dict_from_file(path)
                results = cr.run_games(games)
                holder["r"] = results
                return strip_time(results)
            emit("F/run/" + fname, guarded(run, level=logging.WARNING, wall=60))
            if "r" in holder:
                def save():
                    cr.save_results_to_file(holder["r"], path)
                    with open(os.path.join(workdir, "outputs", fname.split(".")[0] + ".txt"),
                              "rb") as fh:
                        data = fh.read()
                    return len(data), hashlib.md5(data).hexdigest(), data[:200]
                emit("F/save/" + fname, guarded(save, level=logging.WARNING, wall=60))
    finally:
        cr.time.time = _time.time


def family_G(tree, cr, gen, emit, workdir):
    rng = random.Random(5150)
    boards = []
    for length in (1, 2, 3):
        for width in (1, 2, 3):
            for force_down in (False, True):
                boards.append((rng.randrange(10 ** 6), length, width, force_down))
    for k in range(14):
        boards.append((rng.randrange(10 ** 6), rng.randint(1, 3), rng.randint(1, 3),
                       rng.random() < 0.5))
    for seed, length, width, force_down in boards:
        p_tile, p_robot, p_light, p_loose = (rng.choice([0.1, 0.05, 0.3]), rng.choice([0.1, 0.2]),
                                             rng.choice([0.1, 0.05]), rng.choice([0.3, 0.6, 0.01]))
        tag = "G/%d_l%d_w%d_%s" % (seed, length, width, force_down)
        fpath = os.path.join(workdir, "board_%d_%d_%d_%s.py" % (seed, length, width, force_down))
        try:
            moves, rewards, loose = gen.gen_rnd_board(seed, length, width, p_loose, 6, force_down)
            gen.write_robots(fpath, length, width, moves, rewards, loose, p_tile, p_robot, p_light)
            with open(fpath, "rb") as fh:
                data = fh.read()
            emit(tag + "/file", "%d %s" % (len(data), hashlib.md5(data).hexdigest()))
            games = cr.read_dict_from_file(fpath)
        except Exception as exc:  # noqa
            emit(tag + "/file", "EXC %s: %s" % (type(exc).__name__, exc))
            continue
        for name in games:
            def run():
                return strip_time(cr.run_games({name: games[name]}))
            emit(tag + "/" + name, guarded(run, level=logging.DEBUG, cap=120, wall=60))


# --------------------------------------------------------------------------- #
def worker(tree, out_path):
    tree = os.path.abspath(tree)
    sys.path.insert(0, tree)
    sys.dont_write_bytecode = True
    workdir = tempfile.mkdtemp(prefix="equiv_F02_")
    os.makedirs(os.path.join(workdir, "outputs"))
    os.chdir(workdir)
    import tad
    import conditionalrewards as cr
    import roberta_generator as gen
    assert os.path.dirname(os.path.abspath(tad.__file__)) == tree, tad.__file__
    with open(out_path, "w") as fh:
        def emit(case, text):
            fh.write("%s\t%s\n" % (case, text.replace("\n", "\\n")))
        family_C(tad, emit)
        family_A(tad, emit)
        family_B(tad, emit)
        family_D(tad, emit)
        family_E(tad, emit)
        family_H(tad, emit)
        family_I(tad, emit)
        family_F(tree, cr, emit, workdir)
        family_G(tree, cr, gen, emit, workdir)
    import shutil
    shutil.rmtree(workdir, ignore_errors=True)


def main():
    if len(sys.argv) == 4 and sys.argv[1] == "--worker":
        worker(sys.argv[2], sys.argv[3])
        return 0
    if len(sys.argv) != 3:
        print("usage: python equiv.py <clean_repo_dir> <patched_repo_dir>")
        return 2
    tmp = tempfile.mkdtemp(prefix="equiv_F02_main_")
    outs = [os.path.join(tmp, "clean.txt"), os.path.join(tmp, "patched.txt")]
    env = dict(os.environ, PYTHONDONTWRITEBYTECODE="1", PYTHONHASHSEED="0")
    procs = [subprocess.Popen([sys.executable, os.path.abspath(__file__), "--worker", tree, out],
                              env=env, stdout=subprocess.PIPE, stderr=subprocess.STDOUT)
             for tree, out in zip(sys.argv[1:3], outs)]
    logs = [p.communicate()[0].decode(errors="replace") for p in procs]
    for which, p, log in zip(("clean", "patched"), procs, logs):
        if p.returncode != 0:
            print("DIFFERENT: the %s worker failed (exit %s)\n%s" % (which, p.returncode, log[-3000:]))
            return 1
    with open(outs[0]) as fa, open(outs[1]) as fb:
        la, lb = fa.read().split("\n"), fb.read().split("\n")
    stats = {}
    for n, (a, b) in enumerate(zip(la, lb)):
        if a != b:
            print("DIFFERENT at case line %d" % (n + 1))
            print("  clean  : " + a[:1500])
            print("  patched: " + b[:1500])
            return 1
        if a:
            kind = a.split("\t", 1)[1].split(" ", 1)[0]
            key = (a[0], kind)
            stats[key] = stats.get(key, 0) + 1
    if len(la) != len(lb):
        print("DIFFERENT: number of cases %d vs %d" % (len(la), len(lb)))
        return 1
    import shutil
    shutil.rmtree(tmp, ignore_errors=True)
    print("cases: %d  %s" % (len(la) - 1, " ".join("%s:%s=%d" % (k[0], k[1], v)
                                                 for k, v in sorted(stats.items()))))
    print("SAME")
    return 0


if __name__ == "__main__":
    sys.exit(main())
