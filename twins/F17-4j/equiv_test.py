#!/usr/bin/env python
"""Equivalence test for property C17 (generated file names identify the parameters).

usage: python equiv_test.py <path-to-patched-root> <path-to-clean-root>

Both trees are exercised in separate subprocesses (the "worker" mode of this very file),
each inside its own temporary working directory that holds an empty inputs/ folder.
Every case records: the result / exception (type + message), everything printed, and the
complete set of files that appeared in the working directory (relative path + sha256 of
the bytes).  The two record lists are then compared entry by entry.

Case families (aimed at the quantifier "all accepted parameter sets, in particular every
probability k/100 for k = 1..99"):
  P  prob_to_str called directly (k/100, k/1000, ties x.5 %, random floats, tiny, near 1,
     nan/inf, ints, bools, Fraction, Decimal, wrong types)
  M  roberta_generator.main() through sys.argv: the k/100 sweep for each of the four
     probability options, a few hundred random parameter sets, boundaries (width 1,
     length 1, tiny / near-1 probabilities, force_down on/off, long and short options),
     rejected values one by one and in pairs (order of the checks), argparse errors, --help
  N  main() with parse_args replaced by a prepared Namespace (values argparse cannot
     produce: Fraction/Decimal probabilities, huge ints, truthy non-bool force_down, ...)
  S  stochastic_game_from_roborta_board.create_sg_from_board on random and malformed boards
  D  main() when inputs/ does not exist (the error message carries the file name)
  C  the real command line: python <root>/roberta_generator.py ... (cwd = temp dir)
  A  public function signatures of the clean tree must still exist unchanged
"""
import contextlib
import gc
import hashlib
import io
import json
import os
import random
import shutil
import subprocess
import sys
import tempfile

WORKER_SEED = 20240917


# --------------------------------------------------------------------------- worker side

def _safe_repr(value, limit):
    try:
        return repr(value)[:limit]
    except ValueError:                     # ints beyond the str() digit limit
        return "<unprintable %s>" % type(value).__name__


def _describe_exc(exc):
    return {"exc": type(exc).__name__, "msg": str(exc)}


def _snapshot_and_clear(cwd):
    """All files below cwd (relative path -> [size, sha256]); the files are removed."""
    found = {}
    for dirpath, _dirnames, filenames in os.walk(cwd):
        for name in filenames:
            full = os.path.join(dirpath, name)
            rel = os.path.relpath(full, cwd)
            with open(full, "rb") as handle:
                data = handle.read()
            found[rel] = [len(data), hashlib.sha256(data).hexdigest()]
            os.remove(full)
    return found


def _rng_fingerprint():
    return hashlib.sha256(repr(random.getstate()).encode()).hexdigest()[:16]


def _call(records, label, cwd, func, *args, **kwargs):
    out, err = io.StringIO(), io.StringIO()
    record = {"case": label}
    try:
        with contextlib.redirect_stdout(out), contextlib.redirect_stderr(err):
            result = func(*args, **kwargs)
        record["result"] = repr(result)
    except SystemExit as exc:
        record["result"] = {"exc": "SystemExit", "msg": repr(exc.code)}
    except BaseException as exc:  # noqa: BLE001 - we want everything, type and message
        record["result"] = _describe_exc(exc)
        del exc
        gc.collect()             # frames of the failed call may still hold the open file
    record["stdout"] = out.getvalue()
    record["stderr"] = err.getvalue()
    record["files"] = _snapshot_and_clear(cwd)
    record["rng"] = _rng_fingerprint()
    records.append(record)


def _prob_pool(rng):
    kind = rng.randrange(8)
    if kind == 0:
        return rng.randrange(1, 100) / 100
    if kind == 1:
        return rng.random()
    if kind == 2:
        return rng.choice([1e-9, 1e-6, 0.001, 0.004, 0.0049, 0.005, 0.0051])
    if kind == 3:
        return rng.choice([0.999999, 0.9999, 0.995, 0.9949, 0.9951, 0.99, 1 - 1e-12])
    if kind == 4:
        return (rng.randrange(0, 100) + 0.5) / 100          # ties before rounding
    if kind == 5:
        return rng.randrange(1, 1000) / 1000
    if kind == 6:
        return float("0.%d" % rng.randrange(1, 10 ** 6))
    return rng.choice([0.29, 0.57, 0.58, 0.07, 0.14, 0.28, 0.55, 0.56, 0.1, 0.3])


def _argv(seed=None, width=None, length=None, rb=None, lb=None, tb=None, lt=None,
          max_reward=None, force_down=False, long_names=False, extra=()):
    names = {"seed": ("-s", "--seed"), "width": ("-w", "--width"), "length": ("-l", "--length"),
             "rb": ("-p", "--prob_robot_break"), "lb": ("-q", "--prob_light_break"),
             "tb": ("-r", "--prob_tile_break"), "lt": ("-t", "--prob_loose_tile"),
             "max_reward": ("-m", "--max_reward")}
    values = {"seed": seed, "width": width, "length": length, "rb": rb, "lb": lb, "tb": tb,
              "lt": lt, "max_reward": max_reward}
    argv = ["roberta_generator.py"]
    for key, value in values.items():
        if value is None:
            continue
        option = names[key][1 if long_names else 0]
        text = value if isinstance(value, str) else repr(value)
        if text.startswith("-"):
            argv.append(option + "=" + text)
        else:
            argv.extend([option, text])
    if force_down:
        argv.append("--force_down" if long_names else "-f")
    argv.extend(extra)
    return argv


def _main_cases():
    rng = random.Random(WORKER_SEED)
    cases = []
    # 1. the sweep of the quantifier: every k/100 for each probability option
    for key in ("rb", "lb", "tb", "lt"):
        for k in range(1, 100):
            cases.append(_argv(seed=k % 7, width=2, length=2, **{key: k / 100}))
    # the same value in all four places, as text "0.29" etc.
    for k in range(1, 100):
        text = "0.%02d" % k
        cases.append(_argv(seed=3, width=1 + k % 3, length=1 + k % 2, rb=text, lb=text, tb=text,
                           lt=text, force_down=bool(k % 2)))
    # 2. random parameter sets
    for _ in range(320):
        cases.append(_argv(
            seed=rng.choice([0, 1, 47, rng.randrange(10 ** 6), rng.randrange(10 ** 12)]),
            width=rng.choice([1, 1, 2, 3, 4, 5, 6]), length=rng.choice([1, 1, 2, 3, 4, 5]),
            rb=_prob_pool(rng), lb=_prob_pool(rng), tb=_prob_pool(rng), lt=_prob_pool(rng),
            max_reward=rng.choice([1, 2, 6, 6, 9, 12, 60]),
            force_down=rng.random() < 0.5, long_names=rng.random() < 0.3))
    # 3. defaults and boundaries
    cases.append(_argv())
    cases.append(_argv(force_down=True))
    for width, length in ((1, 1), (1, 2), (2, 1), (1, 7), (7, 1), (12, 9)):
        for force_down in (False, True):
            cases.append(_argv(seed=1, width=width, length=length, force_down=force_down))
    for value in ("1e-9", "1e-300", "5e-324", "0.004", "0.005", "0.00500001", "0.015", "0.025",
                  "0.125", "0.995", "0.9950001", "0.9949999", "0.999", "0.9999999999999999",
                  ".5", "5e-1", "0.285", "0.2850000000000001", "0.28499999999999998", "nan",
                  "NaN", "+0.3", "0.30000000000000004", "0.1e0"):
        for key in ("rb", "lb", "tb", "lt"):
            cases.append(_argv(seed=2, width=2, length=1, **{key: value}))
    for max_reward in (1, 2, 30, 100, 1022, 1023, 1024, 1100, 5000):
        cases.append(_argv(seed=5, max_reward=max_reward, width=2, length=2))
    for seed in (0, 1, 2 ** 31, 2 ** 64, 10 ** 30, "007", "+5"):
        cases.append(_argv(seed=seed, width=1, length=1))
    # 4. rejected values, one at a time ...
    bad = {"seed": [-1, -100], "width": [0, -1], "length": [0, -5],
           "rb": [0, 1, 0.0, 1.0, -0.1, 1.5, "inf", "-inf", "-0.0", "1e400"],
           "lb": [0, 1, 0.0, 1.0, -0.1, 1.5, "inf", "-inf"],
           "tb": [0, 1, 0.0, 1.0, -0.1, 1.5, "inf", "-inf"],
           "lt": [0, 1, 0.0, 1.0, -0.1, 1.5, "inf", "-inf"],
           "max_reward": [0, -1]}
    for key, values in bad.items():
        for value in values:
            cases.append(_argv(**{key: value}))
            cases.append(_argv(long_names=True, force_down=True, **{key: value}))
    # ... and in pairs, to pin the order of the checks
    keys = list(bad)
    for i, first in enumerate(keys):
        for second in keys[i + 1:]:
            cases.append(_argv(**{first: bad[first][0], second: bad[second][0]}))
            cases.append(_argv(**{first: bad[first][-1], second: bad[second][-1]}))
    cases.append(_argv(seed=-1, width=0, length=0, rb=0, lb=0, tb=0, lt=0, max_reward=0))
    # 5. argparse level
    for extra in (["--help"], ["-h"], ["--bogus"], ["positional"], ["-s"], ["-s", "abc"],
                  ["-w", "2.5"], ["-p", "abc"], ["-p", ""], ["-m", "1e3"], ["-f", "1"],
                  ["--prob_robot", "0.29"], ["--prob", "0.29"], ["-s", "1" * 5000],
                  ["-s", "3", "-s", "4"], ["-p", "0.29", "-p", "0.57"], ["-fs", "3"],
                  ["-s3", "-w2", "-l2", "-p.29"], ["--seed=9", "--width=1"]):
        cases.append(["roberta_generator.py"] + list(extra))
    return cases


def _namespace_cases():
    import argparse
    from decimal import Decimal
    from fractions import Fraction

    def ns(**kw):
        base = dict(seed=0, width=3, length=3, max_reward=6, prob_loose_tile=0.3,
                    prob_tile_break=0.1, prob_robot_break=0.1, prob_light_break=0.1,
                    force_down=False)
        base.update(kw)
        return argparse.Namespace(**base)

    cases = []
    for k in (1, 7, 28, 29, 57, 58, 99):
        cases.append(ns(prob_robot_break=Fraction(k, 100), prob_light_break=Fraction(k, 100),
                        prob_tile_break=Fraction(k, 100), prob_loose_tile=Fraction(k, 100)))
        cases.append(ns(prob_robot_break=Decimal(k) / 100, prob_light_break=Decimal(k) / 100,
                        prob_tile_break=Decimal(k) / 100, prob_loose_tile=Decimal(k) / 100))
    cases.append(ns(prob_robot_break=Fraction(1, 200), prob_light_break=Fraction(3, 200),
                    prob_tile_break=Fraction(5, 200), prob_loose_tile=Decimal("0.005")))
    for truthy in (1, 0, "yes", "", None, [], [0], 2, 0.0, "False"):
        cases.append(ns(force_down=truthy, width=2, length=2))
    cases.append(ns(seed=10 ** 5000, width=1, length=1))
    cases.append(ns(seed=10 ** 4299, width=1, length=1))
    cases.append(ns(max_reward=10 ** 400, width=1, length=1))
    cases.append(ns(max_reward=10 ** 5000, width=1, length=1))
    cases.append(ns(seed=True, width=True, length=True, max_reward=True))
    cases.append(ns(seed=1.5, width=2, length=2))
    cases.append(ns(width=2.0, length=2))
    cases.append(ns(length=2.0, width=2))
    cases.append(ns(max_reward=2.5, width=2, length=2))
    cases.append(ns(seed="5"))
    cases.append(ns(width="2"))
    cases.append(ns(seed=None))
    cases.append(ns(prob_robot_break="0.29"))
    cases.append(ns(prob_light_break=None))
    cases.append(ns(prob_tile_break=[0.1]))
    cases.append(ns(prob_loose_tile=float("nan")))
    cases.append(ns(prob_robot_break=float("nan"), prob_light_break=float("nan")))
    cases.append(ns(prob_robot_break=float("nan"), seed=10 ** 5000, width=1, length=1))
    cases.append(ns(prob_robot_break=0.29, prob_light_break="x", prob_tile_break=None))
    cases.append(ns(prob_robot_break=True))
    cases.append(ns(prob_robot_break=0.5 + 0j))
    return cases


def _board_cases():
    rng = random.Random(WORKER_SEED + 1)
    cases = []

    def board(length, width, force_down, float_rewards=False):
        top = 3 if force_down else 2
        moves = [[rng.randint(0, top) for _ in range(width)] for _ in range(length)]
        if force_down:
            moves[rng.randrange(length)][rng.randrange(width)] = 3
        rewards = [[rng.randint(0, 9) for _ in range(width)] for _ in range(length)]
        if float_rewards:
            rewards = [[float(r) + rng.choice([0.0, 0.5]) for r in row] for row in rewards]
        loose = [[rng.randint(0, 1) for _ in range(width)] for _ in range(length)]
        return moves, rewards, loose

    for k in range(1, 100):                      # the sweep, one probability at a time
        for position in range(3):
            probs = [0.1, 0.1, 0.1]
            probs[position] = k / 100
            moves, rewards, loose = board(1 + k % 3, 1 + k % 4, bool(k % 2))
            cases.append((moves, rewards, loose) + tuple(probs))
    for _ in range(250):
        moves, rewards, loose = board(rng.randint(1, 5), rng.randint(1, 5), rng.random() < 0.5,
                                      float_rewards=rng.random() < 0.15)
        cases.append((moves, rewards, loose, _prob_pool(rng), _prob_pool(rng), _prob_pool(rng)))
    from fractions import Fraction
    one = ([[1]], [[4]], [[0]])
    cases.append(one + (Fraction(29, 100), Fraction(57, 100), Fraction(58, 100)))
    cases.append(one + (0.0, 1.0, 1.5))                         # not checked in this entry point
    cases.append(one + (-0.29, 2.0, 1e-9))
    cases.append(one + (float("nan"), 0.1, 0.1))
    cases.append(one + (0.1, float("inf"), 0.1))
    cases.append(one + (0.1, 0.1, "0.1"))
    cases.append(one + (None, 0.1, 0.1))
    cases.append(([[3]], [[4]], [[1]], 0.29, 0.57, 0.58))
    cases.append(([[2, 3]], [[4, 0]], [[1, 0]], 0.29, 0.57, 0.58))
    cases.append(([[True, False]], [[4, 0]], [[1, 0]], 0.29, 0.57, 0.58))
    cases.append(([[0, 1], [2, 1]], [[-4, -1], [-2, -3]], [[1, 0], [0, 0]], 0.07, 0.14, 0.55))
    cases.append(([[0, 1], [2, 1]], [[10 ** 30, 1], [2, 3]], [[1, 0], [0, 0]], 0.07, 0.14, 0.55))
    cases.append(([[0, 1], [2, 1]], [[True, False], [False, False]], [[1, 0], [0, 0]],
                  0.07, 0.14, 0.55))
    cases.append(([[3.0, 1]], [[1, 2]], [[0, 0]], 0.1, 0.1, 0.1))           # float move
    cases.append(([[4, 1]], [[1, 2]], [[0, 0]], 0.1, 0.1, 0.1))             # move out of range
    cases.append(([], [], [], 0.1, 0.1, 0.1))
    cases.append(([[]], [[]], [[]], 0.1, 0.1, 0.1))
    cases.append(([[0]], [], [[0]], 0.1, 0.1, 0.1))
    cases.append(([[0]], [[]], [[0]], 0.1, 0.1, 0.1))
    cases.append(([[0, 1], [2]], [[1, 2], [3]], [[0, 0], [1]], 0.1, 0.1, 0.1))   # ragged
    cases.append(([[0, 1]], [[1, 2], [3, 4]], [[0, 0]], 0.1, 0.1, 0.1))         # shapes differ
    cases.append(([[0, 1]], [[1, "a"]], [[0, 0]], 0.1, 0.1, 0.1))
    cases.append(([[0, "1"]], [[1, 2]], [[0, 0]], 0.1, 0.1, 0.1))
    cases.append((None, [[1]], [[0]], 0.1, 0.1, 0.1))
    cases.append(((( 0, 1),), ((1, 2),), ((0, 1),), 0.29, 0.29, 0.29))          # tuples
    return cases


def _prob_values():
    from decimal import Decimal
    from fractions import Fraction
    rng = random.Random(WORKER_SEED + 2)
    values = [k / 100 for k in range(0, 101)]
    values += [k / 1000 for k in range(0, 1001)]
    values += [(k + 0.5) / 100 for k in range(0, 100)]
    values += [k * 0.01 for k in range(0, 101)]
    values += [float("0.%02d" % k) for k in range(0, 100)]
    values += [rng.random() for _ in range(600)]
    values += [rng.random() * 10 ** rng.randint(-12, 3) for _ in range(200)]
    values += [1e-320, 5e-324, 1e-9, 0.999999999, 1 - 2 ** -53, 2 ** -53, -0.0, -0.004, -0.005,
               -0.29, -1.0, 1.0, 1.005, 2.5, 1e15, 1e16, 1e22, 1e300, 1.7e308, 1.8e306,
               float("nan"), float("inf"), float("-inf")]
    values += [0, 1, -1, 7, True, False, 10 ** 30, 10 ** 5000]
    values += [Fraction(k, 100) for k in (1, 28, 29, 57, 58, 99)] + [Fraction(1, 200),
                                                                     Fraction(3, 200)]
    values += [Decimal("0.29"), Decimal("0.005"), Decimal("0.015"), Decimal("NaN"),
               Decimal("Infinity"), Decimal("1E-400")]
    values += ["0.29", "", b"a", None, [0.29], (0.29,), {}, 0.29 + 0j, object]
    return values


def _signatures(module):
    import inspect
    found = {}
    for name, obj in sorted(vars(module).items()):
        if name.startswith("_") or getattr(obj, "__module__", None) != module.__name__:
            continue
        if inspect.isfunction(obj):
            # names, kinds and defaults; annotations do not matter to any caller
            found[name] = ", ".join(
                "%s:%s%s" % (p.name, p.kind.name, "" if p.default is p.empty
                             else "=" + repr(p.default))
                for p in inspect.signature(obj).parameters.values())
    return found


def worker(root, out_path):
    root = os.path.abspath(root)
    sys.path.insert(0, root)
    sys.dont_write_bytecode = True
    cwd = tempfile.mkdtemp(prefix="c17_worker_")
    records = []
    random.seed(WORKER_SEED)     # the global generator starts from a known state
    try:
        os.chdir(cwd)
        os.mkdir("inputs")
        import argparse
        import roberta_generator as gen
        import stochastic_game_from_roborta_board as manual
        assert os.path.dirname(os.path.abspath(gen.__file__)) == root, gen.__file__
        assert os.path.dirname(os.path.abspath(manual.__file__)) == root, manual.__file__

        records.append({"case": "A signatures", "gen": _signatures(gen),
                        "manual": _signatures(manual),
                        "manual_prob_to_str_is_gen": manual.prob_to_str is gen.prob_to_str,
                        "manual_write_robots_is_gen": manual.write_robots is gen.write_robots})

        for value in _prob_values():
            label = "P prob_to_str(%s)" % (_safe_repr(value, 60),)
            _call(records, label, cwd, gen.prob_to_str, value)
        _call(records, "P prob_to_str()", cwd, gen.prob_to_str)
        _call(records, "P prob_to_str(prob=0.29)", cwd, gen.prob_to_str, prob=0.29)

        saved_argv = sys.argv
        for argv in _main_cases():
            sys.argv = list(argv)
            label = "M main %s" % (" ".join(a[:40] for a in argv[1:]),)
            random.seed(12345)          # a known state in front of every call
            _call(records, label, cwd, gen.main)
        sys.argv = saved_argv

        original_parse = argparse.ArgumentParser.parse_args
        for number, namespace in enumerate(_namespace_cases()):
            argparse.ArgumentParser.parse_args = lambda self, *a, _ns=namespace, **k: _ns
            label = "N main #%d %s" % (number, _safe_repr(namespace, 200))
            random.seed(12345)
            _call(records, label, cwd, gen.main)
        argparse.ArgumentParser.parse_args = original_parse

        for number, case in enumerate(_board_cases()):
            label = "S create_sg #%d %s" % (number, _safe_repr(case, 160))
            _call(records, label, cwd, manual.create_sg_from_board, *case)
        _call(records, "S create_sg keywords", cwd, manual.create_sg_from_board,
              moves=[[0, 1]], rewards=[[2, 3]], loose_tiles=[[1, 0]], prob_robot_break=0.29,
              prob_light_break=0.57, prob_tile_break=0.58)

        # no inputs/ directory: the message of the error names the file
        os.rmdir("inputs")
        sys.argv = _argv(seed=4, width=2, length=2, rb=0.29, lb=0.57, tb=0.58, lt=0.07,
                         force_down=True)
        _call(records, "D main without inputs/", cwd, gen.main)
        sys.argv = _argv(seed=4, width=2, length=2, rb=0.29, lb=0.57, tb=0.58, lt=0.07)
        _call(records, "D main without inputs/ (no flag)", cwd, gen.main)
        sys.argv = saved_argv
        _call(records, "D create_sg without inputs/", cwd, manual.create_sg_from_board,
              [[0, 3]], [[2, 3]], [[1, 0]], 0.29, 0.57, 0.58)
        _call(records, "D create_sg without inputs/ (no down)", cwd, manual.create_sg_from_board,
              [[0, 2]], [[2, 3]], [[1, 0]], 0.29, 0.57, 0.58)
        os.mkdir("inputs")

        # the real command line
        script = os.path.join(root, "roberta_generator.py")
        cli = [[], ["-f"], ["-p", "0.29"], ["-q", "0.57"], ["-r", "0.58"], ["-t", "0.07"],
               ["-s", "47", "-w", "5", "-l", "5", "-f"],
               ["-s", "1", "-w", "1", "-l", "1", "-p", "0.29", "-q", "0.29", "-r", "0.29",
                "-t", "0.29"],
               ["--seed", "999132423", "--prob_robot_break", "0.01", "--prob_light_break",
                "0.02", "--force_down"],
               ["-s", "1", "-w", "2", "-l", "2", "-q", "0.05", "-t", "0.001"],
               ["-p", "0.995"], ["-p", "0.005"], ["-p", "nan"], ["-p", "0"], ["-p", "1"],
               ["-s=-1"], ["-w", "0"], ["-l", "0"], ["-m", "0"], ["-t", "1.5"], ["-r", "-1"],
               ["-q", "abc"], ["--help"], ["--nope"]]
        env = dict(os.environ, PYTHONDONTWRITEBYTECODE="1", PYTHONHASHSEED="0")
        for args in cli:
            done = subprocess.run([sys.executable, script] + args, cwd=cwd, env=env,
                                  capture_output=True, text=True, timeout=60)
            stderr_lines = done.stderr.strip().splitlines()
            records.append({"case": "C cli %s" % " ".join(args), "rc": done.returncode,
                            "stdout": done.stdout,
                            # tracebacks carry tree paths / line numbers: keep the last line
                            "stderr_last": stderr_lines[-1] if stderr_lines else "",
                            "stderr_is_traceback": done.stderr.startswith("Traceback"),
                            "stderr_full": "" if done.stderr.startswith("Traceback")
                            else done.stderr,
                            "files": _snapshot_and_clear(cwd)})
    finally:
        os.chdir("/")
        shutil.rmtree(cwd, ignore_errors=True)
    with open(out_path, "w") as handle:
        json.dump(records, handle)


# ----------------------------------------------------------------------- comparing side

def compare(patched, clean):
    problems = []
    if len(patched) != len(clean):
        problems.append("number of records differs: %d vs %d" % (len(patched), len(clean)))
    for new, old in zip(patched, clean):
        if new["case"] != old["case"]:
            problems.append("case order differs: %r vs %r" % (new["case"], old["case"]))
            break
        if new["case"] == "A signatures":
            for module in ("gen", "manual"):
                for name, signature in old[module].items():
                    if new[module].get(name) != signature:
                        problems.append("signature of %s.%s: %r -> %r" % (
                            module, name, signature, new[module].get(name)))
            for key in ("manual_prob_to_str_is_gen", "manual_write_robots_is_gen"):
                if new[key] != old[key]:
                    problems.append("%s: %r -> %r" % (key, old[key], new[key]))
            continue
        if new != old:
            keys = [k for k in old if new.get(k) != old.get(k)]
            detail = "; ".join("%s: clean=%r patched=%r" % (
                k, str(old.get(k))[:300], str(new.get(k))[:300]) for k in keys)
            problems.append("%s -> %s" % (old["case"], detail))
    return problems


def sanity(clean):
    """The harness itself must have seen real files, or it proves nothing."""
    written = [r for r in clean if r["case"].startswith("M ") and r.get("files")]
    names = set()
    for record in written:
        names.update(record["files"])
    board = [r for r in clean if r["case"].startswith("S ") and r.get("files")]
    cli = [r for r in clean if r["case"].startswith("C ") and r.get("files")]
    errors = [r for r in clean if isinstance(r.get("result"), dict)]
    ok = len(written) > 700 and len(names) > 600 and len(board) > 400 and len(cli) >= 10 \
        and len(errors) > 150
    summary = "records=%d main-files=%d distinct-names=%d board-files=%d cli-files=%d errors=%d" % (
        len(clean), len(written), len(names), len(board), len(cli), len(errors))
    return ok, summary


def main():
    if len(sys.argv) == 4 and sys.argv[1] == "--worker":
        worker(sys.argv[2], sys.argv[3])
        return 0
    if len(sys.argv) != 3:
        print(__doc__)
        return 2
    patched_root, clean_root = (os.path.abspath(p) for p in sys.argv[1:3])
    for root in (patched_root, clean_root):
        if not os.path.isfile(os.path.join(root, "roberta_generator.py")):
            print("FAIL: no roberta_generator.py in %s" % root)
            return 1
    scratch = tempfile.mkdtemp(prefix="c17_equiv_")
    try:
        outs = [os.path.join(scratch, "patched.json"), os.path.join(scratch, "clean.json")]
        env = dict(os.environ, PYTHONDONTWRITEBYTECODE="1", PYTHONHASHSEED="0")
        env.pop("PYTHONPATH", None)
        procs = [subprocess.Popen([sys.executable, os.path.abspath(__file__), "--worker", root, out],
                                  env=env, cwd=scratch)
                 for root, out in zip((patched_root, clean_root), outs)]
        codes = [proc.wait(timeout=600) for proc in procs]
        if any(codes):
            print("FAIL: worker exit codes %r" % (codes,))
            return 1
        with open(outs[0]) as handle:
            patched = json.load(handle)
        with open(outs[1]) as handle:
            clean = json.load(handle)
    finally:
        shutil.rmtree(scratch, ignore_errors=True)
    ok, summary = sanity(clean)
    print(summary)
    if not ok:
        print("FAIL: the harness did not exercise enough (see the counts above)")
        return 1
    problems = compare(patched, clean)
    if problems:
        for line in problems[:40]:
            print("DIFF " + line)
        print("FAIL (%d differences)" % len(problems))
        return 1
    print("PASS")
    return 0


if __name__ == "__main__":
    sys.exit(main())
