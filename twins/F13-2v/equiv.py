#!/usr/bin/env python
"""Differential test for property C13 (results do not depend on how the game is written down).

usage: python equiv.py <clean_repo_dir> <patched_repo_dir>

Both trees are loaded in their own subprocess (module names collide), the SAME
deterministic set of inputs is run against both, and the line-by-line transcripts
(reprs / bytes / exception type + message) are compared.

Prints SAME and exits 0 when nothing differs, prints the first difference and exits 1
otherwise.
"""
import os
import subprocess
import sys
import tempfile

ITERATION_CAP = 2000    # value-iteration sweeps per case (deterministic guard, see LogProxy)
WALL_CLOCK_CAP = 60.0   # seconds per case (backup guard); "both time out" counts as same


# =====================================================================================
# worker (runs inside one tree)
# =====================================================================================
def worker(tree, inputs_dir, out_path):
    import copy
    import glob
    import io
    import logging
    import math
    import random
    import signal

    tree = os.path.abspath(tree)
    sys.path.insert(0, tree)
    scratch = tempfile.mkdtemp(prefix="equiv_f13_")
    os.makedirs(os.path.join(scratch, "outputs"))
    os.chdir(scratch)

    import tad
    import reverse_dfs as rdfs
    import conditionalrewards as cr
    assert os.path.dirname(os.path.abspath(tad.__file__)) == tree, tad.__file__
    assert os.path.dirname(os.path.abspath(rdfs.__file__)) == tree, rdfs.__file__

    P1, P2, PR = "Player 1", "Player 2", "Probabilistic"

    out = open(out_path, "w")

    def emit(label, text):
        out.write(label + "\t" + text.replace("\n", "\\n") + "\n")

    class CaseTimeout(BaseException):
        pass

    def on_alarm(signum, frame):
        raise CaseTimeout()

    signal.signal(signal.SIGALRM, on_alarm)

    class LogProxy:
        """Stands in for the `logging` module inside tad.py: passes everything through, but
        counts the "iteration <i>" debug calls of the two value-iteration loops and aborts
        the case after ITERATION_CAP sweeps.  This makes the guard against non-stopping
        games deterministic (independent of machine load)."""

        def __init__(self, real):
            self._real = real
            self.sweeps = 0

        def __getattr__(self, name):
            return getattr(self._real, name)

        def debug(self, msg, *a, **k):
            if type(msg) is str and msg.startswith("iteration "):
                self.sweeps += 1
                if self.sweeps > ITERATION_CAP:
                    raise CaseTimeout()
            return self._real.debug(msg, *a, **k)

    proxy = LogProxy(tad.logging)
    tad.logging = proxy

    import time
    t_section = [time.time()]

    def section(name):
        now = time.time()
        sys.stderr.write("[%s] section %-10s %.1fs\n" % (os.path.basename(tree), name,
                                                         now - t_section[0]))
        t_section[0] = now

    def guarded(fn, *args, **kwargs):
        """repr of the result, or exception type + message, or TIMEOUT."""
        proxy.sweeps = 0
        signal.setitimer(signal.ITIMER_REAL, WALL_CLOCK_CAP)
        try:
            try:
                res = fn(*args, **kwargs)
                return "OK " + repr(res)
            except CaseTimeout:
                return "TIMEOUT"
            except Exception as exc:  # noqa
                return "EXC %s: %s" % (type(exc).__name__, exc)
        finally:
            signal.setitimer(signal.ITIMER_REAL, 0)

    # ---------------------------------------------------------------------------------
    # generators
    # ---------------------------------------------------------------------------------
    ACTIONS = ["a", "b", "c", "d", "alfa", "beta", " ", "", "x1", "X1"]
    PROB_SETS = [
        [0.5, 0.5], [0.25, 0.75], [1 / 3, 2 / 3], [0.1, 0.9], [0.5, 0.25, 0.25],
        [1 / 3, 1 / 3, 1 / 3], [0.2, 0.3, 0.5], [0.1, 0.2, 0.3, 0.4], [0.25] * 4,
        [0.05, 0.95], [0.6, 0.3, 0.1], [0.125, 0.8, 0.075], [0.01, 0.99],
    ]
    REWARDS = [0, 0, 0, 1, 1, 2, 3, 5, 5 / 3, 11 / 6, 0.5, 10, 100, 2.0]

    def gen_game(rng, nmin=2, nmax=10):
        """A stopping game: only probabilistic states have non-forward edges, and each of
        them keeps a forward edge of positive probability; the last ranks are zero-reward
        absorbing sinks."""
        n = rng.randint(nmin, nmax)
        order = list(range(1, n))
        rng.shuffle(order)
        if rng.random() < 0.8 or n == 1:
            order = [0] + order
        else:
            order.insert(rng.randint(0, len(order) - 1), 0)
        rank = {s: r for r, s in enumerate(order)}
        n_sinks = rng.randint(1, min(3, n - 1)) if n > 1 else 1
        sinks = order[n - n_sinks:]
        players = [None] * n
        trans = [None] * n
        rewards = [None] * n
        for s in range(n):
            if s in sinks:
                players[s] = PR
                trans[s] = [(rng.choice([1, 1, 1.0]), s)]
                rewards[s] = 0
                continue
            rewards[s] = rng.choice(REWARDS)
            forward = [t for t in range(n) if rank[t] > rank[s]]
            kind = rng.choice([P1, P2, PR, PR])
            players[s] = kind
            if kind in (P1, P2):
                k = rng.randint(1, 4)
                names = [rng.choice(ACTIONS) for _ in range(k)] if rng.random() < 0.25 \
                    else rng.sample(ACTIONS, k)
                trans[s] = [(names[i], rng.choice(forward)) for i in range(k)]
            else:
                probs = list(rng.choice(PROB_SETS))
                rng.shuffle(probs)
                if rng.random() < 0.15:
                    probs = [1] if rng.random() < 0.5 else [1.0]
                targets = [rng.choice(forward)]
                for _ in probs[1:]:
                    targets.append(rng.choice(forward) if rng.random() < 0.5
                                   else rng.randrange(n))
                t = list(zip(probs, targets))
                if rng.random() < 0.1:
                    t.append((rng.choice([0, 0.0]), rng.randrange(n)))
                rng.shuffle(t)
                trans[s] = t
        finals = [s for s in sinks if rng.random() < 0.6]
        if not finals and rng.random() < 0.93:
            finals = [rng.choice(sinks)]
        if rng.random() < 0.15:
            finals.append(rng.randrange(n))
        if rng.random() < 0.1 and finals:
            finals.append(rng.choice(finals))
        rng.shuffle(finals)
        return {"rewards": rewards, "players": players, "transition_list": trans,
                "final_states": finals}

    def transform(rng, game):
        """Another presentation of the same game: states renumbered (0 fixed),
        transitions reordered, actions renamed injectively."""
        n = len(game["players"])
        perm = list(range(1, n))
        rng.shuffle(perm)
        perm = [0] + perm                      # old -> new
        names = {}

        def rename(a):
            if a not in names:
                names[a] = "r%d_%s" % (len(names), a[::-1])
            return names[a]

        do_rename = rng.random() < 0.7
        new_t = [None] * n
        new_p = [None] * n
        new_r = [None] * n
        for s in range(n):
            t = [((rename(x) if (do_rename and isinstance(x, str)) else x), perm[y])
                 for x, y in game["transition_list"][s]]
            rng.shuffle(t)
            new_t[perm[s]] = t
            new_p[perm[s]] = game["players"][s]
            new_r[perm[s]] = game["rewards"][s]
        finals = [perm[f] for f in game["final_states"]]
        rng.shuffle(finals)
        return {"rewards": new_r, "players": new_p, "transition_list": new_t,
                "final_states": finals}

    # ---------------------------------------------------------------------------------
    # observation helpers
    # ---------------------------------------------------------------------------------
    def node_dump(state_list):
        return [(type(s).__name__, s.idx, s.next_states, s.reach_probability,
                 s.expected_rewards, s.expected_rewards_min_reach,
                 s.expected_reach_min_rewards) for s in state_list]

    def solve_game(game, prune):
        g = copy.deepcopy(game)
        sg = tad.StochasticGame(prune_states=prune, **g)
        res = sg.solve()
        return res, g == game, sg.count_transitions()

    def staged(game, prune):
        """The same steps as StochasticGame.solve(), observing the nodes after each."""
        g = copy.deepcopy(game)
        sg = tad.StochasticGame(prune_states=prune, **g)
        sg.check_game()
        sl = sg.init_states()
        solver = tad.Solver(threshold=10 ** (-6), state_list=sl)
        trace = []
        strat, n_it = solver.solve_reachability(sg.transition_list, sg.final_states, prune)
        trace.append(("reach", strat, n_it, node_dump(sl)))
        solver.prune_reachability(strat)
        trace.append(("p1", node_dump(sl)))
        if prune:
            solver.prune_paths()
            trace.append(("paths", node_dump(sl)))
            solver.prune_states()
            trace.append(("states", node_dump(sl)))
        fin, n_rew = solver.solve_total_rewards()
        trace.append(("rew", fin, n_rew, node_dump(sl)))
        return trace, g == game

    class ListHandler(logging.Handler):
        def __init__(self):
            super().__init__()
            self.lines = []

        def emit(self, record):
            self.lines.append("%s:%s" % (record.levelname, record.getMessage()))

    root = logging.getLogger()
    root.addHandler(logging.NullHandler())     # keep basicConfig() from touching stderr
    root.setLevel(logging.CRITICAL + 1)

    def with_debug_log(fn, *a):
        h = ListHandler()
        root.addHandler(h)
        old = root.level
        root.setLevel(logging.DEBUG)
        try:
            r = guarded(fn, *a)
        finally:
            root.setLevel(old)
            root.removeHandler(h)
        return r + " LOG " + repr(h.lines)

    # ---------------------------------------------------------------------------------
    # 1. random stopping games, both pruning modes, several presentations
    # ---------------------------------------------------------------------------------
    rng = random.Random(130013)
    n_games = 0
    for i in range(1000):
        base = gen_game(rng)
        presentations = [base]
        if i % 3 == 0:
            presentations.append(transform(rng, base))
            presentations.append(transform(rng, base))
        for j, g in enumerate(presentations):
            for prune in (True, False):
                n_games += 1
                emit("G%d.%d.%s.solve" % (i, j, prune), guarded(solve_game, g, prune))
                if i % 2 == 0:
                    emit("G%d.%d.%s.staged" % (i, j, prune), guarded(staged, g, prune))
                if i % 13 == 0:
                    emit("G%d.%d.%s.log" % (i, j, prune), with_debug_log(solve_game, g, prune))

    section("small")
    # larger random games
    rng = random.Random(77)
    for i in range(30):
        base = gen_game(rng, 20, 50)
        for j, g in enumerate([base, transform(rng, base)]):
            for prune in (True, False):
                emit("L%d.%d.%s.solve" % (i, j, prune), guarded(solve_game, g, prune))
                emit("L%d.%d.%s.staged" % (i, j, prune), guarded(staged, g, prune))

    # ---------------------------------------------------------------------------------
    # 2. the repository's own inputs (hand-written games and generated boards) through the
    #    driver, report files byte for byte (minus the wall-clock line), and re-presentations
    # ---------------------------------------------------------------------------------
    section("large")
    def strip_times(results):
        return {k: {kk: vv for kk, vv in v.items() if kk != "total_time"}
                for k, v in results.items()}

    def drive(games, tag):
        res = cr.run_games(copy.deepcopy(games))
        cr.save_results_to_file(res, "inputs/%s.py" % tag)
        with open(os.path.join("outputs", tag + ".txt"), "rb") as fh:
            lines = [ln for ln in fh.read().split(b"\n")
                     if not ln.startswith(b"Total time")]
        return strip_times(res), lines

    rng = random.Random(4242)
    files = sorted(glob.glob(os.path.join(inputs_dir, "*.py")))
    for path in files:
        if os.path.getsize(path) > 35000:
            continue
        tag = os.path.basename(path)[:-3]
        games = cr.read_dict_from_file(path)
        emit("F.%s.drive" % tag, guarded(drive, games, tag))
        renamed = {name + "_T": transform(rng, g) for name, g in games.items()}
        emit("F.%s.drive_T" % tag, guarded(drive, renamed, tag + "_T"))
        for name, g in (games.items() if os.path.getsize(path) < 13000 else ()):
            pruned = guarded(staged, g, True)
            emit("F.%s.%s.True.staged" % (tag, name), pruned)
            if pruned.startswith("OK"):     # like the driver: no-prune only after a solution
                emit("F.%s.%s.False.staged" % (tag, name), guarded(staged, g, False))

    section("files")
    # random games through the driver as well (exercises "previous game had no solution")
    rng = random.Random(99)
    for i in range(40):
        games = {"g%d" % k: gen_game(rng) for k in range(6)}
        emit("D%d.drive" % i, guarded(drive, games, "rnd%d" % i))

    # ---------------------------------------------------------------------------------
    # 3. malformed inputs: exception type + message
    # ---------------------------------------------------------------------------------
    section("driver")
    def valid():
        return {
            "rewards": [0, 2, 5 / 3, 0, 0, 0, 0, 0],
            "players": [P1, P2, P2, PR, PR, PR, PR, PR],
            "transition_list": [
                [("alfa", 1), ("beta", 2)], [(" ", 3)], [(" ", 4)],
                [(0.5, 5), (0.5, 6)], [(0.75, 6), (0.25, 7)],
                [(1, 5)], [(1, 6)], [(1, 7)]],
            "final_states": [6]}

    nan = float("nan")
    inf = float("inf")

    MUTATIONS = [
        lambda g: g["rewards"].pop(),
        lambda g: g["rewards"].append(1),
        lambda g: g["players"].pop(),
        lambda g: g["players"].append(PR),
        lambda g: g["transition_list"].pop(),
        lambda g: g["transition_list"].append([(1, 0)]),
        lambda g: g["rewards"].__setitem__(1, -1),
        lambda g: g["rewards"].__setitem__(1, -0.0),
        lambda g: g["rewards"].__setitem__(1, inf),
        lambda g: g["rewards"].__setitem__(2, nan),
        lambda g: g["rewards"].__setitem__(0, "a"),
        lambda g: g["rewards"].__setitem__(0, None),
        lambda g: g["rewards"].__setitem__(0, True),
        lambda g: g.__setitem__("rewards", tuple(g["rewards"])),
        lambda g: g.__setitem__("final_states", []),
        lambda g: g.__setitem__("final_states", [8]),
        lambda g: g.__setitem__("final_states", [-1]),
        lambda g: g.__setitem__("final_states", [6, 8]),
        lambda g: g.__setitem__("final_states", [6.0]),
        lambda g: g.__setitem__("final_states", [5.5]),
        lambda g: g.__setitem__("final_states", [True]),
        lambda g: g.__setitem__("final_states", (6, 5)),
        lambda g: g.__setitem__("final_states", {6}),
        lambda g: g.__setitem__("final_states", [6, 6, 5]),
        lambda g: g.__setitem__("final_states", [0]),
        lambda g: g.__setitem__("final_states", [7]),
        lambda g: g.__setitem__("final_states", ["6"]),
        lambda g: g.__setitem__("final_states", [[6]]),
        lambda g: g.__setitem__("final_states", [None]),
        lambda g: g.__setitem__("final_states", 6),
        lambda g: g.__setitem__("final_states", [0, 1, 2, 3, 4, 5, 6, 7]),
        lambda g: g["players"].__setitem__(0, "Player 3"),
        lambda g: g["players"].__setitem__(0, ["Player 1"]),
        lambda g: g["players"].__setitem__(3, None),
        lambda g: g["players"].__setitem__(0, P2),
        lambda g: g["players"].__setitem__(0, PR),
        lambda g: g["players"].__setitem__(3, P1),
        lambda g: g["transition_list"].__setitem__(0, []),
        lambda g: g["transition_list"].__setitem__(7, []),
        lambda g: g["transition_list"].__setitem__(0, None),
        lambda g: g["transition_list"].__setitem__(0, (("alfa", 1),)),
        lambda g: g["transition_list"].__setitem__(0, "ab"),
        lambda g: g["transition_list"].__setitem__(0, {("alfa", 1)}),
        lambda g: g["transition_list"].__setitem__(0, [["alfa", 1]]),
        lambda g: g["transition_list"].__setitem__(0, [("alfa", 1, 2)]),
        lambda g: g["transition_list"].__setitem__(0, [("alfa",)]),
        lambda g: g["transition_list"].__setitem__(0, [(1, 1)]),
        lambda g: g["transition_list"].__setitem__(1, [(None, 3)]),
        lambda g: g["transition_list"].__setitem__(3, [("a", 5)]),
        lambda g: g["transition_list"].__setitem__(3, [(None, 5)]),
        lambda g: g["transition_list"].__setitem__(3, [(True, 5)]),
        lambda g: g["transition_list"].__setitem__(0, [("alfa", "1")]),
        lambda g: g["transition_list"].__setitem__(0, [("alfa", 1.0)]),
        lambda g: g["transition_list"].__setitem__(0, [("alfa", True)]),
        lambda g: g["transition_list"].__setitem__(0, [("alfa", 8)]),
        lambda g: g["transition_list"].__setitem__(0, [("alfa", -1)]),
        lambda g: g["transition_list"].__setitem__(0, [("alfa", 1), ("alfa", 2)]),
        lambda g: g["transition_list"].__setitem__(0, [("alfa", 1), ("beta", 2), ("alfa", 0)]),
        lambda g: g["transition_list"].__setitem__(3, [(-0.5, 5), (1.5, 6)]),
        lambda g: g["transition_list"].__setitem__(3, [(0.5, 5), (0.7, 6)]),
        lambda g: g["transition_list"].__setitem__(3, [(0.2, 5), (0.2, 6)]),
        lambda g: g["transition_list"].__setitem__(3, [(nan, 5), (0.5, 6)]),
        lambda g: g["transition_list"].__setitem__(3, [(0, 5), (0, 6)]),
        lambda g: g["transition_list"].__setitem__(3, [(1, 5), (0, 6)]),
        lambda g: g["transition_list"].__setitem__(3, [(0.5, 5), (0.5, 7)]),
        lambda g: g["transition_list"].__setitem__(4, [(1, 7)]),
        lambda g: g["transition_list"].__setitem__(4, [(0.5, 5), (0.5, 7)]),
        lambda g: g["transition_list"].__setitem__(4, [(0.5, 5), (0.25, 6), (0.25, 7)]),
        lambda g: g.__setitem__("transition_list", tuple(g["transition_list"])),
        lambda g: g.__setitem__("players", tuple(g["players"])),
    ]

    def attempt(g, prune):
        sg = tad.StochasticGame(prune_states=prune, **copy.deepcopy(g))
        return sg.count_transitions(), sg.solve()

    def drive_plain(games):
        return strip_times(cr.run_games(copy.deepcopy(games)))

    for k, mut in enumerate(MUTATIONS):
        g = valid()
        mut(g)
        for prune in (True, False):
            emit("M%d.%s" % (k, prune), guarded(attempt, g, prune))
        emit("M%d.drive" % k, guarded(drive_plain, {"m": g}))

    rng = random.Random(555)
    for i in range(400):
        g = gen_game(rng, 3, 8)
        n = len(g["players"])

        def rnd_mut(g):
            c = rng.randrange(12)
            s = rng.randrange(n)
            if c == 0:
                g["rewards"][s] = rng.choice([-1, -0.5, inf, nan, "x", None])
            elif c == 1:
                g["final_states"] = rng.choice([[], [n], [-1], [n - 1, n], [s + 0.0], [s + 0.5]])
            elif c == 2:
                g["players"][s] = rng.choice(["player 1", None, 1, ["Player 1"], PR, P1, P2])
            elif c == 3:
                g["transition_list"][s] = rng.choice([[], None, ((1, 0),), [[1, 0]], [(1, 0, 0)]])
            elif c == 4:
                t = list(g["transition_list"][s])
                t[0] = (t[0][0], rng.choice([n, -1, "0", 0.0, None, True]))
                g["transition_list"][s] = t
            elif c == 5:
                t = list(g["transition_list"][s])
                t[0] = (rng.choice([None, 1, "z", 0.5, (1,), True]), t[0][1])
                g["transition_list"][s] = t
            elif c == 6:
                g["rewards"] = g["rewards"][:-1]
            elif c == 7:
                g["transition_list"] = g["transition_list"] + [[(1, 0)]]
            elif c == 8:
                g["players"] = g["players"][:-1]
            elif c == 9:
                g["final_states"] = list(range(n))
            elif c == 10:
                g["final_states"] = [0]
            else:
                g["rewards"] = [r * 10 ** 20 for r in g["rewards"]]

        rnd_mut(g)
        if rng.random() < 0.3:
            rnd_mut(g)
        for prune in (True, False):
            emit("R%d.%s" % (i, prune), guarded(attempt, g, prune))
        if i % 4 == 0:
            emit("R%d.drive" % i, guarded(drive_plain, {"m": g, "m2": gen_game(rng, 3, 5)}))

    # ---------------------------------------------------------------------------------
    # 4. reverse_dfs.py directly
    # ---------------------------------------------------------------------------------
    section("malformed")
    rng = random.Random(31337)

    def rnd_transitions(n):
        tl = []
        for s in range(n):
            k = rng.choice([0, 1, 1, 2, 3, 4])
            if rng.random() < 0.5:
                tl.append([(rng.choice(ACTIONS), rng.randrange(n)) for _ in range(k)])
            else:
                tl.append([(rng.random(), rng.randrange(n)) for _ in range(k)])
        return tl

    for i in range(700):
        n = rng.randint(0, 12)
        tl = rnd_transitions(n)
        c = rng.random()
        if n == 0 or c < 0.05:
            finals = []
        elif c < 0.85:
            finals = [rng.randrange(n) for _ in range(rng.randint(1, 3))]
        elif c < 0.9:
            finals = [rng.randrange(n), n + rng.randint(0, 2)]
        elif c < 0.93:
            finals = [-1]
        elif c < 0.96:
            finals = [float(rng.randrange(n)), rng.randrange(n)]
        else:
            finals = [rng.randrange(n) == 0, rng.randrange(n)]
        emit("V%d.core" % i, guarded(rdfs.reverse_transition_list_core, tl))
        emit("V%d.rev" % i, guarded(rdfs.reverse_transition_list, tl))
        emit("V%d.dfs" % i, guarded(rdfs.reverse_dfs, tl, finals))
        emit("V%d.dfs_tuple" % i, guarded(rdfs.reverse_dfs, tuple(tl), tuple(finals)))
        pairs = [(rng.randrange(8), rng.randrange(8)) for _ in range(rng.randint(0, 12))]
        emit("V%d.l2d" % i, guarded(rdfs.list_of_tuples_to_dict_of_lists, pairs))
        d = {rng.randrange(8): [rng.randrange(8)] for _ in range(rng.randint(0, 4))}
        emit("V%d.miss" % i, guarded(rdfs.add_missing_states, d, rng.randint(0, 9)))
        if n:
            seen0 = set(rng.sample(range(n), rng.randint(0, n // 2)))
            start = rng.randrange(n)

            def from_one():
                rev = rdfs.reverse_transition_list(tl)
                seen = set(seen0)
                r = rdfs.reverse_dfs_from(start, rev, seen)
                return r, sorted(seen)
            emit("V%d.from" % i, guarded(from_one))
    for bad in ([[("a", 0)], [1, 2]], [[("a", 0)], None], None, [[(1, 0, 0)]], [[("a", [0])]]):
        emit("Vbad.%r" % (bad,), guarded(rdfs.reverse_dfs, bad, [0]))
        emit("Vbad2.%r" % (bad,), guarded(rdfs.reverse_transition_list, bad))

    # ---------------------------------------------------------------------------------
    # 5. node and solver methods directly on hand-built state lists
    # ---------------------------------------------------------------------------------
    section("revdfs")
    rng = random.Random(2718)
    VALS = [0, 0, 0.0, 1, 1.0, 0.5, 0.25, 0.75, 1e-7, 4e-7, 0.4999996, 0.5000004, 2, 3.5, 10]
    CLS = {P1: tad.PlayerOne, P2: tad.PlayerTwo, PR: tad.ProbabilisticNode}

    def rnd_state_list(n, allow_empty=True):
        sl = []
        for s in range(n):
            kind = rng.choice([P1, P2, PR])
            k = rng.choice([0, 1, 1, 2, 2, 3, 4]) if allow_empty else rng.randint(1, 4)
            if kind == PR:
                ps = [rng.choice([0.5, 0.25, 0.1, 1, 0.3, 0.0, 1 / 3]) for _ in range(k)]
                ns = [(p, rng.randrange(n)) for p in ps]
            else:
                ns = [(rng.choice(ACTIONS[:5]), rng.randrange(n)) for _ in range(k)]
            node = CLS[kind](player=kind, idx=s, next_states=ns, reward=rng.choice(REWARDS),
                             num_states=n, is_final_node=rng.random() < 0.2)
            sl.append(node)
        return sl

    def rnd_values(sl, allow_negative):
        for s in sl:
            s.reach_probability = rng.choice(VALS[:11])
            s.expected_rewards = rng.choice(VALS)
            s.expected_rewards_min_reach = rng.choice(VALS)
            s.expected_reach_min_rewards = rng.choice(VALS[:11])
            if allow_negative and rng.random() < 0.05:
                s.expected_rewards = -1.0

    for i in range(500):
        n = rng.randint(1, 9)
        sl = rnd_state_list(n)
        rnd_values(sl, allow_negative=(i % 5 == 0))
        for s in sl:
            lab = "N%d.%d" % (i, s.idx)
            emit(lab + ".vi_reach", guarded(s.value_iteration_reach, sl))
            emit(lab + ".vi_rew", guarded(s.value_iteration_rewards, sl))
            if isinstance(s, tad.PlayerOne):
                for fl in (6, 1, 0):
                    emit(lab + ".best_reach%d" % fl,
                         guarded(s.get_best_strategies_reachability, sl, fl))
                    emit(lab + ".best_rew%d" % fl,
                         guarded(s.get_best_strategies_total_rewards, sl, fl))
            if isinstance(s, tad.PlayerTwo):
                for fl in (6, 1, 0):
                    emit(lab + ".worst_reach%d" % fl,
                         guarded(s.get_worst_strategies_reachability, sl, fl))
                    emit(lab + ".worst_rew%d" % fl,
                         guarded(s.get_worst_strategies_total_rewards, sl, fl))
                for strategies in ([], ["a"], ["a", "b"], ["zzz"], list(ACTIONS[:5]),
                                   [t[0] for t in s.next_states[-1:]]):
                    emit(lab + ".min_reach%r" % (strategies,),
                         guarded(s._expected_rewards_min_reach, sl, strategies))
        # mutating methods, each on a fresh deep copy
        for s in sl:
            lab = "N%d.%d" % (i, s.idx)
            if isinstance(s, (tad.PlayerOne, tad.ProbabilisticNode)):
                c = copy.deepcopy(sl)
                emit(lab + ".prune_paths", guarded(c[s.idx].prune_paths, c) + repr(node_dump(c)))
                c = copy.deepcopy(sl)
                victim = rng.choice(s.next_states) if s.next_states and rng.random() < 0.85 \
                    else ("nope", 0)
                emit(lab + ".remove_path%r" % (victim,),
                     guarded(c[s.idx].remove_path, victim) + repr(node_dump(c)))
            if isinstance(s, tad.PlayerOne):
                for keep in ([], ["a"], ["b", "a"], ["a", "a"], ["zzz"], list(ACTIONS[:5]),
                             ("a", "c"), [t[0] for t in s.next_states[:1]]):
                    c = copy.deepcopy(sl)
                    emit(lab + ".prune_reach%r" % (keep,),
                         guarded(c[s.idx].prune_paths_reachability, keep) + repr(node_dump(c)))
        # solver-level pruning on arbitrary graphs
        for what in ("prune_paths", "prune_states", "prune_stochastich_game"):
            c = copy.deepcopy(sl)
            solver = tad.Solver(state_list=c)
            emit("N%d.solver.%s" % (i, what), guarded(getattr(solver, what)) + repr(node_dump(c)))
        c = copy.deepcopy(sl)
        solver = tad.Solver(state_list=c)
        strat = guarded(solver._get_reachability_strategies)
        emit("N%d.solver.reach_strat" % i, strat)
        emit("N%d.solver.rew_strat" % i, guarded(solver._get_total_rewards_strategies))
        try:
            solver.prune_reachability(solver._get_reachability_strategies())
            emit("N%d.solver.prune_reach" % i, repr(node_dump(c)))
        except Exception as exc:  # noqa
            emit("N%d.solver.prune_reach" % i, "EXC %s: %s" % (type(exc).__name__, exc))

    # cascading drops: sparse, chain-like graphs where pruning needs many rounds
    rng = random.Random(8128)
    for i in range(400):
        n = rng.randint(5, 40)
        sl = []
        for s_ in range(n):
            kind = rng.choice([P1, P2, PR, P2, PR])
            k = rng.choice([0, 1, 1, 1, 2, 3])
            targets = []
            for _ in range(k):
                c = rng.random()
                if c < 0.6:
                    targets.append(min(n - 1, s_ + rng.randint(1, 2)))      # chain forward
                elif c < 0.7:
                    targets.append(s_)                                      # self loop
                else:
                    targets.append(rng.randrange(n))
            if kind == PR:
                ns = [(rng.choice([0.5, 0.25, 1, 0.0]), t) for t in targets]
            else:
                ns = [(rng.choice(ACTIONS[:4]), t) for t in targets]
            sl.append(CLS[kind](player=kind, idx=s_, next_states=ns, reward=1,
                                num_states=n, is_final_node=False))
        for s_ in sl:
            s_.reach_probability = rng.choice([0, 0, 0.0, 0.5, 1])
        for what in ("prune_states", "prune_stochastich_game"):
            c = copy.deepcopy(sl)
            solver = tad.Solver(state_list=c)
            emit("C%d.%s" % (i, what), guarded(getattr(solver, what))
                 + repr([(x.idx, x.next_states) for x in c]))
    section("nodes")
    # value iteration entry points of the solver, called directly (with odd sweep orders)
    rng = random.Random(1618)
    for i in range(200):
        g = gen_game(rng, 2, 9)
        n = len(g["players"])
        try:
            sg = tad.StochasticGame(**copy.deepcopy(g))
            sg.check_game()
            sl = sg.init_states()
        except Exception as exc:  # noqa
            emit("S%d.init" % i, "EXC %s: %s" % (type(exc).__name__, exc))
            continue
        order = [s for s in range(n) if s not in g["final_states"]]
        c = rng.random()
        if c < 0.3:
            rng.shuffle(order)
        elif c < 0.4:
            order = order + order[:2]
        elif c < 0.5:
            order = []
        for thr in (10 ** (-6), 0.01, 0.5):
            c2 = copy.deepcopy(sl)
            solver = tad.Solver(threshold=thr, state_list=c2)
            emit("S%d.%r.floor" % (i, thr), repr(solver.floor))
            for prune in (True, False):
                c3 = copy.deepcopy(sl)
                solver = tad.Solver(threshold=thr, state_list=c3)
                emit("S%d.%r.%s.vi_reach" % (i, thr, prune),
                     with_debug_log(solver.value_iteration_reachability, order, prune)
                     + repr(node_dump(c3)))
                emit("S%d.%r.%s.vi_rew" % (i, thr, prune),
                     with_debug_log(solver.value_iteration_total_rewards) + repr(node_dump(c3)))
    for thr in (10 ** (-6), 1e-6, 1e-3, 0.001, 0.5, 1, 10, 1000, 1e-9, 3e-5):
        emit("T.%r" % thr, guarded(lambda: tad.Solver(state_list=[], threshold=thr).floor))
    for thr in (0, -1, "a", None):
        emit("T.%r" % (thr,), guarded(lambda: tad.Solver(state_list=[], threshold=thr).floor))

    section("solver")
    emit("COUNT", "games=%d" % n_games)
    out.close()


# =====================================================================================
# driver
# =====================================================================================
def main():
    if len(sys.argv) == 5 and sys.argv[1] == "--worker":
        worker(sys.argv[2], sys.argv[3], sys.argv[4])
        return 0
    if len(sys.argv) != 3:
        print(__doc__)
        return 2
    clean, patched = (os.path.abspath(p) for p in sys.argv[1:3])
    inputs_dir = os.path.join(clean, "inputs")      # the same input files for both trees
    tmp = tempfile.mkdtemp(prefix="equiv_f13_main_")
    procs = []
    env = dict(os.environ, PYTHONHASHSEED="0", PYTHONDONTWRITEBYTECODE="1")
    env.pop("PYTHONPATH", None)
    for tag, tree in (("clean", clean), ("patched", patched)):
        path = os.path.join(tmp, tag + ".txt")
        p = subprocess.Popen([sys.executable, os.path.abspath(__file__), "--worker",
                              tree, inputs_dir, path], env=env, cwd=tmp,
                             stdout=subprocess.PIPE, stderr=subprocess.PIPE)
        procs.append((tag, path, p))
    for tag, path, p in procs:
        so, se = p.communicate()
        if os.environ.get("EQUIV_VERBOSE"):
            sys.stderr.write(se.decode(errors="replace"))
        if p.returncode != 0:
            print("worker for %s failed (exit %s):\n%s" % (tag, p.returncode,
                                                            se.decode(errors="replace")[-3000:]))
            return 1
    with open(procs[0][1]) as fh:
        a = fh.read().split("\n")
    with open(procs[1][1]) as fh:
        b = fh.read().split("\n")
    n_timeouts = 0
    for k in range(max(len(a), len(b))):
        la = a[k] if k < len(a) else "<missing>"
        lb = b[k] if k < len(b) else "<missing>"
        if la != lb:
            print("DIFFERENT at record %d" % k)
            print("  clean  : %s" % la[:1500])
            print("  patched: %s" % lb[:1500])
            return 1
        if "\tTIMEOUT" in la:
            n_timeouts += 1
    print("SAME (%d records compared, %d timed out in both trees)" % (len(a) - 1, n_timeouts))
    return 0


if __name__ == "__main__":
    sys.exit(main())
