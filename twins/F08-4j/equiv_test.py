#!/usr/bin/env python
"""Equivalence check for property C08 (Roborta generator faithfulness).

usage: python equiv_test.py <path-to-patched-root> <path-to-clean-root>

Both trees are exercised in separate subprocesses (worker mode of this very file) on the
same deterministic list of cases; every case yields a string (sha256 of the written file,
repr() of a returned value, or "EXC <type>: <message>" plus the sha256 of whatever was
written before the exception).  The parent compares the two maps key by key and prints
PASS (exit 0) when nothing differs, FAIL (exit 1) otherwise.

Cases (aimed at the quantifier "all boards x force-down or not x three games x break
probabilities in (0,1)"):
  X  exhaustive boards with up to 4 tiles (all shapes, all arrow layouts incl. down-only,
     all loose-tile layouts), varied rewards and probabilities, through write_robots;
  S  sampled larger boards from gen_rnd_board (force_down on/off, width 1, length 1, tiny and
     near-1 probabilities, several max_reward), through write_robots, a subset read back with
     conditionalrewards.read_dict_from_file;
  M  main() driven through sys.argv (valid, boundary and rejected parameter sets), comparing
     the names and bytes of everything that appears in inputs/;
  C  stochastic_game_from_roborta_board.create_sg_from_board (names and bytes);
  B  the transition builders called directly with a grid of arguments;
  Z  malformed boards / parameters (exception type, message and the partially written file).
"""
import sys
import os
import json
import subprocess
import tempfile
import hashlib
import itertools
import random as _random
import gc
import io
import contextlib

PROBS = [0.1, 0.5, 1e-12, 0.999999999, 0.25, 1 / 3, 0.05, 0.7]


# ----------------------------------------------------------------------------------------
# worker
# ----------------------------------------------------------------------------------------
def _sha(path):
    try:
        with open(path, "rb") as fh:
            return hashlib.sha256(fh.read()).hexdigest()
    except FileNotFoundError:
        return "<no file>"
    except IsADirectoryError:
        return "<directory>"


def _dir_digest(d):
    """names + content hashes of everything in directory d (sorted)"""
    out = []
    if not os.path.isdir(d):
        return "<no dir>"
    for name in sorted(os.listdir(d)):
        out.append(name + ":" + _sha(os.path.join(d, name)))
    return "|".join(out)


def _clear_dir(d):
    if os.path.isdir(d):
        for name in os.listdir(d):
            os.remove(os.path.join(d, name))


def _exc_str(e):
    return "EXC %s: %s" % (type(e).__name__, e)


def worker(root, out_path):
    root = os.path.abspath(root)
    sys.path.insert(0, root)
    work = tempfile.mkdtemp(prefix="c08w_")
    os.chdir(work)
    os.mkdir("inputs")

    import roberta_generator as rg
    import stochastic_game_from_roborta_board as sb
    import conditionalrewards as cr
    assert os.path.abspath(rg.__file__).startswith(root), rg.__file__
    assert os.path.abspath(sb.__file__).startswith(root), sb.__file__

    res = {}

    def run_write(key, fname, *args, **kwargs):
        """call write_robots, record hash of the file (also after an exception)"""
        if os.path.isfile(fname):
            os.remove(fname)
        status = "ok"
        try:
            ret = rg.write_robots(fname, *args, **kwargs)
            status = "ok " + repr(ret)
        except Exception as e:  # noqa
            status = _exc_str(e)
        # the exception (and its traceback -> frames -> file object) is released here
        gc.collect()
        res[key] = status + " # " + _sha(fname)

    # ------------------------------------------------------------------ X exhaustive
    rnd = _random.Random(12345)
    shapes = [(l, w) for l in range(1, 5) for w in range(1, 5) if l * w <= 4]
    n = 0
    for (length, width) in shapes:
        nt = length * width
        for mv in itertools.product(range(4), repeat=nt):
            moves = [list(mv[i * width:(i + 1) * width]) for i in range(length)]
            for lt in itertools.product((0, 1), repeat=nt):
                loose = [list(lt[i * width:(i + 1) * width]) for i in range(length)]
                rewards = [[rnd.randrange(0, 7) for _ in range(width)] for _ in range(length)]
                pt = PROBS[n % len(PROBS)]
                pr = PROBS[(n // 3) % len(PROBS)]
                pl = PROBS[(n // 7) % len(PROBS)]
                run_write("X/%dx%d/%s/%s" % (length, width, "".join(map(str, mv)),
                                             "".join(map(str, lt))),
                          "inputs/x.py", length, width, moves, rewards, loose, pt, pr, pl)
                n += 1
    os.remove("inputs/x.py")

    # ------------------------------------------------------------------ S sampled
    dims = [1, 2, 3, 5, 8, 13]
    n = 0
    for seed in range(6):
        for length in dims:
            for width in dims:
                for force_down in (False, True):
                    p_loose = [1e-9, 0.3, 0.999999, 0.5][n % 4]
                    max_reward = [1, 6, 20, 3][(n // 2) % 4]
                    key = "S/%d/%d/%d/%s" % (seed, length, width, force_down)
                    try:
                        board = rg.gen_rnd_board(seed * 7 + n, length, width, p_loose,
                                                 max_reward, force_down)
                    except Exception as e:  # noqa
                        res[key + "/board"] = _exc_str(e)
                        n += 1
                        continue
                    moves, rewards, loose = board
                    res[key + "/board"] = hashlib.sha256(repr(board).encode()).hexdigest()
                    pt = PROBS[n % len(PROBS)]
                    pr = PROBS[(n // 2) % len(PROBS)]
                    pl = PROBS[(n // 5) % len(PROBS)]
                    run_write(key, "inputs/s.py", length, width, moves, rewards, loose,
                              pt, pr, pl)
                    if n % 9 == 0:
                        d = cr.read_dict_from_file("inputs/s.py")
                        res[key + "/readback"] = hashlib.sha256(
                            repr(d).encode()).hexdigest() + " " + ",".join(d.keys())
                    n += 1
    # default-argument form of gen_rnd_board
    res["S/defaults"] = repr(rg.gen_rnd_board(3, 2, 3, 0.4))
    res["S/get_random_moves"] = repr([rg.get_random_moves(l, w, f)
                                      for l in (1, 2, 4) for w in (1, 2, 5)
                                      for f in (False, True)])
    os.remove("inputs/s.py")

    # ------------------------------------------------------------------ M main()
    arg_sets = [
        [],
        ["-s", "1", "-w", "1", "-l", "1"],
        ["-s", "1", "-w", "1", "-l", "4", "-f"],
        ["-s", "2", "-w", "4", "-l", "1", "-f"],
        ["--seed", "47", "--width", "5", "--length", "5", "--force_down"],
        ["-s", "9", "-w", "2", "-l", "2", "-p", "0.015", "-q", "0.025", "-r", "0.005",
         "-t", "0.995"],
        ["-s", "9", "-w", "3", "-l", "2", "-p", "0.999999", "-q", "1e-9", "-r", "0.5",
         "-t", "1e-9", "-m", "1"],
        ["-s", "0", "-w", "7", "-l", "3", "-m", "40", "-f"],
        ["-s", "5", "-w", "3", "-l", "3", "-m", "1200"],
        ["-s", "-1"],
        ["-w", "0"],
        ["-l", "0"],
        ["-l", "-3"],
        ["-p", "0"],
        ["-p", "1"],
        ["-q", "0"],
        ["-q", "1.5"],
        ["-r", "1"],
        ["-r", "-0.1"],
        ["-t", "0"],
        ["-t", "1"],
        ["-m", "0"],
        ["-w", "abc"],
        ["--nonsense"],
        ["-s", "-1", "-w", "0", "-p", "7"],
    ]
    for k, args in enumerate(arg_sets):
        _clear_dir("inputs")
        old_argv = sys.argv
        sys.argv = ["roberta_generator.py"] + args
        err = io.StringIO()
        outb = io.StringIO()
        status = "ok"
        try:
            with contextlib.redirect_stderr(err), contextlib.redirect_stdout(outb):
                ret = rg.main()
            status = "ok " + repr(ret)
        except SystemExit as e:
            status = "EXIT %r" % (e.code,)
        except Exception as e:  # noqa
            status = _exc_str(e)
        finally:
            sys.argv = old_argv
        gc.collect()
        res["M/%02d %s" % (k, " ".join(args))] = "%s # %s # out=%r err=%r" % (
            status, _dir_digest("inputs"), outb.getvalue(), err.getvalue())
    # main() when there is no inputs/ directory
    _clear_dir("inputs")
    os.rmdir("inputs")
    old_argv = sys.argv
    sys.argv = ["roberta_generator.py", "-s", "3"]
    try:
        rg.main()
        res["M/noinputs"] = "ok"
    except Exception as e:  # noqa
        res["M/noinputs"] = _exc_str(e)
    finally:
        sys.argv = old_argv
    os.mkdir("inputs")
    res["M/parser"] = rg.init_parser().format_help()
    res["M/prob_to_str"] = repr([rg.prob_to_str(p) for p in
                                 PROBS + [0.005, 0.015, 0.025, 0.995, 0.0049999]])
    # check_input directly
    ci = []
    for a in [(0, 1, 1, .1, .1, .1, .1, 1), (-1, 0, 0, 0, 0, 0, 0, 0), (0, 0, 0, 0, 0, 0, 0, 0),
              (0, 1, 0, 0, 0, 0, 0, 0), (0, 1, 1, 1, 0, 0, 0, 0), (0, 1, 1, .5, 1, 0, 0, 0),
              (0, 1, 1, .5, .5, 1, 0, 0), (0, 1, 1, .5, .5, .5, 1, 0),
              (0, 1, 1, .5, .5, .5, .5, 0), (0, 1, 1, .5, .5, .5, .5, -4)]:
        try:
            ci.append(repr(rg.check_input(*a)))
        except Exception as e:  # noqa
            ci.append(_exc_str(e))
    res["M/check_input"] = " ; ".join(ci)

    # ------------------------------------------------------------------ C create_sg_from_board
    rnd = _random.Random(777)
    for k in range(60):
        _clear_dir("inputs")
        length = rnd.choice([1, 1, 2, 3, 4])
        width = rnd.choice([1, 1, 2, 3, 4])
        top = rnd.choice([3, 4])
        moves = [[rnd.randrange(0, top) for _ in range(width)] for _ in range(length)]
        rewards = [[rnd.randrange(0, 9) for _ in range(width)] for _ in range(length)]
        loose = [[rnd.randrange(0, 2) for _ in range(width)] for _ in range(length)]
        pr, pl, pt = rnd.choice(PROBS), rnd.choice(PROBS), rnd.choice(PROBS)
        status = "ok"
        try:
            ret = sb.create_sg_from_board(moves, rewards, loose, pr, pl, pt)
            status = "ok " + repr(ret)
        except Exception as e:  # noqa
            status = _exc_str(e)
        gc.collect()
        res["C/%02d" % k] = status + " # " + _dir_digest("inputs")
    res["C/max"] = repr([sb.get_max_from_matrix(m) for m in
                         ([[1]], [[1, 5], [7, 2]], [[0, 0]], [[3], [9], [2]], [[-1, -5]])])
    for k, bad in enumerate(([], [[]], [[1], []], None, [[1, "a"]])):
        try:
            res["C/max/bad%d" % k] = repr(sb.get_max_from_matrix(bad))
        except Exception as e:  # noqa
            res["C/max/bad%d" % k] = _exc_str(e)
    for k, (moves, rewards, loose) in enumerate((
            ([], [], []),
            ([[]], [[]], [[]]),
            ([[0, 1]], [[1]], [[0, 0]]),
            ([[0, 1]], [[1, 2]], [[0]]),
            ([[0, 5]], [[1, 2]], [[0, 1]]),
            ([[0, 1], [2]], [[1, 2], [3, 4]], [[0, 1], [0, 0]]))):
        _clear_dir("inputs")
        try:
            status = "ok " + repr(sb.create_sg_from_board(moves, rewards, loose, .1, .2, .3))
        except Exception as e:  # noqa
            status = _exc_str(e)
        gc.collect()
        res["C/bad%d" % k] = status + " # " + _dir_digest("inputs")
    _clear_dir("inputs")

    # ------------------------------------------------------------------ B builders
    def call(key, fn, *a, **kw):
        try:
            res[key] = repr(fn(*a, **kw))
        except Exception as e:  # noqa
            res[key] = _exc_str(e)

    rnd = _random.Random(4242)
    for length in range(1, 5):
        for width in range(1, 5):
            for rep in range(3):
                moves = [[rnd.randrange(0, 4) for _ in range(width)] for _ in range(length)]
                loose = [[rnd.randrange(0, 2) for _ in range(width)] for _ in range(length)]
                p = PROBS[(length * 5 + width + rep) % len(PROBS)]
                nt = length * width
                k = "B/%d/%d/%d/" % (length, width, rep)
                call(k + "p2", rg.player_two_transitions, length, width, moves,
                     offset_r=nt, offset_y=2 * nt)
                call(k + "p2pos", rg.player_two_transitions, length, width, moves, 8 * nt, 9 * nt)
                call(k + "down_none", rg.player_one_down_transitions, length, width, offset=4 * nt)
                call(k + "down_None", rg.player_one_down_transitions, length, width, 5 * nt, None)
                call(k + "down_0", rg.player_one_down_transitions, length, width, offset=3 * nt,
                     winning_state=0)
                call(k + "down_w", rg.player_one_down_transitions, length, width, offset=3 * nt,
                     winning_state=4 * nt + 1)
                call(k + "lr_same", rg.player_one_left_right_transitions, length, width, moves,
                     offset_l=3 * nt, offset_r=3 * nt)
                call(k + "lr_same0", rg.player_one_left_right_transitions, length, width, moves,
                     0, 0)
                call(k + "lr_diff", rg.player_one_left_right_transitions, length, width, moves,
                     offset_l=5 * nt, offset_r=6 * nt)
                call(k + "tile", rg.prob_tile_break_transitions, length, width, p, loose,
                     offset=0, loosing_state=4 * nt)
                call(k + "tile2", rg.prob_tile_break_transitions, length, width, p, loose, 3,
                     10 * nt)
                call(k + "rdown", rg.prob_robot_down_break_transitions, length, width, p,
                     offset=3 * nt, winning_state=7 * nt + 1)
                call(k + "rdown0", rg.prob_robot_down_break_transitions, length, width, p, 0, 0)
                call(k + "rleft", rg.prob_robot_left_break_transitions, length, width, p,
                     offset=3 * nt)
                call(k + "rleft0", rg.prob_robot_left_break_transitions, length, width, p, 0)
                call(k + "rright", rg.prob_robot_right_break_transitions, length, width, p,
                     offset=4 * nt)
                call(k + "rright0", rg.prob_robot_right_break_transitions, length, width, p, 0)
                call(k + "dlr", rg.player_one_down_left_right_transitions, length, width, moves,
                     offset_d=5 * nt, offset_l=6 * nt, offset_r=7 * nt)
                call(k + "dlr_pos", rg.player_one_down_left_right_transitions, length, width,
                     moves, 1, 1, 1)
                call(k + "light", rg.prob_light_break_transitions, length, width, p,
                     offset_ok=nt, offset_break=3 * nt)
                call(k + "light_pos", rg.prob_light_break_transitions, length, width, p, 2 * nt,
                     3 * nt)
                # the three game writers and the preamble on an in-memory file
                rewards = [[rnd.randrange(0, 7) for _ in range(width)] for _ in range(length)]
                for nm, fn, extra in (("pre", rg.write_preamble, None),
                                      ("A", rg.write_robot_A, (p,)),
                                      ("Bg", rg.write_robot_B, (p, PROBS[rep])),
                                      ("Cg", rg.write_robot_C, (p, PROBS[rep], PROBS[rep + 3]))):
                    buf = io.StringIO()
                    try:
                        if extra is None:
                            ret = fn(buf, length, width, moves, rewards, loose)
                        else:
                            ret = fn(buf, length, width, moves, rewards, loose, *extra)
                        res[k + "w" + nm] = repr(ret) + " # " + buf.getvalue()
                    except Exception as e:  # noqa
                        res[k + "w" + nm] = _exc_str(e) + " # " + buf.getvalue()
    # degenerate sizes for the builders
    for (length, width) in ((0, 0), (0, 3), (3, 0), (-1, 2), (2, -1)):
        k = "B/deg/%d/%d/" % (length, width)
        moves = [[1, 1, 1]] * 3
        loose = [[1, 0, 1]] * 3
        call(k + "p2", rg.player_two_transitions, length, width, moves, 1, 2)
        call(k + "down", rg.player_one_down_transitions, length, width, 1, 5)
        call(k + "lr", rg.player_one_left_right_transitions, length, width, moves, 1, 1)
        call(k + "lr2", rg.player_one_left_right_transitions, length, width, moves, 1, 2)
        call(k + "tile", rg.prob_tile_break_transitions, length, width, .5, loose, 0, 9)
        call(k + "rdown", rg.prob_robot_down_break_transitions, length, width, .5, 0, 9)
        call(k + "rleft", rg.prob_robot_left_break_transitions, length, width, .5, 0)
        call(k + "rright", rg.prob_robot_right_break_transitions, length, width, .5, 0)
        call(k + "dlr", rg.player_one_down_left_right_transitions, length, width, moves, 1, 2, 3)
        call(k + "light", rg.prob_light_break_transitions, length, width, .5, 1, 2)

    # ------------------------------------------------------------------ Z malformed
    good_m = [[0, 1], [2, 3]]
    good_r = [[1, 2], [3, 4]]
    good_l = [[0, 1], [1, 0]]
    bad_cases = {
        "move4": (2, 2, [[0, 4], [1, 1]], good_r, good_l),
        "move4_first": (2, 2, [[4, 0], [1, 1]], good_r, good_l),
        "move_neg": (2, 2, [[0, -1], [1, 1]], good_r, good_l),
        "move_neg4": (2, 2, [[0, -4], [1, 1]], good_r, good_l),
        "move_str": (2, 2, [[0, "1"], [1, 1]], good_r, good_l),
        "move_none": (2, 2, [[None, 1], [1, 1]], good_r, good_l),
        "move_float": (2, 2, [[1.0, 2.0], [0.0, 3.0]], good_r, good_l),
        "move_bool": (2, 2, [[True, False], [True, True]], good_r, good_l),
        "moves_short_row": (2, 2, [[0, 1], [2]], good_r, good_l),
        "moves_short": (2, 2, [[0, 1]], good_r, good_l),
        "moves_none": (2, 2, None, good_r, good_l),
        "loose2": (2, 2, good_m, good_r, [[0, 2], [1, 0]]),
        "loose_neg": (2, 2, good_m, good_r, [[0, -1], [1, 0]]),
        "loose_short": (2, 2, good_m, good_r, [[0, 1], [1]]),
        "loose_bool": (2, 2, good_m, good_r, [[False, True], [True, False]]),
        "loose_float": (2, 2, good_m, good_r, [[0.0, 1.0], [1.0, 0.0]]),
        "loose_none": (2, 2, good_m, good_r, None),
        "rew_float": (2, 2, good_m, [[1.5, 2.0], [3.25, 4.75]], good_l),
        "rew_str": (2, 2, good_m, [["1", "2"], ["x", "4"]], good_l),
        "rew_none": (2, 2, good_m, [[1, None], [3, 4]], good_l),
        "rew_short": (2, 2, good_m, [[1, 2], [3]], good_l),
        "rew_long": (2, 2, good_m, [[1, 2, 9], [3, 4, 9], [5, 5, 5]], good_l),
        "rew_flat": (2, 2, good_m, [1, 2, 3, 4], good_l),
        "dims_small": (1, 1, good_m, good_r, good_l),
        "dims_big_w": (2, 3, good_m, good_r, good_l),
        "dims_big_l": (3, 2, good_m, good_r, good_l),
        "dims_zero": (0, 0, good_m, good_r, good_l),
        "dims_zero_w": (2, 0, good_m, good_r, good_l),
        "dims_neg": (-1, 2, good_m, good_r, good_l),
        "dims_float": (2.0, 2, good_m, good_r, good_l),
        "dims_str": ("2", 2, good_m, good_r, good_l),
        "tuples": (2, 2, ((0, 1), (2, 3)), ((1, 2), (3, 4)), ((0, 1), (1, 0))),
    }
    for name, (length, width, moves, rewards, loose) in bad_cases.items():
        run_write("Z/" + name, "inputs/z.py", length, width, moves, rewards, loose, .1, .2, .3)
    for name, probs in {"p0": (0, 0, 0), "p1": (1, 1, 1), "pneg": (-.5, -.5, -.5),
                        "p2": (2, 3, 4), "pstr": ("a", "b", "c"), "pnone": (None, None, None),
                        "pint": (1, 0, 1), "pmix": (.5, None, .5), "pmix2": (.5, .5, "x")}.items():
        run_write("Z/prob_" + name, "inputs/z.py", 2, 2, good_m, good_r, good_l, *probs)
    # bad destination
    run_write("Z/nodir", "nonexistent_dir/z.py", 2, 2, good_m, good_r, good_l, .1, .2, .3)
    run_write("Z/isdir", "inputs", 2, 2, good_m, good_r, good_l, .1, .2, .3)
    # keyword call of write_robots (public signature)
    try:
        rg.write_robots(file_name="inputs/kw.py", length=2, width=2, moves=good_m,
                        rewards=good_r, loose_tiles=good_l, prob_tile_break=.1,
                        prob_robot_break=.2, prob_light_break=.3)
        res["Z/kw"] = _sha("inputs/kw.py")
    except Exception as e:  # noqa
        res["Z/kw"] = _exc_str(e)
    # gen_rnd_board with degenerate parameters
    for name, a in {"w0": (1, 2, 0, .3, 6, False), "w0f": (1, 2, 0, .3, 6, True),
                    "l0": (1, 0, 2, .3, 6, True), "neg": (1, -1, -1, .3, 6, True),
                    "mr0": (1, 2, 2, .3, 0, False), "mrneg": (1, 2, 2, .3, -3, False),
                    "mrbig": (1, 2, 2, .3, 2000, False), "pl0": (1, 2, 2, 0, 6, False),
                    "pl1": (1, 2, 2, 1, 6, True), "seedstr": ("abc", 2, 2, .3, 6, False),
                    "seednone": (None, 1, 1, .3, 6, False),
                    "wstr": (1, 2, "2", .3, 6, False)}.items():
        if name == "seednone":
            continue  # seeds from the OS: not deterministic in either tree
        call("Z/gen_" + name, rg.gen_rnd_board, *a)

    with open(out_path, "w") as fh:
        json.dump(res, fh)


# ----------------------------------------------------------------------------------------
# parent
# ----------------------------------------------------------------------------------------
def main():
    if len(sys.argv) == 4 and sys.argv[1] == "--worker":
        worker(sys.argv[2], sys.argv[3])
        return 0
    if len(sys.argv) != 3:
        print(__doc__)
        return 2
    patched, clean = sys.argv[1], sys.argv[2]
    tmp = tempfile.mkdtemp(prefix="c08eq_")
    outs = [os.path.join(tmp, "patched.json"), os.path.join(tmp, "clean.json")]
    env = dict(os.environ)
    env["PYTHONDONTWRITEBYTECODE"] = "1"
    env["PYTHONHASHSEED"] = "0"
    env.pop("PYTHONPATH", None)
    procs = [subprocess.Popen([sys.executable, "-W", "ignore", os.path.abspath(__file__),
                               "--worker", root, out], env=env, cwd=tmp)
             for root, out in zip((patched, clean), outs)]
    codes = [p.wait(timeout=600) for p in procs]
    if any(codes):
        print("FAIL: worker exit codes", codes)
        return 1
    with open(outs[0]) as fh:
        a = json.load(fh)
    with open(outs[1]) as fh:
        b = json.load(fh)
    diffs = []
    for key in sorted(set(a) | set(b)):
        if a.get(key, "<missing>") != b.get(key, "<missing>"):
            diffs.append(key)
    n_exc = sum(1 for v in b.values() if v.startswith("EXC") or v.startswith("EXIT"))
    print("cases: %d (of which %d exceptions/exits in the clean tree)" % (len(b), n_exc))
    if diffs:
        print("FAIL: %d differing cases" % len(diffs))
        for key in diffs[:15]:
            print("  --", key)
            print("     patched:", a.get(key, "<missing>")[:600])
            print("     clean  :", b.get(key, "<missing>")[:600])
        return 1
    print("PASS")
    return 0


if __name__ == "__main__":
    sys.exit(main())
