#!/usr/bin/env python
"""Equivalence test for property C15 (random board generator).

usage: python equiv_test.py <path-to-patched-root> <path-to-clean-root>

Each tree is loaded in its own subprocess (worker mode).  The worker drives
roberta_generator.{gen_rnd_board,get_random_moves,check_input,prob_to_str,main}
(and the manual entry point) over many parameter sets, boundary values and
malformed values and prints one JSON record per case: repr() of the result or
exception type + message, a digest of the random-module state afterwards (so the
number and order of pseudo-random draws is compared too), and for main() the
exit status, captured stdout/stderr and the bytes of every file written.
The parent compares the two record streams.  PASS / exit 0 when nothing differs.
"""
import sys
import os
import json
import subprocess
import tempfile
import shutil

NAN = float("nan")
INF = float("inf")


# --------------------------------------------------------------------------- worker
def worker(root):
    import random
    import hashlib
    import io
    import contextlib
    import inspect
    import itertools

    root = os.path.abspath(root)
    sys.path.insert(0, root)
    sys.dont_write_bytecode = True
    import roberta_generator as rg
    import stochastic_game_from_roborta_board as manual

    out = []

    def state_digest():
        return hashlib.sha1(repr(random.getstate()).encode()).hexdigest()[:16]

    def outcome(fn, *a, **kw):
        try:
            return "ok:" + repr(fn(*a, **kw))
        except BaseException as e:  # noqa
            return "exc:" + type(e).__name__ + ":" + str(e)

    def rec(tag, value):
        out.append([tag, value])

    # ---- G. signatures of the public functions must stay compatible
    for name in ["gen_rnd_board", "get_random_moves", "check_input", "prob_to_str", "main",
                 "write_robots", "init_parser", "write_preamble", "write_robot_A",
                 "write_robot_B", "write_robot_C"]:
        rec("sig:" + name, str(inspect.signature(getattr(rg, name))))
    rec("const", repr((rg.MOVE_SINTAX, rg.TILE_SYNTAX)))

    # ---- A. gen_rnd_board, well-formed
    gen = random.Random(20240915)
    probs = [1e-12, 0.001, 0.05, 0.3, 0.5, 0.9, 0.999999, 1 - 2.0 ** -53, 2.0 ** -1074]
    max_rewards = [1, 2, 3, 6, 7, 20, 52, 53, 60, 1022, 1023, 1073, 1074, 1075, 1100, 5000]
    seeds = [0, 1, 2, 40, 41, 47, 51, 999132423, 2 ** 31, 2 ** 32 - 1, 2 ** 64 + 5, 10 ** 30]
    cases = []
    for _ in range(420):
        cases.append((gen.choice(seeds + [gen.randrange(10 ** 9) for _ in range(6)]),
                      gen.choice([1, 1, 2, 3, 4, 5, 8, 13]),
                      gen.choice([1, 1, 2, 3, 4, 5, 8, 21]),
                      gen.choice(probs), gen.choice(max_rewards), gen.choice([False, True])))
    # exhaustive small shapes
    for length, width, fd in itertools.product([1, 2, 3], [1, 2, 3], [False, True]):
        cases.append((7, length, width, 0.3, 6, fd))
    cases.append((47, 10, 40, 0.3, 6, True))
    cases.append((47, 40, 10, 0.3, 6, False))
    for idx, (seed, length, width, p, mr, fd) in enumerate(cases):
        random.seed(12345)
        r = outcome(rg.gen_rnd_board, seed, length, width, p, mr, fd)
        rec("gen:%d" % idx, [r, state_digest()])
        # called twice -> identical (reproducible)
        r2 = outcome(rg.gen_rnd_board, seed, length, width, p, max_reward=mr, force_down=fd)
        rec("gen2:%d" % idx, [r2 == r, state_digest()])
    # defaults and keyword forms
    rec("gen:def1", [outcome(rg.gen_rnd_board, 3, 4, 5, 0.3), state_digest()])
    rec("gen:def2", [outcome(rg.gen_rnd_board, 3, 4, 5, 0.3, 2), state_digest()])
    rec("gen:def3", [outcome(rg.gen_rnd_board, 3, 4, 5, 0.3, force_down=True), state_digest()])
    rec("gen:kw", [outcome(rg.gen_rnd_board, seed=3, length=4, width=5, prob_loose_tile=0.3,
                           max_reward=9, force_down=True), state_digest()])
    rec("gen:badkw", [outcome(rg.gen_rnd_board, 3, 4, 5), state_digest()])

    # ---- A'. gen_rnd_board, boundary and malformed arguments (one odd value at a time, and pairs)
    base = dict(seed=5, length=3, width=4, prob_loose_tile=0.3, max_reward=6, force_down=False)
    odd = {
        "seed": [-1, -7, 1.5, "abc", b"xy", bytearray(b"q"), (1, 2), [1], True, 2 ** 200, -0.0],
        "length": [0, -1, -5, 2.0, "2", None, True, False, [3]],
        "width": [0, -1, -5, 2.0, "2", None, True, False, [3]],
        "prob_loose_tile": [0, 1, 0.0, 1.0, -0.5, 1.5, NAN, INF, -INF, "x", None, True, False],
        "max_reward": [0, -1, -2, -3, -1075, -1100, -2000, 2000, 10 ** 6, 1.5, 0.5, -0.5, "6", None,
                       True, False, NAN, INF, -INF],
        "force_down": [1, 0, "yes", "", [], [0], None, 2, 0.0, NAN],
    }
    n = 0
    for fd in (False, True):
        for key, values in odd.items():
            for v in values:
                kw = dict(base, force_down=fd)
                kw[key] = v
                random.seed(999)
                rec("genodd:%d:%s:%r:%r" % (n, key, v, fd),
                    [outcome(rg.gen_rnd_board, **kw), state_digest()])
                n += 1
    for fd in (False, True):
        for (k1, k2) in itertools.combinations(["length", "width", "prob_loose_tile", "max_reward", "seed"], 2):
            for v1 in odd[k1][:6]:
                for v2 in odd[k2][:7]:
                    kw = dict(base, force_down=fd)
                    kw[k1] = v1
                    kw[k2] = v2
                    random.seed(999)
                    rec("genodd2:%d" % n, [outcome(rg.gen_rnd_board, **kw), state_digest()])
                    n += 1

    # ---- B. get_random_moves directly
    n = 0
    for seed in [0, 1, 47, 12345]:
        for length in [0, 1, 2, 5, -1, 2.0, "3", None, True]:
            for width in [0, 1, 2, 7, -1, 2.0, "3", None, True]:
                for fd in [False, True, 1, 0, "x", None, []]:
                    random.seed(seed)
                    rec("moves:%d" % n,
                        [outcome(rg.get_random_moves, length, width, fd), state_digest()])
                    n += 1
    random.seed(3)
    rec("moves:kw", [outcome(rg.get_random_moves, length=3, width=4, force_down=True), state_digest()])

    # ---- C. check_input: every boundary of the eight checks, types, order of the checks
    names = ["seed", "width", "length", "prob_robot_break", "prob_light_break",
             "prob_loose_tile", "prob_tile_break", "max_reward"]
    good = dict(seed=0, width=3, length=3, prob_robot_break=0.1, prob_light_break=0.1,
                prob_loose_tile=0.3, prob_tile_break=0.1, max_reward=6)
    int_vals = [-2 ** 70, -2, -1, 0, 1, 2, 2 ** 70, -0.0, 0.0, -0.5, 0.5, 1e-300, -1e-300, True,
                False, NAN, INF, -INF, "0", "", None, [], (1,), 1 + 0j]
    prob_vals = [-1, 0, 1, 2, -0.0, 0.0, 1.0, 5e-324, -5e-324, 1 - 2.0 ** -53, 1 + 2.0 ** -52, 0.5,
                 1e-12, 0.999999, -0.5, 1.5, True, False, NAN, INF, -INF, "0.5", "", None, [],
                 (0.5,), 0.5 + 0j]
    vals = {k: (prob_vals if k.startswith("prob") else int_vals) for k in names}
    rec("chk:good", outcome(rg.check_input, **good))
    rec("chk:goodpos", outcome(rg.check_input, *[good[k] for k in names]))
    rec("chk:few", outcome(rg.check_input, 0, 3, 3))
    n = 0
    for k in names:
        for v in vals[k]:
            kw = dict(good)
            kw[k] = v
            rec("chk1:%s:%r" % (k, v), outcome(rg.check_input, **kw))
    bad_int = [-1, 0, "0", None, NAN, 1]
    bad_prob = [0, 1, NAN, "x", None, -0.5, 1.5, 0.5]
    for k1, k2 in itertools.combinations(names, 2):
        for v1 in (bad_prob if k1.startswith("prob") else bad_int):
            for v2 in (bad_prob if k2.startswith("prob") else bad_int):
                kw = dict(good)
                kw[k1] = v1
                kw[k2] = v2
                rec("chk2:%d" % n, outcome(rg.check_input, *[kw[k] for k in names]))
                n += 1
    for _ in range(3000):
        args = [gen.choice(vals[k]) if gen.random() < 0.35 else good[k] for k in names]
        rec("chkr:%d" % n, [repr(args), outcome(rg.check_input, *args)])
        n += 1
    random.seed(77)
    rg.check_input(**good)
    rec("chk:state", state_digest())   # no pseudo-random draws in the checks

    # ---- prob_to_str
    for v in [0.001, 0.004, 0.005, 0.0050001, 0.015, 0.025, 0.1, 0.125, 0.3, 0.335, 0.345, 0.5,
              0.994, 0.995, 0.999, 1e-12, 1 - 2.0 ** -53, 0, 1, 2.5, -0.3, NAN, INF, "a", None, True]:
        rec("p2s:%r" % (v,), outcome(rg.prob_to_str, v))

    # ---- D. main() in-process: exit status, stdout/stderr, every file written
    def snapshot(d):
        res = []
        for dirpath, dirnames, filenames in os.walk(d):
            dirnames.sort()
            for fn in sorted(filenames):
                full = os.path.join(dirpath, fn)
                with open(full, "rb") as fh:
                    data = fh.read()
                res.append([os.path.relpath(full, d), len(data), hashlib.sha256(data).hexdigest()])
            if not filenames and not dirnames:
                res.append([os.path.relpath(dirpath, d), "emptydir"])
        return res

    def run_main(argv, make_inputs=True, func=None):
        d = tempfile.mkdtemp(prefix="c15w_")
        old_cwd = os.getcwd()
        old_argv = sys.argv
        so, se = io.StringIO(), io.StringIO()
        try:
            if make_inputs:
                os.mkdir(os.path.join(d, "inputs"))
            os.chdir(d)
            sys.argv = ["roberta_generator.py"] + list(argv)
            random.seed(4242)
            with contextlib.redirect_stdout(so), contextlib.redirect_stderr(se):
                try:
                    r = (func or rg.main)()
                    status = "ret:" + repr(r)
                except SystemExit as e:
                    status = "exit:" + repr(e.code)
                except BaseException as e:  # noqa
                    status = "exc:" + type(e).__name__ + ":" + str(e)
            return [status, so.getvalue(), se.getvalue(), snapshot(d)]
        finally:
            sys.argv = old_argv
            os.chdir(old_cwd)
            shutil.rmtree(d, ignore_errors=True)

    argvs = [
        [],
        ["-f"],
        ["--force_down"],
        ["-s", "0"], ["-s", "-1"], ["-s", "-0"], ["-s", "1"], ["--seed", "999132423"],
        ["-s", "1.5"], ["-s", "abc"], ["-s", str(2 ** 70)], ["-s", "-" + str(2 ** 70)],
        ["-w", "0"], ["-w", "-1"], ["-w", "1"], ["-w", "2"], ["--width", "1", "-f"],
        ["-w", "1.0"], ["-w", ""],
        ["-l", "0"], ["-l", "-1"], ["-l", "1"], ["-l", "2"], ["--length", "1", "-f"],
        ["-w", "1", "-l", "1"], ["-w", "1", "-l", "1", "-f"], ["-w", "0", "-l", "0"],
        ["-w", "1", "-l", "6"], ["-w", "6", "-l", "1"], ["-w", "1", "-l", "6", "-f"],
        ["-w", "6", "-l", "1", "-f"],
        ["-m", "0"], ["-m", "-1"], ["-m", "1"], ["-m", "2"], ["--max_reward", "60"],
        ["-m", "1074"], ["-m", "1100"], ["-m", "100000"], ["-m", "1.5"],
        ["-s", "-1", "-w", "0"], ["-w", "0", "-s", "-1"], ["-l", "0", "-w", "0"],
        ["-m", "0", "-t", "0"], ["-p", "0", "-q", "0"], ["-q", "1", "-p", "1"],
        ["-r", "0", "-t", "1"], ["-t", "0", "-r", "1"], ["-m", "0", "-s", "-1"],
        ["--help"], ["-h"], ["--bogus"], ["extra"], ["-s"],
        ["-s", "47", "-w", "5", "-l", "5"], ["-s", "47", "-w", "5", "-l", "5", "-f"],
        ["-s", "47", "-w", "10", "-l", "5", "-f"], ["-s", "40", "-w", "20", "-l", "10", "-f"],
        ["-s", "47", "-w", "40", "-l", "10"],
        ["-s", "999132423", "-p", "0.01", "-q", "0.02"],
        ["-s", "999132423", "-p", "0.01", "-q", "0.02", "-f"],
        ["-s", "1", "-w", "2", "-l", "2", "-q", "0.05", "-t", "0.001"],
        ["-s", "1", "-w", "1", "-l", "2", "-q", "0.05", "-t", "0.001"],
        ["-s", "1", "-w", "2", "-l", "1", "-q", "0.05", "-t", "0.001"],
        ["--prob_robot_break", "0.25", "--prob_light_break", "0.35", "--prob_tile_break", "0.45",
         "--prob_loose_tile", "0.55", "--max_reward", "3", "--seed", "9", "--width", "4",
         "--length", "2", "--force_down"],
    ]
    boundary_probs = ["0", "1", "0.0", "1.0", "-0.0", "-0.1", "1.1", "nan", "inf", "-inf", "abc",
                      "5e-324", "0.9999999999999999", "1e-9", "0.001", "0.004", "0.005", "0.015",
                      "0.125", "0.5", "0.994", "0.995", "0.999", "0.9999", "1e400", "2", "-1"]
    for opt in ["-p", "-q", "-r", "-t"]:
        for v in boundary_probs:
            argvs.append([opt, v])
            if v in ("0", "1", "nan", "0.995", "5e-324"):
                argvs.append([opt, v, "-f", "-w", "2", "-l", "2"])
    for _ in range(60):
        a = ["-s", str(gen.randrange(0, 10 ** 6)), "-w", str(gen.choice([1, 2, 3, 4, 7])),
             "-l", str(gen.choice([1, 2, 3, 4, 6])), "-m", str(gen.choice([1, 2, 6, 12])),
             "-p", repr(gen.choice([0.01, 0.1, 0.2, 0.5, 0.99])),
             "-q", repr(gen.choice([0.01, 0.05, 0.1, 0.5, 0.99])),
             "-r", repr(gen.choice([0.01, 0.1, 0.3, 0.5, 0.99])),
             "-t", repr(gen.choice([0.001, 0.1, 0.3, 0.5, 0.999]))]
        if gen.random() < 0.5:
            a.append("-f")
        if gen.random() < 0.15:
            bad = gen.choice([["-s", "-3"], ["-w", "0"], ["-l", "-2"], ["-m", "0"], ["-p", "0"],
                              ["-q", "1"], ["-r", "1.5"], ["-t", "-0.1"]])
            a += bad
        argvs.append(a)
    for i, a in enumerate(argvs):
        rec("main:%d:%s" % (i, " ".join(a)), run_main(a))
    # no inputs/ directory in the working directory
    for i, a in enumerate([[], ["-f"], ["-s", "-1"], ["-w", "0"], ["-t", "1"], ["-m", "0"]]):
        rec("main-noinputs:%d" % i, run_main(a, make_inputs=False))

    # ---- F. the committed inputs/robot_*.py whose names encode their parameters
    import re
    pat = re.compile(r"^robot_(\d+)_w(\d+)_l(\d+)_r(\d+)_rb(\d+)_lb(\d+)_tb(\d+)_lt(\d+)(_force_down)?\.py$")
    for fn in sorted(os.listdir(os.path.join(root, "inputs"))):
        m = pat.match(fn)
        if not m:
            continue
        s, w, l, r, rb, lb, tb, lt, fdn = m.groups()
        if int(lt) == 0:
            lt_arg = "0.001"
        else:
            lt_arg = repr(int(lt) / 100)
        a = ["-s", s, "-w", w, "-l", l, "-m", r, "-p", repr(int(rb) / 100), "-q", repr(int(lb) / 100),
             "-r", repr(int(tb) / 100), "-t", lt_arg] + (["-f"] if fdn else [])
        res = run_main(a)
        with open(os.path.join(root, "inputs", fn), "rb") as fh:
            committed = hashlib.sha256(fh.read()).hexdigest()
        same = [e for e in res[3] if e[0] == os.path.join("inputs", fn) and e[2] == committed]
        rec("committed:" + fn, [res, bool(same)])

    # ---- H. manual entry point (uses write_robots / prob_to_str)
    def manual_call():
        moves, rewards, loose = rg.gen_rnd_board(11, 3, 4, 0.4, 5, True)
        return manual.create_sg_from_board(moves, rewards, loose, 0.1, 0.2, 0.3)
    rec("manual", run_main([], func=manual_call))

    json.dump(out, sys.stdout)


# --------------------------------------------------------------------------- CLI runs
def cli_runs(root):
    """A handful of real command-line runs: exit status, last stderr line, files."""
    import hashlib
    res = []
    script = os.path.join(os.path.abspath(root), "roberta_generator.py")
    argvs = [[], ["-f", "-s", "47", "-w", "5", "-l", "5"], ["-s", "-1"], ["-w", "0"], ["-t", "1"],
             ["-p", "nan"], ["-m", "0"], ["-q", "x"], ["-w", "1", "-l", "1", "-f"]]
    for a in argvs:
        d = tempfile.mkdtemp(prefix="c15c_")
        try:
            os.mkdir(os.path.join(d, "inputs"))
            env = dict(os.environ, PYTHONDONTWRITEBYTECODE="1", PYTHONHASHSEED="0")
            p = subprocess.run([sys.executable, script] + a, cwd=d, capture_output=True, text=True,
                               timeout=60, env=env)
            last = p.stderr.strip().splitlines()[-1] if p.stderr.strip() else ""
            files = []
            for fn in sorted(os.listdir(os.path.join(d, "inputs"))):
                with open(os.path.join(d, "inputs", fn), "rb") as fh:
                    files.append([fn, hashlib.sha256(fh.read()).hexdigest()])
            res.append([" ".join(a), p.returncode, p.stdout, last, files])
        finally:
            shutil.rmtree(d, ignore_errors=True)
    return res


# --------------------------------------------------------------------------- parent
def main():
    if len(sys.argv) == 3 and sys.argv[1] == "--worker":
        worker(sys.argv[2])
        return 0
    if len(sys.argv) != 3:
        print(__doc__)
        return 2
    patched, clean = os.path.abspath(sys.argv[1]), os.path.abspath(sys.argv[2])
    env = dict(os.environ, PYTHONDONTWRITEBYTECODE="1", PYTHONHASHSEED="0")
    procs = []
    for root in (patched, clean):
        procs.append(subprocess.Popen([sys.executable, os.path.abspath(__file__), "--worker", root],
                                      stdout=subprocess.PIPE, stderr=subprocess.PIPE, text=True,
                                      env=env, cwd=tempfile.gettempdir()))
    outs = []
    for p in procs:
        so, se = p.communicate(timeout=600)
        if p.returncode != 0:
            print("FAIL: worker crashed")
            print(se[-3000:])
            return 1
        outs.append(json.loads(so))
    a, b = outs
    diffs = []
    if len(a) != len(b):
        diffs.append("number of records differs: %d vs %d" % (len(a), len(b)))
    for ra, rb in zip(a, b):
        if ra != rb:
            diffs.append("%s\n   patched: %s\n   clean:   %s" % (ra[0], str(ra[1])[:600], str(rb[1])[:600]))
    ca, cb = cli_runs(patched), cli_runs(clean)
    for ra, rb in zip(ca, cb):
        if ra != rb:
            diffs.append("cli %s\n   patched: %s\n   clean:   %s" % (ra[0], str(ra[1:])[:600], str(rb[1:])[:600]))
    # sanity: the clean tree reproduces its committed inputs and the test saw real boards
    n_commit = sum(1 for r in b if r[0].startswith("committed:"))
    n_commit_ok = sum(1 for r in b if r[0].startswith("committed:") and r[1][1])
    print("records compared: %d (+%d cli runs); committed inputs reproduced by clean tree: %d/%d"
          % (len(b), len(cb), n_commit_ok, n_commit))
    if diffs:
        print("FAIL: %d differences" % len(diffs))
        for d in diffs[:25]:
            print(" -", d)
        return 1
    print("PASS")
    return 0


if __name__ == "__main__":
    sys.exit(main())
