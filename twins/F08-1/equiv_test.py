"""
Equivalence test for property C08 (generated games encode the Roborta board rules).

usage: python equiv_test.py <path-to-patched-root> <path-to-clean-root>

Each tree is loaded in its own subprocess (same module names), run over the same list of
cases, and the observations are compared case by case:

  * boards   - write_robots() on EVERY board with up to 4 tiles (all shapes, all arrow
               layouts incl. down-only tiles, all loose-tile layouts; rewards and the three
               break probabilities vary with the case, including tiny and near-1 ones):
               the written file byte for byte (sha256), and the parsed games.
  * sampled  - write_robots() on random larger boards (one-column, one-row, up to 9x9).
  * builders - every transition builder called directly on grids of (length, width, offsets).
  * cli      - roberta_generator.main() for many argument vectors (width 1, length 1,
               force_down on/off, boundary probabilities, invalid values): file names,
               contents, exceptions.
  * manual   - stochastic_game_from_roborta_board.create_sg_from_board().
  * rnd      - gen_rnd_board() / get_random_moves() results.

Prints PASS and exits 0 when no difference is found, FAIL (exit 1) otherwise.
"""
import json
import os
import subprocess
import sys
import tempfile

WORKER = r'''
import hashlib, io, itertools, json, os, random as _rnd, sys, contextlib

root, workdir = sys.argv[1], sys.argv[2]
sys.path.insert(0, root)
os.chdir(workdir)
os.makedirs("inputs", exist_ok=True)

import roberta_generator as rg
import stochastic_game_from_roborta_board as manual

assert os.path.dirname(os.path.abspath(rg.__file__)) == os.path.abspath(root), rg.__file__

out = {}

def sha(b):
    return hashlib.sha256(b).hexdigest()[:24]

def observe_file(name):
    with open(name, "rb") as f:
        raw = f.read()
    games = eval(raw.decode())
    # repr keeps int/float distinctions, key order and container types
    return [sha(raw), sha(repr(games).encode()), sorted(games)]

PROBS = [
    (0.1, 0.1, 0.1), (0.5, 0.25, 0.75), (1e-9, 1e-12, 1e-6), (0.999999, 0.9999999, 0.99999),
    (0.3, 0.999, 0.001), (1/3, 2/3, 1/7), (0.05, 0.1, 0.9),
]

def rows(flat, width):
    return [list(flat[k:k + width]) for k in range(0, len(flat), width)]

# ---------------------------------------------------------------- exhaustive boards
res = []
case = 0
for n in range(1, 5):
    for length in range(1, n + 1):
        if n % length:
            continue
        width = n // length
        for mv in itertools.product(range(4), repeat=n):
            for lt in itertools.product((0, 1), repeat=n):
                case += 1
                r = _rnd.Random(case)
                rew = [r.choice([0, 0, 1, 2, 3, 6, 11]) for _ in range(n)]
                pt, pr, pl = PROBS[case % len(PROBS)]
                name = "inputs/board.py"
                rg.write_robots(name, length, width, rows(mv, width), rows(rew, width),
                                rows(lt, width), pt, pr, pl)
                res.append(["%dx%d mv=%s lt=%s" % (length, width, mv, lt), observe_file(name)])
out["boards"] = res

# ---------------------------------------------------------------- sampled larger boards
res = []
r = _rnd.Random(20240)
shapes = [(1, 5), (5, 1), (1, 9), (9, 1), (2, 3), (3, 2), (3, 3), (2, 5), (5, 2), (4, 4),
          (6, 3), (3, 7), (9, 9), (1, 1), (2, 1), (1, 2)]
for case in range(400):
    length, width = shapes[case % len(shapes)]
    n = length * width
    top = 3 if case % 3 else 2
    mv = [r.randint(0, top) for _ in range(n)]
    if case % 11 == 0:
        mv = [3] * n
    lt = [1 if r.random() < (0.0, 0.3, 1.0)[case % 3 if case % 5 else 1] else 0 for _ in range(n)]
    rew = [r.randint(0, 7) for _ in range(n)]
    if case % 2:
        pt, pr, pl = PROBS[case % len(PROBS)]
    else:
        pt, pr, pl = r.random() or 0.5, r.random() or 0.5, r.random() or 0.5
    name = "inputs/sampled.py"
    rg.write_robots(name, length, width, rows(mv, width), rows(rew, width), rows(lt, width),
                    pt, pr, pl)
    res.append(["sampled %d %dx%d" % (case, length, width), observe_file(name)])
out["sampled"] = res

# ---------------------------------------------------------------- the builders, directly
res = []
r = _rnd.Random(7)
for length in range(1, 5):
    for width in range(1, 6):
        n = length * width
        for rep in range(6):
            mv = rows([r.randint(0, 3) for _ in range(n)], width)
            lt = rows([r.randint(0, 1) for _ in range(n)], width)
            o = [r.randint(0, 12) * n for _ in range(3)]
            if rep == 0:
                o = [0, 0, 0]
            p = PROBS[rep % len(PROBS)][0]
            win = 10 * n + 1
            calls = [
                ("p2", rg.player_two_transitions, (length, width, mv, o[0], o[1])),
                ("p1down", rg.player_one_down_transitions, (length, width, o[0])),
                ("p1down_none", rg.player_one_down_transitions, (length, width, o[0], None)),
                ("p1down_win", rg.player_one_down_transitions, (length, width, o[0], win)),
                ("p1lr_same", rg.player_one_left_right_transitions, (length, width, mv, o[0], o[0])),
                ("p1lr_diff", rg.player_one_left_right_transitions, (length, width, mv, o[0], o[0] + n)),
                ("tile", rg.prob_tile_break_transitions, (length, width, p, lt, o[0], win - 1)),
                ("down_break", rg.prob_robot_down_break_transitions, (length, width, p, o[0], win)),
                ("left_break", rg.prob_robot_left_break_transitions, (length, width, p, o[0])),
                ("right_break", rg.prob_robot_right_break_transitions, (length, width, p, o[0])),
                ("p1dlr", rg.player_one_down_left_right_transitions, (length, width, mv, o[0], o[1], o[2])),
                ("light_break", rg.prob_light_break_transitions, (length, width, p, o[0], o[1])),
            ]
            for tag, fn, args in calls:
                res.append(["%s %dx%d #%d" % (tag, length, width, rep), repr(fn(*args))])
            # write_robot_A/B/C and the preamble into an in-memory file
            rew = rows([r.randint(0, 6) for _ in range(n)], width)
            buf = io.StringIO()
            rg.write_preamble(buf, length, width, mv, rew, lt)
            rg.write_robot_A(buf, length, width, mv, rew, lt, p)
            rg.write_robot_B(buf, length, width, mv, rew, lt, p, 0.2)
            rg.write_robot_C(buf, length, width, mv, rew, lt, p, 0.2, 0.4)
            res.append(["writers %dx%d #%d" % (length, width, rep), sha(buf.getvalue().encode())])
out["builders"] = res

# ---------------------------------------------------------------- command line
def run_cli(argv):
    before = set(os.listdir("inputs"))
    old = sys.argv
    sys.argv = ["roberta_generator.py"] + argv
    err = io.StringIO()
    try:
        with contextlib.redirect_stderr(err), contextlib.redirect_stdout(io.StringIO()):
            rg.main()
        status = "ok"
    except SystemExit as e:
        status = "SystemExit %r" % (e.code,)
    except Exception as e:
        status = "%s: %s" % (type(e).__name__, e)
    finally:
        sys.argv = old
    new = sorted(set(os.listdir("inputs")) - before)
    obs = [status, new, [observe_file("inputs/" + f) for f in new]]
    for f in new:
        os.remove("inputs/" + f)
    return obs

res = []
argvs = [[]]
for seed in (0, 1, 47, 999132423):
    for width in (1, 2, 3, 5):
        for length in (1, 2, 4):
            for fd in (False, True):
                a = ["-s", str(seed), "-w", str(width), "-l", str(length)]
                if fd:
                    a.append("-f")
                argvs.append(a)
for probs in (["-p", "0.001", "-q", "0.999", "-r", "0.5", "-t", "0.999"],
              ["-p", "0.999999", "-q", "1e-9", "-r", "0.999", "-t", "1e-9"],
              ["--prob_robot_break", "0.25", "--prob_light_break", "0.015",
               "--prob_tile_break", "0.005", "--prob_loose_tile", "0.5", "--max_reward", "1"],
              ["-m", "40", "-t", "0.9"], ["-m", "2000"]):
    for shape in (["-w", "1", "-l", "1"], ["-w", "1", "-l", "6"], ["-w", "6", "-l", "1"],
                  ["-w", "4", "-l", "3", "-f"], ["-w", "2", "-l", "2", "--force_down"]):
        argvs.append(probs + shape + ["--seed", "5"])
# invalid argument vectors: nothing may be written
argvs += [["-w", "0"], ["-l", "0"], ["-w", "-2"], ["-s", "-1"], ["-p", "0"], ["-p", "1"],
          ["-q", "0"], ["-q", "1.5"], ["-r", "0"], ["-r", "1"], ["-t", "0"], ["-t", "1"],
          ["-m", "0"], ["-w", "x"], ["--bogus"]]
for a in argvs:
    res.append([" ".join(a), run_cli(a)])
out["cli"] = res

# ---------------------------------------------------------------- manual entry point
res = []
r = _rnd.Random(99)
for case in range(60):
    length, width = shapes[case % len(shapes)]
    n = length * width
    top = 3 if case % 2 else 2
    mv = rows([r.randint(0, top) for _ in range(n)], width)
    rew = rows([r.randint(0, 5) for _ in range(n)], width)
    lt = rows([r.randint(0, 1) for _ in range(n)], width)
    pr, pl, pt = PROBS[case % len(PROBS)]
    before = set(os.listdir("inputs"))
    manual.create_sg_from_board(mv, rew, lt, pr, pl, pt)
    new = sorted(set(os.listdir("inputs")) - before)
    res.append(["manual %d" % case, [new, [observe_file("inputs/" + f) for f in new]]])
    for f in new:
        os.remove("inputs/" + f)
out["manual"] = res

# ---------------------------------------------------------------- the random board
res = []
for seed in (0, 1, 2, 47, 12345):
    for length, width in ((1, 1), (1, 4), (4, 1), (3, 3), (5, 7)):
        for fd in (False, True):
            for plt in (1e-9, 0.3, 0.999999):
                for mr in (1, 6, 60):
                    res.append(["rnd %d %dx%d %s %s %s" % (seed, length, width, fd, plt, mr),
                                repr(rg.gen_rnd_board(seed, length, width, plt, mr, fd))])
            _rnd.seed(seed)
            res.append(["moves %d %dx%d %s" % (seed, length, width, fd),
                        repr(rg.get_random_moves(length, width, fd))])
res.append(["prob_to_str", repr([rg.prob_to_str(p) for p in (0.001, 0.004, 0.005, 0.015, 0.1,
                                                               0.295, 0.5, 0.995, 0.999)])])
out["rnd"] = res

EXTRA_HOOK

json.dump(out, sys.stdout)
'''

EXTRA = ""


def run_tree(root, worker_path):
    with tempfile.TemporaryDirectory() as workdir:
        env = dict(os.environ, PYTHONHASHSEED="0", PYTHONDONTWRITEBYTECODE="1")
        env.pop("PYTHONPATH", None)
        proc = subprocess.run([sys.executable, worker_path, os.path.abspath(root), workdir],
                              capture_output=True, text=True, env=env)
    if proc.returncode != 0:
        print("worker failed for", root)
        print(proc.stderr[-4000:])
        print("FAIL")
        sys.exit(1)
    return json.loads(proc.stdout)


def main():
    if len(sys.argv) != 3:
        print(__doc__)
        sys.exit(2)
    patched_root, clean_root = sys.argv[1], sys.argv[2]
    with tempfile.TemporaryDirectory() as tmp:
        worker_path = os.path.join(tmp, "c08_worker.py")
        with open(worker_path, "w") as f:
            f.write(WORKER.replace("EXTRA_HOOK", EXTRA))
        patched = run_tree(patched_root, worker_path)
        clean = run_tree(clean_root, worker_path)

    failures = 0
    total = 0
    for section in sorted(set(patched) | set(clean)):
        a, b = patched.get(section), clean.get(section)
        if a is None or b is None or len(a) != len(b):
            print("section %s: different number of cases" % section)
            failures += 1
            continue
        bad = [(x, y) for x, y in zip(a, b) if x != y]
        total += len(a)
        print("section %-9s %6d cases, %d differences" % (section, len(a), len(bad)))
        for x, y in bad[:5]:
            print("   case   :", x[0])
            print("   patched:", str(x[1])[:600])
            print("   clean  :", str(y[1])[:600])
        failures += len(bad)
    print("%d cases compared" % total)
    if failures:
        print("FAIL")
        sys.exit(1)
    print("PASS")


if __name__ == "__main__":
    main()
