#!/usr/bin/env python
"""
Equivalence test for C01 / variant 2 (opt-in reachability diagnostics:
tad.ReachDiagnostics, Solver.reachability_residual / reachability_diagnostics,
StochasticGame.solve(diagnostics=...), run_games(diagnostics=...), --diagnostics/-d and
the extra report lines).

usage: python equiv_test.py <path-to-patched-root> <path-to-clean-root>

The two trees are loaded in separate subprocesses (same module names).  Both solve
the same pickled collection of games and dump, as repr() strings (so that 1 / 1.0 /
1.0000000000000002 are all told apart):

  * StochasticGame.solve() - the whole 8-tuple, or the exception - for pruning on/off;
  * Solver(threshold=t).solve_reachability + every Node.reach_probability and
    expected_reach_min_rewards, for several thresholds, pruning on/off;
  * reverse_dfs(transition_list, final_states);
  * one isolated Bellman step Node.value_iteration_reach on a non-trivial vector;
  * Solver.value_iteration_reachability called directly with unusual sweep sets
    (empty, descending, with repetitions, a tuple, negative indices);
  * the DEBUG log text of a solve;
  * conditionalrewards.run_games() results (minus the timing) and the report file
    written by save_results_to_file (minus the "Total time" line).

Everything above is done with the new option left at its default.  The tree that has
the option (the patched one) additionally produces
  * "...|diag" records: solve(diagnostics=True) and run_games(diagnostics=True) + report,
    with the new result entry / the new report lines taken out - they must be equal to
    the clean tree's records without the option;
  * "...|selfcheck" records, "OK" iff taking the diagnostics changed no probability, no
    transition and no strategy, the record agrees with the solver (sweeps == iterations,
    swept == what reverse_dfs returned, zero count, 0 <= last change <= threshold,
    residual >= 0 and repeatable) and the driver entry is present exactly when solved.

Independently of the comparison, the patched answers are checked against what the
property demands exactly: finals report exactly 1, states without a path to a final
report exactly 0, every value is in [0, 1 + 1e-12] and below an independent
long in-place iteration from below + 1e-9; pruning on/off give the same list.
"""
import glob
import json
import os
import pickle
import random
import subprocess
import sys
import tempfile

P1, P2, PR = "Player 1", "Player 2", "Probabilistic"
THRESHOLDS = [1e-6, 1e-3, 1e-9, 0.5, 1e-12]
BIG_BOARDS = ["robot_41_w10_l5_r6_rb10_lb10_tb10_lt30_force_down",
              "robot_47_w10_l5_r6_rb10_lb10_tb10_lt30_force_down",
              "robot_47_w20_l10_r6_rb10_lb10_tb10_lt30"]


# --------------------------------------------------------------------------- games

def distribution(rng, k):
    style = rng.randrange(7)
    if k == 1:
        return [rng.choice([1, 1.0])]
    if style == 0:
        raw = [rng.random() + 1e-3 for _ in range(k)]
        total = sum(raw)
        return [r / total for r in raw]
    if style == 1:
        return [1 / k] * k
    if style == 2:
        eps = rng.choice([1e-9, 1e-6, 1e-3, 0.01])
        rest = [eps] * (k - 1)
        return [1 - eps * (k - 1)] + rest
    if style == 3:
        eps = rng.choice([1e-9, 1e-4, 0.05])
        rest = [eps] * (k - 1)
        return rest + [1 - eps * (k - 1)]
    if style == 4:
        probs = [0.5 ** (j + 1) for j in range(k)]
        probs[-1] *= 2
        return probs
    if style == 5:
        tenths = [1] * k
        for _ in range(10 - k):
            tenths[rng.randrange(k)] += 1
        return [t / 10 for t in tenths]
    cuts = sorted(rng.random() for _ in range(k - 1))
    probs = [b - a for a, b in zip([0] + cuts, cuts + [1])]
    return [max(p, 1e-12) for p in probs]


def random_game(rng, n=None):
    n = n or rng.choice([3, 3, 4, 5, 6, 8, 10, 12, 15, 20, 30, 40])
    weights = rng.choice([(1, 1, 1), (3, 1, 1), (1, 3, 1), (1, 1, 3), (0, 0, 1),
                          (1, 1, 0), (1, 0, 1), (0, 1, 1), (1, 0, 0), (0, 1, 0)])
    players = rng.choices([P1, P2, PR], weights=weights, k=n)
    n_final = rng.choice([1, 1, 1, 2, 3, max(1, n // 4)])
    finals = rng.sample(range(n), min(n_final, n))
    if rng.random() < 0.2:
        finals = finals + [finals[0]]          # a repeated final state
    dead = set()
    if rng.random() < 0.6:
        candidates = [s for s in range(n) if s not in finals]
        dead = set(rng.sample(candidates, rng.randrange(0, len(candidates) // 2 + 1)))
    local = rng.random() < 0.4
    max_degree = rng.choice([1, 2, 2, 3, 4])
    transition_list = []
    for s in range(n):
        k = rng.randint(1, max_degree)
        if s in dead:
            pool = sorted(dead)
        elif local:
            pool = [t for t in range(max(0, s - 2), min(n, s + 4))]
        else:
            pool = list(range(n))
        if s in finals and rng.random() < 0.5:
            targets = [s]                           # absorbing final
        else:
            targets = [rng.choice(pool) for _ in range(k)]   # repetitions allowed: ties
        if players[s] == PR:
            probs = distribution(rng, len(targets))
            transition_list.append(list(zip(probs, targets)))
        else:
            transition_list.append([(f"a{j}", t) for j, t in enumerate(targets)])
    # positive rewards on a cycle make the (unrelated) total-rewards phase of solve()
    # run forever, so most games carry no rewards; see SCREEN for the others
    if rng.random() < 0.85:
        rewards = [0] * n
    else:
        rewards = [rng.choice([0, 0, 0, 1, 2, 5]) for _ in range(n)]
    return {"rewards": rewards, "players": players,
            "transition_list": transition_list, "final_states": finals}


def boundary_games():
    games = {}

    def add(name, players, transitions, finals, rewards=None):
        games[name] = {"rewards": rewards or [0] * len(players), "players": players,
                       "transition_list": transitions, "final_states": finals}

    for kind in (P1, P2):
        add(f"three_{kind[-1]}_choice", [kind, PR, PR],
            [[("a", 1), ("b", 2)], [(1, 1)], [(1, 2)]], [1])
        add(f"three_{kind[-1]}_selfloop_escape", [kind, PR, PR],
            [[("stay", 0), ("go", 1)], [(1, 1)], [(1.0, 2)]], [1])
        add(f"three_{kind[-1]}_tie", [kind, PR, PR],
            [[("a", 1), ("b", 1), ("c", 2)], [(0.5, 2), (0.5, 1)], [(1, 2)]], [2])
        add(f"end_component_{kind[-1]}", [kind, kind, PR, PR],
            [[("a", 1), ("x", 2)], [("b", 0), ("y", 3)], [(1, 2)], [(1, 3)]], [2])
    add("three_prob", [PR, PR, PR], [[(0.5, 1), (0.5, 2)], [(1, 1)], [(1, 2)]], [1])
    add("initial_is_final", [PR, PR, PR], [[(0.5, 1), (0.5, 2)], [(1, 1)], [(1, 2)]], [0])
    add("all_final", [P1, P2, PR], [[("a", 1)], [("b", 2)], [(1, 0)]], [0, 1, 2])
    add("final_not_absorbing_into_dead", [PR, PR, PR],
        [[(1, 1)], [(1, 2)], [(1, 2)]], [1])
    add("initial_dead", [PR, PR, PR], [[(1, 0)], [(1, 2)], [(1, 2)]], [2])
    add("initial_dead_p1", [P1, PR, PR], [[("a", 0)], [(1, 2)], [(1, 2)]], [2])
    # convergence that needs many sweeps (eps 1e-1 .. 1e-3) or that stalls below the
    # threshold at once (1e-5, 1e-7: only solved with the thresholds they stall at,
    # see thresholds_for)
    for eps in (1e-1, 1e-2, 1e-3, 1e-5, 1e-7):
        add(f"slow_selfloop_{eps}", [PR, PR, PR],
            [[(1 - eps, 0), (eps / 2, 1), (eps / 2, 2)], [(1, 1)], [(1, 2)]], [1])
        add(f"slow_cycle_{eps}", [PR, PR, PR, PR],
            [[(1.0, 1)], [(1 - eps, 0), (eps, 2)], [(1, 2)], [(1, 3)]], [2])
    add("sum_above_one_by_rounding", [PR, PR, PR, PR],
        [[(0.1, 1), (0.2, 1), (0.3, 1), (0.4, 1)], [(1, 1)], [(1, 2)], [(0.7, 1), (0.1, 1), (0.2, 1)]],
        [1])
    add("p1_over_rounded", [P1, PR, PR, PR, PR],
        [[("a", 1), ("b", 2)], [(0.7, 4), (0.1, 4), (0.2, 4)], [(0.1, 4), (0.2, 4), (0.7, 4)],
         [(1, 3)], [(1, 4)]], [4])
    add("p2_over_rounded", [P2, PR, PR, PR, PR],
        [[("a", 1), ("b", 2)], [(0.7, 4), (0.1, 4), (0.2, 4)], [(0.1, 4), (0.2, 4), (0.7, 4)],
         [(1, 3)], [(1, 4)]], [4])
    # descending numbering: Gauss-Seidel needs many sweeps
    n = 12
    add("chain_descending", [PR] * n,
        [[(1, n - 1)]] + [[(1, 1)]] + [[(0.5, s - 1), (0.5, s)] for s in range(2, n)], [1])
    add("chain_players", [P1, P2] * 5 + [PR, PR],
        [[(f"f", s + 1), ("back", max(0, s - 1))] for s in range(10)] + [[(1, 10)], [(1, 11)]], [10])
    return games


def thresholds_for(name, game):
    """Tiny probabilities make the iteration crawl: such games are only solved with
    the thresholds at which it stops (or stalls) in reasonable time."""
    tiny = any(isinstance(p, float) and (p < 1e-3 or 1 - 1e-3 < p < 1)
               for trans in game["transition_list"] for p, _ in trans)
    if tiny or len(game["players"]) > 100:
        return [1e-6, 1e-3, 0.5]
    return THRESHOLDS


def build_games():
    rng = random.Random(20261004)
    games = dict(boundary_games())
    for i in range(420):
        games[f"rnd_{i}"] = random_game(rng)
    for i in range(6):
        games[f"rnd_big_{i}"] = random_game(rng, n=rng.choice([120, 250, 400]))
    return games


# -------------------------------------------------------------------------- runner

RUNNER = r'''
import sys, os, io, json, pickle, copy, logging
root, games_file, out_file = sys.argv[1:4]
sys.path.insert(0, root)
import tad, reverse_dfs, conditionalrewards
assert os.path.dirname(os.path.abspath(tad.__file__)) == os.path.abspath(root), tad.__file__
with open(games_file, "rb") as f:
    payload = pickle.load(f)
games, thresholds, file_dicts = payload["games"], payload["thresholds"], payload["file_dicts"]
solvable = set(payload["solvable"])
out = {}

def guarded(fn):
    try:
        return repr(fn())
    except Exception as e:
        return "EXC " + type(e).__name__ + ": " + str(e)

def solve_full(game, prune):
    g = copy.deepcopy(game)
    return tad.StochasticGame(prune_states=prune, **g).solve()

DIAG = hasattr(tad, "ReachDiagnostics")

def solve_full_diag(game, prune):
    g = copy.deepcopy(game)
    sg = tad.StochasticGame(prune_states=prune, **g)
    assert sg.reach_diagnostics is None
    try:
        res = sg.solve(diagnostics=True)
    except ValueError:
        assert sg.reach_diagnostics is None
        raise
    d = sg.reach_diagnostics
    assert isinstance(d, tad.ReachDiagnostics) and d.sweeps == res[4], d
    res2 = sg.solve()
    assert sg.reach_diagnostics is None and repr(res2) == repr(res)
    return res

def selfcheck(game, prune, threshold):
    g = copy.deepcopy(game)
    sg = tad.StochasticGame(prune_states=prune, **g)
    sg.check_game()
    states = sg.init_states()
    solver = tad.Solver(threshold=threshold, state_list=states)
    if solver.reachability_residual() != 0 or solver.reachability_diagnostics().swept_states != 0:
        return "fresh solver has diagnostics"
    try:
        strategies, iterations = solver.solve_reachability(
            sg.transition_list, sg.final_states, prune)
    except ValueError:
        strategies, iterations = None, solver.reach_sweeps
    def snapshot():
        return repr(([s.reach_probability for s in states],
                     [s.expected_reach_min_rewards for s in states],
                     [s.expected_rewards for s in states],
                     [s.next_states for s in states],
                     solver._get_reachability_strategies()))
    before = snapshot()
    d = solver.reachability_diagnostics()
    r1 = solver.reachability_residual()
    r2 = solver.reachability_residual()
    if snapshot() != before:
        return "taking the diagnostics changed the solver state"
    swept = reverse_dfs.reverse_dfs(sg.transition_list, sg.final_states)
    zeros = sum(1 for s in states if s.reach_probability == 0)
    checks = [d.sweeps == iterations, d.swept_states == len(swept), d.zero_states == zeros,
              0 <= d.last_change <= threshold, d.residual >= 0, d.residual == r1 == r2,
              d.residual == d.residual, tuple(d) == (d.sweeps, d.last_change, d.residual,
                                                     d.swept_states, d.zero_states)]
    return "OK" if all(checks) else f"bad record {d} {checks} it={iterations}"

def solve_reach(game, prune, threshold):
    g = copy.deepcopy(game)
    sg = tad.StochasticGame(prune_states=prune, **g)
    sg.check_game()
    states = sg.init_states()
    solver = tad.Solver(threshold=threshold, state_list=states)
    try:
        res = solver.solve_reachability(sg.transition_list, sg.final_states, prune)
    except ValueError as e:
        res = "EXC " + str(e)
    return (res, [s.reach_probability for s in states],
            [s.expected_reach_min_rewards for s in states],
            [s.next_states for s in states])

def one_step(game):
    g = copy.deepcopy(game)
    sg = tad.StochasticGame(**g)
    states = sg.init_states()
    for k, s in enumerate(states):
        if not s.is_final_node:
            s.reach_probability = ((k * 7919) % 13) / 13
    return [s.value_iteration_reach(states) for s in states]

def direct_sweeps(game):
    res = []
    n = len(game["players"])
    finals = game["final_states"]
    # (a sweep set holding a final state is not used: the iteration need not stop then)
    free = [s for s in range(n) if s not in finals]
    sweeps = [[], free[::-1], free * 2, tuple(free[::2]), [s - n for s in free], free[:1] * 3]
    for sweep in sweeps:
        g = copy.deepcopy(game)
        states = tad.StochasticGame(**g).init_states()
        solver = tad.Solver(states)
        try:
            it = solver.value_iteration_reachability(sweep, False)
        except ValueError as e:
            it = "EXC " + str(e)
        res.append((it, [s.reach_probability for s in states]))
    return res

def debug_log(game):
    root_logger = logging.getLogger()
    stream = io.StringIO()
    handler = logging.StreamHandler(stream)
    handler.setFormatter(logging.Formatter("%(levelname)s %(message)s"))
    root_logger.addHandler(handler)
    old = root_logger.level
    root_logger.setLevel(logging.DEBUG)
    try:
        r = guarded(lambda: solve_full(game, True))
    finally:
        root_logger.setLevel(old)
        root_logger.removeHandler(handler)
    return (r, stream.getvalue())

for name, game in games.items():
    for prune in (True, False):
        if name in solvable:
            out[f"{name}|solve|{prune}"] = guarded(lambda: solve_full(game, prune))
            if DIAG:
                out[f"{name}|solve|{prune}|diag"] = guarded(lambda: solve_full_diag(game, prune))
        if DIAG:
            for t in thresholds[name][:3]:
                out[f"{name}|{prune}|{t}|selfcheck"] = guarded(lambda: selfcheck(game, prune, t)).strip("'")
        for t in thresholds[name]:
            out[f"{name}|reach|{prune}|{t}"] = guarded(lambda: solve_reach(game, prune, t))
    out[f"{name}|rdfs"] = guarded(
        lambda: reverse_dfs.reverse_dfs(game["transition_list"], game["final_states"]))
    out[f"{name}|step"] = guarded(lambda: one_step(game))
    if len(game["players"]) <= 12:
        out[f"{name}|direct"] = guarded(lambda: direct_sweeps(game))
        if name in solvable:
            out[f"{name}|debuglog"] = guarded(lambda: debug_log(game))

# driver + report (cwd is a scratch folder that has an outputs/ directory)
def strip_times(results):
    return {n: {k: v for k, v in r.items() if k != "total_time"} for n, r in results.items()}

def driver(tag, games_dict, diagnostics=False):
    if diagnostics:
        results = conditionalrewards.run_games(copy.deepcopy(games_dict), diagnostics=True)
        for n, r in results.items():
            d = r["reach_diagnostics"]
            assert (d is not None) == (r["msg"] == "Game solved"), (n, r["msg"], d)
            assert d is None or d["sweeps"] == r["n_iterations_reach"], (n, d)
    else:
        results = conditionalrewards.run_games(copy.deepcopy(games_dict))
    conditionalrewards.save_results_to_file(results, f"inputs/{tag}.py")
    with open(f"outputs/{tag}.txt") as f:
        report = [line for line in f.read().split("\n") if not line.startswith("Total time")]
    if diagnostics:
        n_new = sum(1 for line in report if line.startswith("Reach "))
        expected = sum(4 if r["reach_diagnostics"] else 1 for r in results.values())
        assert n_new == expected, (n_new, expected)
        report = [line for line in report if not line.startswith("Reach ")]
        results = {n: {k: v for k, v in r.items() if k != "reach_diagnostics"}
                   for n, r in results.items()}
    else:
        assert not any("reach_diagnostics" in r for r in results.values())
        assert not any(line.startswith("Reach ") for line in report)
    return (list(results), strip_times(results), report)

small = {n: g for n, g in games.items() if len(g["players"]) <= 40 and n in solvable}
names = sorted(small)
for b in range(0, len(names), 40):
    batch = {n: small[n] for n in names[b:b + 40]}
    out[f"driver|batch{b}"] = guarded(lambda: driver(f"batch{b}", batch))
    if DIAG:
        out[f"driver|batch{b}|diag"] = guarded(lambda: driver(f"batch{b}_diag", batch, True))
for tag, d in file_dicts.items():
    out[f"driver|file|{tag}"] = guarded(lambda: driver(tag, d))
    if DIAG:
        out[f"driver|file|{tag}|diag"] = guarded(lambda: driver(tag + "_diag", d, True))

with open(out_file, "w") as f:
    json.dump(out, f)
'''


# The total-rewards phase that follows the reachability phase in solve() does not
# terminate on every game (rewards collected forever on a cycle).  This is unrelated to
# the property; such games are found on the clean tree and only take part in the
# records that stop after the reachability phase.
SCREEN = r'''
import sys, json, pickle, copy, signal
root, games_file, out_file = sys.argv[1:4]
sys.path.insert(0, root)
import tad
with open(games_file, "rb") as f:
    games = pickle.load(f)["games"]
class TimeOut(BaseException):
    pass
def on_alarm(*args):
    raise TimeOut()
signal.signal(signal.SIGALRM, on_alarm)
ok = []
for name, game in games.items():
    fine = True
    for prune in (True, False):
        signal.setitimer(signal.ITIMER_REAL, 1.0)
        try:
            tad.StochasticGame(prune_states=prune, **copy.deepcopy(game)).solve()
        except TimeOut:
            fine = False
        except Exception:
            pass
        finally:
            signal.setitimer(signal.ITIMER_REAL, 0)
        if not fine:
            break
    if fine:
        ok.append(name)
with open(out_file, "w") as f:
    json.dump(ok, f)
'''


def run_script(script, root, payload_file, workdir, tag):
    cwd = os.path.join(workdir, tag)
    os.makedirs(os.path.join(cwd, "outputs"))
    out_file = os.path.join(workdir, f"{tag}.json")
    runner = os.path.join(workdir, f"runner_{tag}.py")
    with open(runner, "w") as f:
        f.write(script)
    env = dict(os.environ, PYTHONDONTWRITEBYTECODE="1", PYTHONHASHSEED="0")
    env.pop("PYTHONPATH", None)
    proc = subprocess.run([sys.executable, runner, os.path.abspath(root), payload_file, out_file],
                          cwd=cwd, env=env, capture_output=True, text=True)
    if proc.returncode != 0:
        print(proc.stdout[-2000:])
        print(proc.stderr[-4000:])
        raise SystemExit(f"FAIL: {tag} script crashed on {root}")
    with open(out_file) as f:
        return json.load(f)


# ---------------------------------------------------- independent sanity reference

def reference_check(games, results):
    """What the property states exactly, checked on the patched answers."""
    problems = []
    unconverged = []
    for name, game in games.items():
        n = len(game["players"])
        finals = set(game["final_states"])
        trans = game["transition_list"]
        # states with a path to a final (forward fixpoint, independent of reverse_dfs)
        can = set(finals)
        changed = True
        while changed:
            changed = False
            for s in range(n):
                if s not in can and any(t in can for _, t in trans[s]):
                    can.add(s)
                    changed = True
        # In-place iteration from below in ascending order, far beyond the solver's
        # threshold: monotone in the number of sweeps, hence an upper bound of what a
        # correct solver may report (and itself a lower bound of the true value).
        v = [1.0 if s in finals else 0.0 for s in range(n)]
        converged = False
        for _ in range(max(20000, 6000000 // n)):
            delta = 0.0
            for s in range(n):
                if s in finals or s not in can:
                    continue
                vals = [v[t] for _, t in trans[s]]
                if game["players"][s] == P1:
                    new = max(vals)
                elif game["players"][s] == P2:
                    new = min(vals)
                else:
                    new = sum(p * v[t] for p, t in trans[s])
                delta = max(delta, abs(new - v[s]))
                v[s] = new
            if delta < 1e-12:
                converged = True
                break
        if not converged:
            unconverged.append(name)
        per_mode = {}
        for prune in (True, False):
            text = results[f"{name}|reach|{prune}|1e-06"]
            if text.startswith("EXC"):
                problems.append(f"{name}: {text}")
                continue
            probs = eval(text)[1]
            per_mode[prune] = probs
            for s in range(n):
                if s in finals and not (probs[s] == 1):
                    problems.append(f"{name}: final {s} reports {probs[s]!r}")
                if s not in can and not (probs[s] == 0):
                    problems.append(f"{name}: dead {s} reports {probs[s]!r}")
                if not (0 <= probs[s] <= 1 + 1e-12):
                    problems.append(f"{name}: state {s} out of range {probs[s]!r}")
                if converged and s not in finals and probs[s] > v[s] + 1e-9:
                    problems.append(f"{name}: state {s} {probs[s]!r} above reference {v[s]!r}")
        if len(per_mode) == 2 and repr(per_mode[True]) != repr(per_mode[False]):
            problems.append(f"{name}: pruning changes the probabilities")
    if unconverged:
        print(f"(reference iteration not converged, upper-bound check skipped: {unconverged})")
    return problems


def main():
    if len(sys.argv) != 3:
        raise SystemExit(__doc__)
    patched, clean = sys.argv[1], sys.argv[2]
    games = build_games()
    file_dicts = {}
    for path in sorted(glob.glob(os.path.join(clean, "inputs", "*.py"))):
        tag = os.path.basename(path)[:-3]
        with open(path) as f:
            content = f.read()
        # whole files through the driver: the ones the repository has a report for and
        # that the clean tree solves in a few seconds
        if (os.path.exists(os.path.join(clean, "outputs", tag + ".txt"))
                and len(content) < 70000 and not tag.startswith("robot_41_")):
            file_dicts[tag] = eval(content)
        # generator boards with hundreds / thousands of states: reachability phase only
        # (the screening finds out that their total-rewards phase takes too long)
        elif tag in BIG_BOARDS:
            for game_name, game in eval(content).items():
                game.pop("prune_states", None)
                games[f"board_{tag}_{game_name}"] = game
    with tempfile.TemporaryDirectory() as workdir:
        payload_file = os.path.join(workdir, "payload.pkl")
        payload = {"games": games, "file_dicts": file_dicts,
                   "thresholds": {n: thresholds_for(n, g) for n, g in games.items()}}
        with open(payload_file, "wb") as f:
            pickle.dump(payload, f)
        payload["solvable"] = run_script(SCREEN, clean, payload_file, workdir, "screen")
        with open(payload_file, "wb") as f:
            pickle.dump(payload, f)
        res_patched = run_script(RUNNER, patched, payload_file, workdir, "patched")
        res_clean = run_script(RUNNER, clean, payload_file, workdir, "clean")

    failures = []
    extra = {k for k in res_patched if k.endswith("|diag") or k.endswith("|selfcheck")}
    n_diag = n_self = 0
    if set(res_patched) - extra != set(res_clean):
        failures.append(f"different record sets: {(set(res_patched) - extra) ^ set(res_clean)}")
    for key in sorted(set(res_patched) & set(res_clean)):
        if res_patched[key] != res_clean[key]:
            failures.append(f"{key}\n   patched: {res_patched[key][:300]}\n   clean  : {res_clean[key][:300]}")
    for key in sorted(extra):
        if key.endswith("|diag"):
            n_diag += 1
            base = key[:-len("|diag")]
            if res_patched[key] != res_clean.get(base):
                failures.append(f"{key}\n   patched: {res_patched[key][:300]}\n"
                                f"   clean  : {str(res_clean.get(base))[:300]}")
        else:
            n_self += 1
            if res_patched[key] != "OK":
                failures.append(f"{key}: {res_patched[key][:300]}")
    if not n_diag or not n_self:
        failures.append("the patched tree has no diagnostics option")
    print(f"{n_diag} records with the option on compared with the clean tree, {n_self} self checks")
    failures += reference_check(games, res_patched)

    n_exc = sum(1 for k, v in res_clean.items() if "|solve|" in k and v.startswith("EXC"))
    print(f"{len(games)} games ({len(payload['solvable'])} with a terminating total-rewards phase), "
          f"{len(file_dicts)} input files, {len(res_clean)} records compared "
          f"({n_exc} solve records are exceptions)")
    if failures:
        for failure in failures[:25]:
            print("DIFF", failure)
        print(f"FAIL ({len(failures)} differences)")
        sys.exit(1)
    print("PASS")


if __name__ == "__main__":
    main()
