#!/usr/bin/env python
"""
Behavioural equivalence test for property C04 (reachability strategies list exactly
the value-optimal actions).

usage:  python equiv_test.py <path-to-patched-root> <path-to-clean-root>

Both trees are loaded in separate subprocesses (this same file, started with --child).
Each child runs the same deterministic battery of cases and dumps, for every case, the
repr() of the result or "EXC <type>: <message>".  The parent compares the two dumps and
prints PASS (exit 0) when nothing differs, FAIL (exit 1) otherwise.

Battery
  A. several hundred random well-formed games (cycles through probabilistic states,
     several finals, dead states, duplicate action names, exact rational ties reached
     through different floating-point sums), both pruning modes: the staged pipeline
     (check/init/Solver/solve_reachability/prune/solve_total_rewards) and the plain
     StochasticGame.solve().
  B. direct calls of PlayerOne.get_best_strategies_reachability /
     PlayerTwo.get_worst_strategies_reachability (and the total-rewards siblings) on
     hand-made successor values: exact ties, values closer than the rounding, rounding
     boundaries, all zeros, all ones, -0.0, negatives, >1, nan, inf, ints vs floats,
     0..6 actions, several precisions; Solver.__init__ for many thresholds;
     Solver._get_reachability_strategies on odd hand-built state lists.
  C. malformed games through solve().
  D. conditionalrewards.run_games / save_results_to_file on random converging games and
     on the shipped example files (total_time neutralised).

Every solve has a deterministic budget (number of logging.debug calls made by the value
iterations; the clean tree does not converge on some non-stopping games) and a
wall-clock alarm as a last resort.
"""
import copy
import json
import math
import os
import random
import shutil
import signal
import subprocess
import sys
import tempfile

DEBUG_BUDGET = 12000      # logging.debug calls per solve
WALL_SECONDS = 10         # last-resort alarm per case
CHILD_TIMEOUT = 150

P1, P2, PR = "Player 1", "Player 2", "Probabilistic"


# --------------------------------------------------------------------------- child side

class _Budget(BaseException):
    pass


class _WallClock(BaseException):
    pass


class _LoggingProxy:
    """Stands in for the logging module inside tad / conditionalrewards."""
    DEBUG = 10
    INFO = 20

    def __init__(self, real):
        self._real = real
        self.count = 0
        self.limit = DEBUG_BUDGET

    def reset(self):
        self.count = 0

    def debug(self, *a, **k):
        self.count += 1
        if self.count > self.limit:
            raise _Budget()

    def info(self, *a, **k):
        pass

    def error(self, *a, **k):
        pass

    def warning(self, *a, **k):
        pass

    def getLogger(self, *a, **k):
        return self._real.getLogger(*a, **k)

    def basicConfig(self, *a, **k):
        pass


def _alarm(signum, frame):
    raise _WallClock()


def outcome(fn):
    """repr of the result, or a description of the exception."""
    signal.alarm(WALL_SECONDS)
    try:
        return repr(fn())
    except _Budget:
        return "BUDGET"
    except _WallClock:
        return "WALLCLOCK"
    except Exception as e:  # noqa
        return "EXC %s: %s" % (type(e).__name__, e)
    finally:
        signal.alarm(0)


# ---- game generators (independent of the tree under test)

def rand_probs(rng, k):
    style = rng.randrange(4)
    if style == 0:
        w = [rng.randint(1, 5) for _ in range(k)]
        s = sum(w)
        return [x / s for x in w]
    if style == 1:
        # tenths: sums such as 0.1+0.2 != 0.3 in floating point
        cuts = sorted(rng.sample(range(1, 10), k - 1)) if k > 1 else []
        parts = [b - a for a, b in zip([0] + cuts, cuts + [10])]
        return [p / 10 for p in parts]
    if style == 2:
        w = [rng.random() + 0.01 for _ in range(k)]
        s = sum(w)
        return [x / s for x in w]
    # tiny and near-one probabilities
    if k == 1:
        return [1]
    eps = rng.choice([1e-3, 1e-7, 1e-9, 0.25])
    rest = (1 - eps) / (k - 1)
    return [eps] + [rest] * (k - 1)


ACTIONS = ["a", "b", "c", "d", "e", "f"]


def random_game(rng):
    n = rng.randint(2, 10)
    players = [rng.choice([P1, P2, PR, PR]) for _ in range(n)]
    if rng.random() < 0.5:
        players[0] = rng.choice([P1, P2])
    n_final = rng.randint(1, min(3, n - 1))
    finals = rng.sample(range(1, n), n_final)
    if rng.random() < 0.1:
        finals = finals + [finals[0]]
    dead = set()
    for s in range(1, n):
        if s not in finals and rng.random() < 0.2:
            dead.add(s)
    tl = []
    for s in range(n):
        if s in dead or (s in finals and rng.random() < 0.7):
            tl.append([(1, s)] if players[s] == PR else [("stay", s)])
            continue
        k = rng.randint(1, 4)
        targets = [rng.randrange(n) for _ in range(k)]
        if players[s] == PR:
            tl.append(list(zip(rand_probs(rng, k), targets)))
        else:
            names = ACTIONS[:k]
            if rng.random() < 0.1:
                names = [rng.choice(names) for _ in range(k)]   # duplicate action names
            tl.append(list(zip(names, targets)))
    rewards = [rng.choice([0, 0, 1, 2, 5, 0.5, 5 / 3]) for _ in range(n)]
    return {"rewards": rewards, "players": players, "transition_list": tl,
            "final_states": finals}


def tie_game(rng):
    """
    A root (and a second decision state) choosing among probabilistic gadgets whose
    true values are equal rationals reached through different float sums, mixed with
    clearly better / worse gadgets and dead ends.
    """
    FINAL, DEAD = 1, 2
    players = [rng.choice([P1, P2]), PR, PR]
    tl = [None, [(1, FINAL)], [(1, DEAD)]]
    rewards = [0, 0, 0]
    target = rng.choice([3, 4, 5, 6, 7])           # common value target/10

    def add(player, trans, reward=0):
        players.append(player)
        tl.append(trans)
        rewards.append(reward)
        return len(players) - 1

    def split(total, rng):
        parts = []
        left = total
        while left > 0:
            p = rng.randint(1, left)
            parts.append(p)
            left -= p
        return parts

    gadgets = []
    k = rng.randint(2, 5)
    for _ in range(k):
        kind = rng.randrange(7)
        if kind <= 2:       # equal value, different float path
            good = split(target, rng)
            bad = split(10 - target, rng)
            trans = [(g / 10, FINAL) for g in good] + [(b / 10, DEAD) for b in bad]
            rng.shuffle(trans)
            gadgets.append(add(PR, trans, rng.choice([0, 1, 3])))
        elif kind == 3:     # equal value through a probabilistic self-loop: x = .5x + t/20
            me = len(players)
            trans = [(0.5, me), (target / 20, FINAL), ((10 - target) / 20, DEAD)]
            gadgets.append(add(PR, trans, rng.choice([0, 1])))
        elif kind == 4:     # clearly different value
            other = rng.choice([v for v in range(0, 11) if v != target])
            trans = [(t, s) for t, s in [(other / 10, FINAL), ((10 - other) / 10, DEAD)] if t > 0]
            gadgets.append(add(PR, trans, rng.choice([0, 2])))
        elif kind == 5:     # straight to dead / final
            gadgets.append(rng.choice([FINAL, DEAD, DEAD]))
        else:               # two-step chain: 0.5*(2t/10 capped) ...
            inner = add(PR, [(target / 10, FINAL), ((10 - target) / 10, DEAD)])
            who = rng.choice([P1, P2, PR])
            gadgets.append(add(who, [(1, inner)] if who == PR else [("go", inner)]))
    names = ACTIONS[:len(gadgets)]
    tl[0] = list(zip(names, gadgets))
    # a second decision state of the other kind, looking at the same gadgets in another order
    other_player = P2 if players[0] == P1 else P1
    order = gadgets[:]
    rng.shuffle(order)
    second = add(other_player, list(zip(ACTIONS[:len(order)], order)), 1)
    if rng.random() < 0.5:
        tl[0] = tl[0] + [("z", second)]
    else:
        add(PR, [(0.5, second), (0.5, 0)])
    finals = [FINAL]
    return {"rewards": rewards, "players": players, "transition_list": tl,
            "final_states": finals}


def all_zero_game(rng):
    """Decision states all of whose successors have value 0 / all 1."""
    players = [rng.choice([P1, P2]), PR, PR, rng.choice([P1, P2]), rng.choice([P1, P2])]
    tl = [[("a", 3), ("b", 4), ("c", 0)],
          [(1, 1)],
          [(1, 2)],
          [("x", 2), ("y", 2), ("z", 3)],
          [("x", 1), ("y", 1)]]
    if rng.random() < 0.5:
        tl[0] = [("a", 3), ("b", 3)]
    return {"rewards": [0, 0, 1, 2, 0], "players": players, "transition_list": tl,
            "final_states": [1]}


# ---- batteries

def staged(tad, game, prune, proxy):
    proxy.reset()
    g = tad.StochasticGame(prune_states=prune, **copy.deepcopy(game))
    g.check_game()
    sl = g.init_states()
    solver = tad.Solver(threshold=10 ** (-6), state_list=sl)
    out = []
    strat, n_it = solver.solve_reachability(g.transition_list, g.final_states, prune)
    out.append(("reach", strat, n_it, [s.reach_probability for s in sl], solver.floor))
    # the property's own statement, evaluated inside each tree
    solver.prune_reachability(strat)
    if prune:
        solver.prune_stochastich_game()
    out.append(("pruned", [s.next_states for s in sl]))
    proxy.reset()
    try:
        fin, n_rw = solver.solve_total_rewards()
        out.append(("rew", fin, n_rw, [s.expected_rewards for s in sl],
                    [s.expected_rewards_min_reach for s in sl],
                    [s.expected_reach_min_rewards for s in sl]))
    except _Budget:
        out.append("rew BUDGET")
    return out


def battery_games(tad, proxy, results):
    rng = random.Random(20260404)
    games = []
    for i in range(330):
        games.append(("rnd%03d" % i, random_game(rng)))
    for i in range(140):
        games.append(("tie%03d" % i, tie_game(rng)))
    for i in range(12):
        games.append(("zero%02d" % i, all_zero_game(rng)))
    converging = []
    for name, game in games:
        ok = True
        for prune in (True, False):
            r = outcome(lambda: staged(tad, game, prune, proxy))
            results.append(["A/%s/%s/staged" % (name, prune), r])

            def full():
                proxy.reset()
                return tad.StochasticGame(prune_states=prune, **copy.deepcopy(game)).solve()
            r2 = outcome(full)
            results.append(["A/%s/%s/solve" % (name, prune), r2])
            if r2 in ("BUDGET", "WALLCLOCK"):
                ok = False
            # the caller's description must stay untouched
        if ok:
            converging.append((name, game))
    return converging


SPECIAL = [0, 1, 0.0, 1.0, -0.0, 0.5, 0.3, 0.1 + 0.2, 0.30000000000000004, 0.7, 1 - 0.3,
           0.4999994, 0.4999995, 0.4999996, 0.5000004, 0.5000005, 0.5000006,
           0.9999994, 0.9999995, 0.9999996, 0.99999949999, 0.9999999, 1.0000001, 1.0000004,
           1.0000006, 4e-7, 5e-7, 6e-7, 5.000001e-7, 1e-9, 2.5e-6, 0.75, 3 / 4, 0.25 * 3,
           1 / 3, 2 / 6, 0.333333, 0.3333334, 2 / 3, 1 - 1 / 3, -0.2, -1e-9, 1.5, 2,
           float("nan"), float("inf"), float("-inf"), True, False]


class _Stub:
    """A successor: only the attributes the selectors read."""
    def __init__(self, v):
        self.reach_probability = v
        self.expected_rewards = v
        self.expected_rewards_min_reach = v
        self.expected_reach_min_rewards = v


def battery_selectors(tad, proxy, results):
    rng = random.Random(777)
    cases = []
    # systematic small ones
    for vals in [[], [0], [1], [0, 0], [0, 0, 0], [1, 1], [1, 1.0, True], [0, 1], [1, 0],
                 [0.0, -0.0, 0], [0.1 + 0.2, 0.3], [0.3, 0.1 + 0.2, 0.3],
                 [0.5, 0.5000004, 0.4999996], [0.5000004, 0.5, 0.5000006],
                 [0.4999995, 0.5000005, 0.5], [0.2, 0.9, 0.9, 0.1, 0.9],
                 [0.9, 0.2, 0.2, 0.95, 0.2], [float("nan")], [float("nan"), 0, 1],
                 [0, float("nan"), 0], [1, float("nan"), 1], [-0.5, -0.5], [1.5, 1.5],
                 [1.5, 1], [-0.5, 0], [float("inf"), 1], [float("-inf"), 0],
                 [4e-7, 0, 6e-7], [0.9999996, 1, 0.9999994]]:
        cases.append(list(vals))
    for _ in range(700):
        k = rng.randint(0, 6)
        mode = rng.randrange(4)
        if mode == 0:
            vals = [rng.choice(SPECIAL) for _ in range(k)]
        elif mode == 1:
            base = rng.random()
            vals = [base + rng.choice([0, 0, 1e-7, -1e-7, 4e-7, 6e-7, 1e-6, 2e-6, -3e-6, 0.1, -0.1])
                    for _ in range(k)]
        elif mode == 2:
            pool = [rng.randint(0, 10) / 10 for _ in range(2)]
            vals = [rng.choice(pool) for _ in range(k)]
        else:
            # same rational by different sums
            t = rng.randint(1, 9)
            vals = []
            for _ in range(k):
                parts = []
                left = t
                while left:
                    p = rng.randint(1, left)
                    parts.append(p)
                    left -= p
                acc = 0
                for p in parts:
                    acc += p / 10
                vals.append(acc)
        cases.append(vals)
    floors = [6, 6, 6, 0, 1, 3, 7, 9, 12, -1]
    for ci, vals in enumerate(cases):
        k = len(vals)
        stubs = [_Stub(v) for v in vals] + [_Stub(0.123)]
        order = list(range(k))
        rng.shuffle(order)
        names = ACTIONS[:k]
        if k and rng.random() < 0.15:
            names = [rng.choice(names) for _ in range(k)]
        nxt = [(names[j], order[j]) for j in range(k)]
        dummy = [("q", 0)]
        floor = floors[ci % len(floors)] if ci >= 29 else 6
        for cls, player, meths in (
                (tad.PlayerOne, P1, ["get_best_strategies_reachability",
                                     "get_best_strategies_total_rewards",
                                     "value_iteration_reach"]),
                (tad.PlayerTwo, P2, ["get_worst_strategies_reachability",
                                     "get_worst_strategies_total_rewards",
                                     "value_iteration_reach"])):
            for m in meths:
                def call():
                    node = cls(player=player, idx=0, reward=1, next_states=list(dummy),
                               num_states=len(stubs))
                    node.next_states = list(nxt)
                    before = list(node.next_states)
                    if m == "value_iteration_reach":
                        r = getattr(node, m)(stubs)
                    else:
                        r = getattr(node, m)(stubs, floor)
                    return (r, type(r).__name__, node.next_states == before)
                results.append(["B/sel%03d/%s/%s" % (ci, player, m), outcome(call)])

    # malformed successor lists handed to the selectors directly
    bad_lists = [[("a", 0, 1)], [("a",)], ["ab"], [("a", 9)], [("a", -1)], [("a", "0")],
                 [("a", 0), ("b", 9)], [("a", 0), None], None, 5, (("a", 0), ("b", 1)),
                 [["a", 0], ["b", 1]]]
    for bi, bad in enumerate(bad_lists):
        for cls, player, m in ((tad.PlayerOne, P1, "get_best_strategies_reachability"),
                               (tad.PlayerTwo, P2, "get_worst_strategies_reachability")):
            def call():
                node = cls(player=player, idx=0, reward=1, next_states=[("q", 0)], num_states=3)
                node.next_states = copy.deepcopy(bad)
                return getattr(node, m)([_Stub(0.5), _Stub(0.5), _Stub(0.2)], 6)
            results.append(["B/bad%02d/%s" % (bi, player), outcome(call)])
    # odd floors
    for fl in [None, 6.0, "6", 400, -400, True]:
        for cls, player, m in ((tad.PlayerOne, P1, "get_best_strategies_reachability"),
                               (tad.PlayerTwo, P2, "get_worst_strategies_reachability")):
            def call():
                node = cls(player=player, idx=0, reward=1, next_states=[("a", 0), ("b", 1), ("c", 2)],
                           num_states=3)
                return getattr(node, m)([_Stub(0.5), _Stub(0.5000001), _Stub(1)], fl)
            results.append(["B/floor%r/%s" % (fl, player), outcome(call)])

    # Solver.__init__
    thresholds = [10 ** (-k) for k in range(0, 14)] + [1e-6, 1e-3, 0.001, 0.5, 0.05, 2e-7, 9.99e-7,
                  1.0000001e-6, 3e-6, 1, 2, 10, 1000, 1e6, 0.1 + 0.2, 1e-300, 5e-324, 1e308,
                  0, 0.0, -1, -1e-6, float("nan"), float("inf"), "1e-6", None, True, 10 ** (-6)]
    for ti, th in enumerate(thresholds):
        def call():
            s = tad.Solver([], th)
            return (s.floor, type(s.floor).__name__, s.threshold, s.state_list)
        results.append(["B/thr%02d" % ti, outcome(call)])

        def call_kw():
            s = tad.Solver(threshold=th, state_list=[1])
            return (s.floor, s.threshold, s.state_list)
        results.append(["B/thrkw%02d" % ti, outcome(call_kw)])
    results.append(["B/thrdefault", outcome(lambda: (tad.Solver([]).floor, tad.Solver([]).threshold))])
    results.append(["B/thrpos", outcome(lambda: (tad.Solver("sl", 1e-4).floor, tad.Solver("sl", 1e-4).state_list))])

    # Solver._get_reachability_strategies on hand-built lists
    def build(kind):
        mk1 = lambda idx, nxt, n: tad.PlayerOne(player=P1, idx=idx, reward=0, next_states=nxt, num_states=n)
        mk2 = lambda idx, nxt, n: tad.PlayerTwo(player=P2, idx=idx, reward=0, next_states=nxt, num_states=n)
        mkp = lambda idx, nxt, n: tad.ProbabilisticNode(player=PR, idx=idx, reward=0, next_states=nxt,
                                                         num_states=n, is_final_node=False)
        if kind == "plain":
            sl = [mk1(0, [("a", 1), ("b", 2), ("c", 3)], 4), mk2(1, [("a", 2), ("b", 3), ("c", 0)], 4),
                  mkp(2, [(0.5, 3), (0.5, 2)], 4), mk2(3, [("x", 3)], 4)]
            vals = [0.2, 0.7, 0.7000000001, 0.1]
        elif kind == "permuted_idx":
            sl = [mk1(2, [("a", 1), ("b", 2)], 3), mk2(0, [("a", 2), ("b", 1)], 3), mkp(1, [(1, 1)], 3)]
            vals = [0.3, 0.1 + 0.2, 1]
        elif kind == "shared_idx":
            sl = [mk1(0, [("a", 1), ("b", 2)], 3), mkp(0, [(1, 1)], 3), mk2(2, [("a", 0)], 3)]
            vals = [0.3, 0.4, 1]
        elif kind == "shared_idx2":
            sl = [mkp(1, [(1, 1)], 3), mk1(1, [("a", 0), ("b", 2)], 3), mk2(1, [("a", 0)], 3)]
            vals = [0.3, 0.4, 1]
        elif kind == "idx_out_of_range":
            sl = [mk1(5, [("a", 1)], 2), mkp(1, [(1, 1)], 2)]
            vals = [0, 1]
        elif kind == "prob_idx_out_of_range":
            sl = [mk1(0, [("a", 1)], 2), mkp(7, [(1, 1)], 2)]
            vals = [0, 1]
        elif kind == "wrong_class_p1":
            sl = [tad.PlayerTwo(player=P1, idx=0, reward=0, next_states=[("a", 0)], num_states=1)]
            vals = [0.5]
        elif kind == "wrong_class_p2":
            sl = [tad.PlayerOne(player=P2, idx=0, reward=0, next_states=[("a", 0)], num_states=1)]
            vals = [0.5]
        elif kind == "prob_as_p1":
            sl = [tad.ProbabilisticNode(player=P1, idx=0, reward=0, next_states=[("a", 0)], num_states=1,
                                        is_final_node=False)]
            vals = [0.5]
        elif kind == "unknown_player":
            sl = [tad.PlayerOne(player="Player 3", idx=0, reward=0, next_states=[("a", 0)], num_states=1),
                  ]
            vals = [0.5]
        elif kind == "unhashable_player":
            sl = [tad.PlayerOne(player=["Player 1"], idx=0, reward=0, next_states=[("a", 0)], num_states=1),
                  ]
            vals = [0.5]
        elif kind == "empty":
            sl, vals = [], []
        elif kind == "emptied":
            sl = [mk1(0, [("a", 1)], 2), mk2(1, [("a", 1)], 2)]
            sl[0].next_states = []
            sl[1].next_states = []
            vals = [0, 0]
        for s, v in zip(sl, vals):
            s.reach_probability = v
        return sl
    for kind in ["plain", "permuted_idx", "shared_idx", "shared_idx2", "idx_out_of_range",
                 "prob_idx_out_of_range", "wrong_class_p1", "wrong_class_p2", "prob_as_p1",
                 "unknown_player", "unhashable_player", "empty", "emptied"]:
        for th in (1e-6, 1e-2, 1e-10, 1):
            def call():
                sl = build(kind)
                solver = tad.Solver(sl, th)
                return (solver._get_reachability_strategies(), solver._get_total_rewards_strategies()
                        if kind in ("plain", "permuted_idx", "empty", "emptied") else None)
            results.append(["B/strat/%s/%r" % (kind, th), outcome(call)])


def battery_malformed(tad, proxy, results):
    base = {"rewards": [0, 1, 0], "players": [P1, PR, P2],
            "transition_list": [[("a", 1), ("b", 2)], [(0.5, 1), (0.5, 2)], [("x", 2)]],
            "final_states": [2]}

    def variant(**kw):
        g = copy.deepcopy(base)
        g.update(kw)
        return g
    bad = [
        variant(),
        variant(rewards=[0, 1]),
        variant(rewards=[0, -1, 0]),
        variant(final_states=[3]),
        variant(final_states=[-1]),
        variant(final_states=[]),
        variant(final_states=[0]),
        variant(final_states=[1]),
        variant(final_states=[0, 1, 2]),
        variant(players=[P1, PR, "Player 3"]),
        variant(players=[P1, PR]),
        variant(transition_list=[[("a", 1)], [(1, 1)]]),
        variant(transition_list=[[("a", 1)], [], [("x", 2)]]),
        variant(transition_list=[[("a", 1)], None, [("x", 2)]]),
        variant(transition_list=[[("a", 1)], ((1, 1),), [("x", 2)]]),
        variant(transition_list=[[("a", 1, 2)], [(1, 1)], [("x", 2)]]),
        variant(transition_list=[[["a", 1]], [(1, 1)], [("x", 2)]]),
        variant(transition_list=[[(1, 1)], [(1, 1)], [("x", 2)]]),
        variant(transition_list=[[("a", 1)], [("p", 1)], [("x", 2)]]),
        variant(transition_list=[[("a", 3)], [(1, 1)], [("x", 2)]]),
        variant(transition_list=[[("a", -1)], [(1, 1)], [("x", 2)]]),
        variant(transition_list=[[("a", 1.0)], [(1, 1)], [("x", 2)]]),
        variant(transition_list=[[("a", 1)], [(1, 1)], [("x", 2)]]),            # start cannot reach
        variant(transition_list=[[("a", 1), ("b", 2)], [(0.7, 1), (0.7, 2)], [("x", 2)]]),
        variant(transition_list=[[("a", 1), ("b", 2)], [(-0.5, 1), (1.5, 2)], [("x", 2)]]),
        variant(transition_list=[[("a", 1), ("b", 2)], [(float("nan"), 0), (0.5, 2)], [("x", 2)]]),
        variant(transition_list=[[("a", 1), ("b", 1)], [(float("inf"), 2), (0.5, 0)], [("x", 2)]]),
        variant(transition_list=[[("a", 1), ("a", 2)], [(0.5, 1), (0.5, 2)], [("x", 2)]]),
        variant(rewards=[0, "1", 0]),
        variant(rewards=[]),
        variant(players=[], rewards=[], transition_list=[], final_states=[0]),
    ]
    for bi, g in enumerate(bad):
        for prune in (True, False):
            def full():
                proxy.reset()
                gg = copy.deepcopy(g)
                r = tad.StochasticGame(prune_states=prune, **gg).solve()
                return (r, gg == g)
            results.append(["C/bad%02d/%s" % (bi, prune), outcome(full)])


def scrub(res):
    out = {}
    for name, d in res.items():
        d = dict(d)
        d["total_time"] = 0.0
        out[name] = d
    return out


def battery_driver(tad, cr, proxy, results, converging, root):
    rng = random.Random(99)
    os.makedirs("outputs", exist_ok=True)
    # groups of converging random games
    rng.shuffle(converging)
    groups = [converging[i:i + 6] for i in range(0, min(len(converging), 120), 6)]
    for gi, group in enumerate(groups):
        gd = {name: copy.deepcopy(game) for name, game in group}

        def run():
            proxy.reset()
            proxy.limit = DEBUG_BUDGET * 40
            try:
                res = scrub(cr.run_games(gd))
            finally:
                proxy.limit = DEBUG_BUDGET
            cr.save_results_to_file(res, "some/dir/grp%02d.py" % gi)
            with open("outputs/grp%02d.txt" % gi, "rb") as fh:
                text = fh.read()
            return (res, text, {k: v["reachability_strategies"] for k, v in res.items()})
        results.append(["D/group%02d" % gi, outcome(run)])
    # malformed + unsolvable entries through the driver
    gd = {
        "noreach": {"rewards": [0, 0, 0], "players": [P1, PR, P2],
                    "transition_list": [[("a", 1)], [(1, 1)], [("x", 2)]], "final_states": [2]},
        "badplayer": {"rewards": [0, 0], "players": [P1, "nobody"],
                      "transition_list": [[("a", 1)], [(1, 1)]], "final_states": [1]},
        "tie": {"rewards": [0, 0, 0, 0, 0], "players": [P2, PR, PR, PR, PR],
                "transition_list": [[("a", 1), ("b", 2), ("c", 3)],
                                    [(0.1, 3), (0.2, 3), (0.7, 4)], [(0.3, 3), (0.7, 4)],
                                    [(1, 3)], [(1, 4)]],
                "final_states": [3]},
    }

    def run_bad():
        proxy.reset()
        res = scrub(cr.run_games(copy.deepcopy(gd)))
        cr.save_results_to_file(res, "x/bad.cases.py")
        with open("outputs/bad.txt", "rb") as fh:
            return (res, fh.read())
    results.append(["D/bad", outcome(run_bad)])
    # shipped examples
    for fname in ["example_games.py", "paper_games.py", "example_17_08.py", "manual_1_game_a.py",
                  "robot_1_w2_l2_r6_rb10_lb5_tb10_lt0.py",
                  "robot_999132423_w3_l3_r6_rb1_lb2_tb10_lt30.py"]:
        path = os.path.join(root, "inputs", fname)

        def run_file():
            proxy.reset()
            proxy.limit = DEBUG_BUDGET * 60
            try:
                res = scrub(cr.run_games(cr.read_dict_from_file(path)))
            finally:
                proxy.limit = DEBUG_BUDGET
            return res
        if os.path.exists(path):
            results.append(["D/file/%s" % fname, outcome(run_file)])


def child(root, out_path):
    root = os.path.abspath(root)
    sys.path.insert(0, root)
    signal.signal(signal.SIGALRM, _alarm)
    import logging as real_logging
    import tad
    import conditionalrewards as cr
    assert os.path.abspath(tad.__file__).startswith(root), tad.__file__
    assert os.path.abspath(cr.__file__).startswith(root), cr.__file__
    proxy = _LoggingProxy(real_logging)
    tad.logging = proxy
    cr.logging = proxy
    results = []
    converging = battery_games(tad, proxy, results)
    battery_selectors(tad, proxy, results)
    battery_malformed(tad, proxy, results)
    battery_driver(tad, cr, proxy, results, converging, root)
    with open(out_path, "w") as fh:
        json.dump(results, fh)


# --------------------------------------------------------------------------- parent side

def main():
    if len(sys.argv) == 4 and sys.argv[1] == "--child":
        child(sys.argv[2], sys.argv[3])
        return 0
    if len(sys.argv) != 3:
        print(__doc__)
        return 2
    patched, clean = sys.argv[1], sys.argv[2]
    me = os.path.abspath(__file__)
    env = dict(os.environ)
    env["PYTHONDONTWRITEBYTECODE"] = "1"
    env["PYTHONHASHSEED"] = "0"
    env.pop("PYTHONPATH", None)
    procs = []
    tmpdirs = []
    for tag, root in (("patched", patched), ("clean", clean)):
        work = tempfile.mkdtemp(prefix="equiv_%s_" % tag)
        tmpdirs.append(work)
        out = os.path.join(work, "results.json")
        p = subprocess.Popen([sys.executable, me, "--child", os.path.abspath(root), out],
                             cwd=work, env=env, stdout=subprocess.PIPE, stderr=subprocess.STDOUT)
        procs.append((tag, p, out))
    dumps = {}
    failed = False
    for tag, p, out in procs:
        try:
            log, _ = p.communicate(timeout=CHILD_TIMEOUT)
        except subprocess.TimeoutExpired:
            p.kill()
            log, _ = p.communicate()
            print("FAIL: %s tree did not finish within %ds" % (tag, CHILD_TIMEOUT))
            failed = True
            continue
        if p.returncode != 0 or not os.path.exists(out):
            print("FAIL: %s tree crashed (exit %s)\n%s" % (tag, p.returncode, log.decode(errors="replace")[-3000:]))
            failed = True
            continue
        with open(out) as fh:
            dumps[tag] = json.load(fh)
    for work in tmpdirs:
        shutil.rmtree(work, ignore_errors=True)
    if failed:
        return 1
    a, b = dumps["patched"], dumps["clean"]
    diffs = []
    if len(a) != len(b):
        diffs.append("different number of cases: %d vs %d" % (len(a), len(b)))
    for (ka, va), (kb, vb) in zip(a, b):
        if ka != kb or va != vb:
            diffs.append("%s:\n   patched: %s\n   clean  : %s" % (ka if ka == kb else (ka, kb), va[:600], vb[:600]))
    n_budget = sum(1 for _, v in b if v in ("BUDGET",) or "BUDGET" in v[:4000] and v.startswith("[('reach'"))
    n_wall = sum(1 for _, v in a + b if v == "WALLCLOCK")
    n_exc = sum(1 for _, v in b if v.startswith("EXC"))
    print("cases: %d   (clean tree: %d exceptions, %d budget-limited, wall-clock hits in either: %d)"
          % (len(b), n_exc, n_budget, n_wall))
    if n_wall:
        diffs.append("wall-clock alarm fired %d times: results are not trustworthy" % n_wall)
    if diffs:
        print("FAIL: %d differences" % len(diffs))
        for d in diffs[:15]:
            print(" -", d)
        return 1
    print("PASS")
    return 0


if __name__ == "__main__":
    sys.exit(main())
