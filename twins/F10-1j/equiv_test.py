#!/usr/bin/env python
"""Behavioural equivalence check for property C10
("solving leaves the game description intact and is repeatable").

usage: python equiv_test.py <path-to-patched-root> <path-to-clean-root>

Each tree is loaded in its own subprocess (this same file, `--child`), which
runs a fixed, seeded battery of cases and dumps one record per case.  The
parent compares the two dumps record by record, prints PASS and exits 0 when
nothing differs, prints the first differences and FAIL (exit 1) otherwise.

What a record contains (always repr() strings, so 1 != 1.0 != True):
  * solver histories: for a few hundred random well-formed games a random
    sequence of solves on the SAME description (same object / fresh object,
    pruned / unpruned, in any order); after every step the result (or the
    exception type and message), the description the caller passed in, whether
    it still equals a deep copy taken before the first solve, and whether the
    caller's outer and inner lists are still the very same objects;
  * node level: init_states() on the description followed by remove_path /
    prune_paths / prune_paths_reachability / Solver pruning, recording the
    nodes' transition lists and, again, the caller's description;
  * boundary and malformed descriptions (exception type + message, and the
    description afterwards);
  * driver: run_games() result dicts (total_time masked), the games dict
    after the run, the report written by save_results_to_file(), main() on the
    small shipped input files.

Every solve has a deterministic budget: the value-iteration loops announce each
iteration through logging.debug("iteration N"); the child replaces the
`logging` name inside tad by a proxy that counts those calls and aborts the
solve with a private exception after ITERATION_BUDGET of them (the clean tree
never converges on some non-stopping games).  A wall-clock limit on the child
is the fallback.
"""
import copy
import io
import json
import os
import random
import subprocess
import sys
import tempfile

ITERATION_BUDGET = 400
N_RANDOM_GAMES = 700
N_NODE_GAMES = 250
N_DRIVER_DICTS = 45
CHILD_WALL_CLOCK = 85

P1, P2, PR = "Player 1", "Player 2", "Probabilistic"

PROB_SPLITS = {
    1: [[1], [1.0]],
    2: [[0.5, 0.5], [0.25, 0.75], [0.1, 0.9], [1 / 3, 2 / 3], [0.99, 0.01], [1, 0], [0.3, 0.7]],
    3: [[0.2, 0.3, 0.5], [0.1, 0.2, 0.7], [1 / 3, 1 / 3, 1 / 3], [0.25, 0.25, 0.5], [0.05, 0.05, 0.9]],
}
ACTIONS = ["a", "b", "c", "alfa", "beta", "gamma"]


# --------------------------------------------------------------------------- #
# input generation (identical in both children: everything is seeded)

def random_game(seed):
    rng = random.Random(1000 + seed)
    shape = rng.choice(["dag", "dag", "dag", "dag", "any", "any", "any", "ring"])
    n = rng.randint(1, 9)
    players = [rng.choice([P1, P2, PR]) for _ in range(n)]
    if rng.random() < 0.15:
        players = [rng.choice([P1, PR])] * n
    n_final = min(n, rng.choice([1, 1, 1, 2, 2, 3]))
    if shape == "dag":
        final_states = sorted(rng.sample(range(n), n_final), reverse=rng.random() < 0.3)
        if rng.random() < 0.7 and (n - 1) not in final_states:
            final_states[0] = n - 1
    else:
        final_states = rng.sample(range(n), n_final)
    if shape == "dag":
        reward_kind = rng.choice(["int", "int", "small", "zero", "float", "tie"])
    else:
        reward_kind = rng.choice(["int", "small", "zero", "zero", "zero", "float", "tie"])
    rewards = []
    for _ in range(n):
        if reward_kind == "int":
            rewards.append(rng.randint(0, 10))
        elif reward_kind == "small":
            rewards.append(rng.randint(0, 2))
        elif reward_kind == "zero":
            rewards.append(0)
        elif reward_kind == "float":
            rewards.append(rng.choice([0, 0.5, 1.25, 3, 7.5, 10 ** 6]))
        else:
            rewards.append(3)
    transition_list = []
    for state in range(n):
        if shape == "dag":
            # forward edges, absorbing tail; probabilistic states may also loop on themselves
            targets = list(range(state + 1, n)) or [state]
            if state in final_states and rng.random() < 0.7:
                targets = [state]
            elif players[state] == PR and rng.random() < 0.2:
                targets = targets + [state]
            if targets == [state] and rng.random() < 0.85:
                rewards[state] = 0
        elif shape == "ring":
            targets = [(state + 1) % n, state, rng.randrange(n)]
        else:
            targets = list(range(n))
        k = rng.randint(1, 3)
        if players[state] == PR:
            probs = list(rng.choice(PROB_SPLITS[k]))
            rng.shuffle(probs)
            transition_list.append([(p, rng.choice(targets)) for p in probs])
        else:
            names = rng.sample(ACTIONS, k)
            if rng.random() < 0.05 and k > 1:
                names[1] = names[0]          # duplicated action label
            transition_list.append([(a, rng.choice(targets)) for a in names])
    if shape != "dag" and rng.random() < 0.5:
        # dead (non final, absorbing) state and absorbing finals
        dead = rng.randrange(n)
        if dead not in final_states:
            transition_list[dead] = [(1, dead)] if players[dead] == PR else [("stay", dead)]
        for f in final_states:
            if rng.random() < 0.7:
                transition_list[f] = [(1, f)] if players[f] == PR else [("stay", f)]
                if rng.random() < 0.7:
                    rewards[f] = 0
    return {"rewards": rewards, "players": players,
            "transition_list": transition_list, "final_states": final_states}


FIG_5_5 = {
    "rewards": [0, 1, 2, 3, 0, 0],
    "players": [P1, PR, PR, P2, PR, PR],
    "transition_list": [
        [("a", 1), ("b", 2), ("c", 5)],
        [(0.5, 3), (0.5, 5)],
        [(0.25, 4), (0.75, 5)],
        [("x", 4), ("y", 1)],
        [(1, 4)],
        [(1, 5)]],
    "final_states": [4],
}


def boundary_games():
    games = {}
    games["fig55"] = copy.deepcopy(FIG_5_5)
    games["one_state_final_p1"] = {"rewards": [0], "players": [P1],
                                   "transition_list": [[("a", 0)]], "final_states": [0]}
    games["one_state_final_prob"] = {"rewards": [5], "players": [PR],
                                     "transition_list": [[(1, 0)]], "final_states": [0]}
    games["one_state_final_p2"] = {"rewards": [0], "players": [P2],
                                   "transition_list": [[("a", 0), ("b", 0)]], "final_states": [0]}
    games["initial_cannot_reach"] = {"rewards": [0, 0], "players": [PR, PR],
                                     "transition_list": [[(1, 0)], [(1, 1)]], "final_states": [1]}
    games["p1_all_dead_but_one"] = {"rewards": [0, 4, 4, 0], "players": [P1, PR, PR, PR],
                                    "transition_list": [[("a", 1), ("b", 2), ("c", 3)], [(1, 1)], [(1, 2)], [(1, 3)]],
                                    "final_states": [3]}
    games["prob_loses_branch"] = {"rewards": [1, 2, 0, 0], "players": [PR, PR, PR, PR],
                                  "transition_list": [[(0.2, 1), (0.3, 2), (0.5, 3)], [(1, 1)], [(1, 2)], [(1, 3)]],
                                  "final_states": [2, 3]}
    games["prob_zero_weight"] = {"rewards": [1, 2, 0], "players": [PR, PR, PR],
                                 "transition_list": [[(0, 1), (1, 2)], [(1, 1)], [(1, 2)]],
                                 "final_states": [2]}
    games["prob_only_zero_weight_survives"] = {"rewards": [1, 2, 0], "players": [P1, PR, PR],
                                               "transition_list": [[("a", 1)], [(1, 1), (0, 2)], [(1, 2)]],
                                               "final_states": [2]}
    games["ties_everywhere"] = {"rewards": [0, 2, 2, 0], "players": [P1, P2, P2, PR],
                                "transition_list": [[("a", 1), ("b", 2)], [("c", 3), ("d", 3)], [("e", 3), ("f", 3)], [(1, 3)]],
                                "final_states": [3]}
    games["p2_avoids"] = {"rewards": [0, 1, 0, 0], "players": [P2, PR, PR, PR],
                          "transition_list": [[("a", 1), ("b", 2)], [(0.5, 2), (0.5, 3)], [(1, 2)], [(1, 3)]],
                          "final_states": [3]}
    games["several_finals_unsorted"] = {"rewards": [1, 0, 0, 0], "players": [PR, PR, PR, PR],
                                        "transition_list": [[(0.5, 3), (0.25, 1), (0.25, 2)], [(1, 1)], [(1, 2)], [(1, 3)]],
                                        "final_states": [3, 1, 3]}
    games["cycle_through_prob"] = {"rewards": [0, 1, 0], "players": [P1, PR, PR],
                                   "transition_list": [[("go", 1)], [(0.5, 0), (0.5, 2)], [(1, 2)]],
                                   "final_states": [2]}
    games["bool_and_float_entries"] = {"rewards": [True, 0.0, 0], "players": [PR, PR, PR],
                                       "transition_list": [[(True, 1)], [(0.5, True), (0.5, 2)], [(1, 2)]],
                                       "final_states": [2]}
    games["tuple_rewards_players"] = {"rewards": (0, 1, 0), "players": (P1, PR, PR),
                                      "transition_list": [[("a", 1), ("b", 2)], [(0.5, 1), (0.5, 2)], [(1, 2)]],
                                      "final_states": (2,)}
    return games


def malformed_games():
    ok = boundary_games()["cycle_through_prob"]

    def variant(**changes):
        game = copy.deepcopy(ok)
        game.update(changes)
        return game

    games = {}
    games["short_transition_list"] = variant(transition_list=[[("go", 1)], [(1, 2)]])
    games["long_transition_list"] = variant(transition_list=ok["transition_list"] + [[(1, 0)]])
    games["short_rewards"] = variant(rewards=[0, 1])
    games["negative_reward"] = variant(rewards=[0, -1, 0])
    games["final_too_big"] = variant(final_states=[3])
    games["final_negative"] = variant(final_states=[-1])
    games["no_finals"] = variant(final_states=[])
    games["bad_player"] = variant(players=[P1, "Player 3", PR])
    games["unhashable_player"] = variant(players=[P1, ["Player 2"], PR])
    games["none_player"] = variant(players=[P1, None, PR])
    games["empty_transitions_state"] = variant(transition_list=[[("go", 1)], [], [(1, 2)]])
    games["none_transitions_state"] = variant(transition_list=[[("go", 1)], None, [(1, 2)]])
    games["tuple_transitions_state"] = variant(transition_list=[[("go", 1)], ((0.5, 0), (0.5, 2)), [(1, 2)]])
    games["outer_tuple"] = variant(transition_list=tuple(ok["transition_list"]))
    games["list_transition"] = variant(transition_list=[[["go", 1]], [(0.5, 0), (0.5, 2)], [(1, 2)]])
    games["triple_transition"] = variant(transition_list=[[("go", 1, 1)], [(0.5, 0), (0.5, 2)], [(1, 2)]])
    games["action_not_str"] = variant(transition_list=[[(1, 1)], [(0.5, 0), (0.5, 2)], [(1, 2)]])
    games["prob_not_number"] = variant(transition_list=[[("go", 1)], [("x", 0), (0.5, 2)], [(1, 2)]])
    games["target_not_int"] = variant(transition_list=[[("go", 1.0)], [(0.5, 0), (0.5, 2)], [(1, 2)]])
    games["target_too_big"] = variant(transition_list=[[("go", 1)], [(0.5, 0), (0.5, 3)], [(1, 2)]])
    games["target_negative"] = variant(transition_list=[[("go", 1)], [(0.5, 0), (0.5, 2)], [(1, -1)]])
    games["late_bad_state"] = variant(transition_list=[[("go", 1)], [(0.5, 0), (0.5, 2)], [(1, 2), "xy"]])
    games["str_transitions_state"] = variant(transition_list=[[("go", 1)], "ab", [(1, 2)]])
    games["dict_transitions_state"] = variant(transition_list=[[("go", 1)], {(0.5, 0): 1}, [(1, 2)]])
    games["final_is_float"] = variant(final_states=[2.0])
    games["empty_game"] = {"rewards": [], "players": [], "transition_list": [], "final_states": [0]}
    return games


# --------------------------------------------------------------------------- #
# child side

class Budget(Exception):
    pass


def run_child(root, out_path):
    import signal
    signal.signal(signal.SIGALRM, signal.SIG_DFL)
    signal.alarm(CHILD_WALL_CLOCK)

    root = os.path.realpath(root)
    sys.path.insert(0, root)
    workdir = tempfile.mkdtemp(prefix="c10_equiv_")
    os.mkdir(os.path.join(workdir, "outputs"))
    os.chdir(workdir)

    import logging
    import tad
    import conditionalrewards
    import reverse_dfs  # noqa: F401  (make sure it is the tree's own copy)
    for module in (tad, conditionalrewards, reverse_dfs):
        assert os.path.realpath(module.__file__).startswith(root + os.sep), module.__file__

    logging.getLogger().addHandler(logging.NullHandler())
    logging.getLogger().setLevel(logging.CRITICAL)
    logging.lastResort = None

    class LogProxy:
        iterations = 0

        def __getattr__(self, name):
            return getattr(logging, name)

        def debug(self, msg, *args, **kwargs):
            if isinstance(msg, str) and msg.startswith("iteration"):
                LogProxy.iterations += 1
                if LogProxy.iterations > ITERATION_BUDGET:
                    raise Budget()
            return logging.debug(msg, *args, **kwargs)

    tad.logging = LogProxy()

    def budgeted(fn, *args, **kwargs):
        LogProxy.iterations = 0
        try:
            return ("OK", repr(fn(*args, **kwargs)))
        except Budget:
            return ("BUDGET",)
        except RecursionError:
            return ("EXC", "RecursionError", "")
        except Exception as exc:  # noqa: BLE001
            return ("EXC", type(exc).__name__, str(exc))

    records = []
    import time as _time
    _t0 = _time.time()

    def lap(label):
        if os.environ.get("C10_TIMING"):
            sys.stderr.write("%-12s %6.1fs  %d records\n" % (label, _time.time() - _t0, len(records)))

    def emit(case, *payload):
        records.append([case, repr(payload)])

    def describe(game):
        return repr((game["rewards"], game["players"], game["transition_list"], game["final_states"]))

    def inner_refs(game):
        tl = game["transition_list"]
        return (tl, list(tl) if isinstance(tl, (list, tuple)) else None)

    def same_refs(game, refs):
        outer, inner = refs
        tl = game["transition_list"]
        if tl is not outer:
            return False
        if inner is None:
            return True
        return len(tl) == len(inner) and all(a is b for a, b in zip(tl, inner))

    def history(case, game, seed, steps=None):
        """A sequence of solves on one and the same description."""
        rng = random.Random(7000 + seed)
        orig = copy.deepcopy(game)
        refs = inner_refs(game)
        emit(case + "/before", describe(game))
        try:
            shared = tad.StochasticGame(game["rewards"], game["players"], game["transition_list"],
                                        game["final_states"])
        except Exception as exc:  # noqa: BLE001
            emit(case + "/construct", type(exc).__name__, str(exc))
            return
        if steps is None:
            steps = [(rng.choice([True, False]), rng.choice(["same", "fresh", "kwargs", "default"]))
                     for _ in range(rng.randint(2, 5))]
        seen = {}
        for number, (prune, how) in enumerate(steps):
            if how == "same":
                sgame = shared
                sgame.prune_states = prune
            elif how == "fresh":
                sgame = tad.StochasticGame(game["rewards"], game["players"], game["transition_list"],
                                           game["final_states"], prune)
            elif how == "kwargs":
                sgame = tad.StochasticGame(prune_states=prune, **game)
            else:
                prune = True
                sgame = tad.StochasticGame(**game)
            counted = budgeted(sgame.count_transitions)
            outcome = budgeted(sgame.solve)
            repeat_ok = seen.setdefault(prune, outcome) == outcome
            emit("%s/step%d" % (case, number), prune, how, counted, outcome,
                 describe(game), game == orig, same_refs(game, refs), repeat_ok,
                 repr((sgame.rewards, sgame.players, sgame.transition_list, sgame.final_states,
                       sgame.num_states, sgame.prune_states)),
                 sgame.transition_list is game["transition_list"])
        # the same description, never solved before, must give the same answers
        for prune in (True, False):
            pristine = copy.deepcopy(orig)
            outcome = budgeted(tad.StochasticGame(prune_states=prune, **pristine).solve)
            emit("%s/pristine%s" % (case, prune), outcome, seen.get(prune, outcome) == outcome,
                 pristine == orig)

    def snapshot(state_list):
        return [(type(s).__name__, s.player, s.idx, s.reward, s.next_states, s.is_final_node,
                 s.reach_probability, s.expected_rewards) for s in state_list]

    def node_level(case, game, seed):
        try:
            node_level_checks(case, game, seed)
        except Exception as exc:  # noqa: BLE001  (a later block could not even rebuild the nodes)
            emit(case + "/aborted", type(exc).__name__, str(exc), describe(game))

    def node_level_checks(case, game, seed):
        rng = random.Random(9000 + seed)
        orig = copy.deepcopy(game)
        refs = inner_refs(game)
        sgame = tad.StochasticGame(**game)

        def fresh():
            return sgame.init_states()

        first = budgeted(lambda: snapshot(fresh()))
        emit(case + "/init", first, describe(game), game == orig, same_refs(game, refs))
        if first[0] != "OK":
            return
        # equality between independently built node lists
        emit(case + "/eq", budgeted(lambda: fresh() == fresh()))

        # remove_path on every node that has it
        state_list = fresh()
        for node in state_list:
            if not hasattr(node, "remove_path"):
                continue
            kept_list = node.next_states
            victim = rng.choice(node.next_states)
            out = budgeted(node.remove_path, victim)
            emit("%s/remove%d" % (case, node.idx), victim, out, node.next_states, kept_list,
                 describe(game), game == orig, same_refs(game, refs))
            missing = ("nope", 0) if node.player != PR else (0.123, 0)
            out = budgeted(node.remove_path, missing)
            emit("%s/remove_missing%d" % (case, node.idx), out, node.next_states,
                 describe(game), game == orig)
            if node.next_states:
                out = budgeted(node.remove_path, node.next_states[-1])
                emit("%s/remove_again%d" % (case, node.idx), out, node.next_states, game == orig)

        # prune_paths with hand-set reach probabilities
        state_list = fresh()
        for node in state_list:
            node.reach_probability = rng.choice([0, 0, 0.5, 1, 1e-9])
        for node in state_list:
            if hasattr(node, "prune_paths"):
                out = budgeted(node.prune_paths, state_list)
                emit("%s/prune_paths%d" % (case, node.idx), out, node.next_states,
                     describe(game), game == orig, same_refs(game, refs))

        # prune_paths_reachability with an arbitrary strategy subset
        state_list = fresh()
        for node in state_list:
            if hasattr(node, "prune_paths_reachability"):
                keep = [a for a, _ in node.next_states if rng.random() < 0.5]
                out = budgeted(node.prune_paths_reachability, keep)
                emit("%s/prune_reach%d" % (case, node.idx), keep, out, node.next_states,
                     describe(game), game == orig, same_refs(game, refs))

        # solver level pruning on hand-set probabilities
        state_list = fresh()
        for node in state_list:
            node.reach_probability = rng.choice([0, 0.5, 1])
        solver = tad.Solver(state_list=state_list)
        out = budgeted(solver.prune_stochastich_game)
        emit(case + "/solver_prune", out, snapshot(state_list), describe(game), game == orig,
             same_refs(game, refs))
        out = budgeted(solver.solve_total_rewards)
        emit(case + "/solver_rewards_after_prune", out, snapshot(state_list), game == orig)

    # ---- 1. random solver histories --------------------------------------- #
    pool = [random_game(seed) for seed in range(N_RANDOM_GAMES)]
    for seed, game in enumerate(pool):
        history("rand%03d" % seed, copy.deepcopy(game), seed)

    lap('random')
    # ---- 2. boundary games, every ordering of the two modes ---------------- #
    orderings = [
        [(True, "same"), (True, "same"), (False, "same"), (True, "same")],
        [(False, "same"), (True, "same"), (False, "same")],
        [(True, "fresh"), (True, "fresh"), (False, "fresh"), (True, "fresh")],
        [(False, "fresh"), (True, "kwargs"), (True, "same"), (False, "default"), (True, "fresh")],
    ]
    for name, game in boundary_games().items():
        for number, steps in enumerate(orderings):
            history("bound_%s_%d" % (name, number), copy.deepcopy(game), number, steps)

    lap('boundary')
    # ---- 3. malformed descriptions ---------------------------------------- #
    for name, game in malformed_games().items():
        history("bad_" + name, copy.deepcopy(game), 1, [(True, "same"), (False, "fresh"), (True, "kwargs")])
        emit("bad_%s/init_states" % name,
             budgeted(lambda: snapshot(tad.StochasticGame(**copy.deepcopy(game)).init_states())))
    emit("bad_players_none", budgeted(lambda: tad.StochasticGame([0], None, [[(1, 0)]], [0])))

    lap('malformed')
    # ---- 4. node level ----------------------------------------------------- #
    for seed in range(N_NODE_GAMES):
        node_level("node%03d" % seed, copy.deepcopy(pool[seed]), seed)
    for name, game in boundary_games().items():
        node_level("nodebound_" + name, copy.deepcopy(game), 5)
    out = budgeted(lambda: tad.ProbabilisticNode(PR, 0, 0, [(1, 1), (0, 0)], 2, False).remove_path((1, 1)))
    emit("node_remove_certain_path", out)
    caller = [("a", 1), ("b", 0)]
    node = tad.PlayerOne(P1, 0, 1, caller, 2)
    node.remove_path(("a", 1))
    emit("node_direct_p1", node.next_states, caller)
    caller = [(0.5, 1), (0.5, 0)]
    node = tad.ProbabilisticNode(PR, 0, 1, caller, 2, True)
    node.remove_path((0.5, 1))
    emit("node_direct_prob", node.next_states, caller, node.reach_probability)

    lap('node')
    # ---- 5. debug logging switched on (exercises the DEBUG-only branch) ---- #
    logging.getLogger().setLevel(logging.DEBUG)
    for seed in range(0, 40, 2):
        history("debug%03d" % seed, copy.deepcopy(pool[seed]), seed + 1)
    logging.getLogger().setLevel(logging.CRITICAL)

    lap('debug')
    # ---- 6. driver --------------------------------------------------------- #
    def mask_times(results):
        masked = {}
        for name, entry in results.items():
            entry = dict(entry)
            total = entry.get("total_time")
            entry["total_time"] = "float>=0" if isinstance(total, float) and total >= 0 else repr(total)
            masked[name] = entry
        return masked

    def converges(game):
        """Will run_games get through this game within the budget?  (It skips the
        unpruned run when the pruned one raised.)"""
        for prune in (True, False):
            out = budgeted(lambda: tad.StochasticGame(prune_states=prune, **copy.deepcopy(game)).solve())
            if out[0] == "BUDGET":
                return False
            if out[0] == "EXC":
                return out[1] == "ValueError"
        return True

    def drive(case, games_dict, report_name):
        before = copy.deepcopy(games_dict)
        holder = {}

        def call():
            holder["results"] = conditionalrewards.run_games(games_dict)
            return list(holder["results"])

        out = budgeted(call)
        stripped = {name: {k: v for k, v in game.items() if k != "prune_states"}
                    for name, game in games_dict.items()} if isinstance(games_dict, dict) else None
        emit(case + "/run", out, repr(games_dict), stripped == before)
        if "results" not in holder:
            return
        results = holder["results"]
        emit(case + "/results", repr(mask_times(results)))
        for entry in results.values():
            entry["total_time"] = 0.25
        out = budgeted(conditionalrewards.save_results_to_file, results, report_name)
        written = {}
        for file_name in sorted(os.listdir("outputs")):
            with open(os.path.join("outputs", file_name), "rb") as handle:
                written[file_name] = handle.read()
            os.remove(os.path.join("outputs", file_name))
        emit(case + "/report", out, repr(written))

    def drive_converging(case, games_dict, report_name):
        """run_games has no budget of its own: leave out the games that run over it."""
        kept = {name: game for name, game in games_dict.items() if converges(game)}
        emit(case + "/dropped", [name for name in games_dict if name not in kept])
        drive(case, kept, report_name)

    usable = [(seed, game) for seed, game in enumerate(pool[:260]) if converges(game)]
    emit("driver/usable", [seed for seed, _ in usable])
    bad = list(malformed_games().items())
    rng = random.Random(4242)
    for number in range(N_DRIVER_DICTS):
        games_dict = {}
        for seed, game in rng.sample(usable, min(len(usable), rng.randint(1, 4))):
            games_dict["game_%d" % seed] = copy.deepcopy(game)
        if number % 3 == 0:
            name, game = bad[(number // 3) % len(bad)]
            if name not in ("empty_game",):
                games_dict["bad_" + name] = copy.deepcopy(game)
        if number % 7 == 0:
            games_dict["fig55"] = copy.deepcopy(FIG_5_5)
        items = list(games_dict.items())
        rng.shuffle(items)
        drive("driver%02d" % number, dict(items),
              rng.choice(["inputs/some_file.py", "x.py", "deep/er/path/name.with.dots.py", "noext"]))
    drive_converging("driver_boundary", copy.deepcopy(boundary_games()), "inputs/boundary.py")
    drive("driver_empty", {}, "inputs/empty.py")
    shared_game = copy.deepcopy(FIG_5_5)
    drive("driver_shared_description", {"first": shared_game, "second": shared_game}, "shared.py")
    drive("driver_missing_key", {"g": {"rewards": [0], "players": [P1]}}, "m.py")
    drive("driver_extra_key", {"g": dict(copy.deepcopy(FIG_5_5), colour="red")}, "m.py")
    drive("driver_not_dict", [1, 2], "m.py")
    nonstop = {"rewards": [1, 1], "players": [PR, PR], "transition_list": [[(0.5, 0), (0.5, 1)], [(1, 1)]],
               "final_states": [1]}
    drive("driver_nonstopping", {"n": nonstop}, "n.py")

    lap('driver')
    # shipped input files, through read_dict_from_file / main()
    small_inputs = ["paper_games.py", "example_games.py", "example_17_08.py", "manual_1_game_a.py",
                    "manual_arrow_bottom.py", "robot_1_w1_l2_r6_rb10_lb5_tb10_lt0.py",
                    "robot_1_w2_l1_r6_rb10_lb5_tb10_lt0.py", "robot_1_w2_l2_r6_rb10_lb5_tb10_lt0.py"]
    for file_name in small_inputs:
        path = os.path.join(root, "inputs", file_name)
        loaded = budgeted(conditionalrewards.read_dict_from_file, path)
        emit("file_%s/read" % file_name, loaded)
        if loaded[0] == "OK":
            drive_converging("file_" + file_name, conditionalrewards.read_dict_from_file(path), path)
    for file_name in small_inputs[:3]:
        path = os.path.join(root, "inputs", file_name)
        argv, stdout, stderr = sys.argv, sys.stdout, sys.stderr
        sys.argv = ["conditionalrewards.py", "-f", path, "-s"]
        sys.stdout, sys.stderr = io.StringIO(), io.StringIO()
        try:
            out = budgeted(conditionalrewards.main)
        except SystemExit as exc:
            out = ("EXIT", repr(exc.code))
        finally:
            sys.argv, sys.stdout, sys.stderr = argv, stdout, stderr
        report = os.path.join("outputs", file_name[:-3] + ".txt")
        lines = None
        if os.path.exists(report):
            with open(report, "rb") as handle:
                lines = [line for line in handle.read().split(b"\n") if not line.startswith(b"Total time")]
            os.remove(report)
        emit("main_%s" % file_name, out, repr(lines))

    lap('files')
    with open(out_path, "w") as handle:
        json.dump(records, handle)
    os.chdir(root)
    import shutil
    shutil.rmtree(workdir, ignore_errors=True)


# --------------------------------------------------------------------------- #
# parent side

def main():
    if len(sys.argv) == 4 and sys.argv[1] == "--child":
        run_child(sys.argv[2], sys.argv[3])
        return 0
    if len(sys.argv) != 3:
        print(__doc__)
        return 2
    patched_root, clean_root = sys.argv[1], sys.argv[2]
    with tempfile.TemporaryDirectory(prefix="c10_equiv_parent_") as tmp:
        procs = []
        for label, root in (("patched", patched_root), ("clean", clean_root)):
            out_path = os.path.join(tmp, label + ".json")
            procs.append((label, root, out_path, subprocess.Popen(
                [sys.executable, os.path.abspath(__file__), "--child", root, out_path],
                stdout=subprocess.PIPE, stderr=subprocess.PIPE, text=True)))
        dumps = {}
        for label, root, out_path, proc in procs:
            try:
                stdout, stderr = proc.communicate(timeout=CHILD_WALL_CLOCK + 10)
            except subprocess.TimeoutExpired:
                proc.kill()
                stdout, stderr = proc.communicate()
            if proc.returncode != 0 or not os.path.exists(out_path):
                print("child for %s tree (%s) failed, exit %s" % (label, root, proc.returncode))
                print(stdout[-2000:])
                print(stderr[-4000:])
                print("FAIL")
                return 1
            with open(out_path) as handle:
                dumps[label] = json.load(handle)
    patched, clean = dumps["patched"], dumps["clean"]
    differences = []
    if len(patched) != len(clean):
        differences.append("number of records: patched %d, clean %d" % (len(patched), len(clean)))
    for (case_p, rec_p), (case_c, rec_c) in zip(patched, clean):
        if case_p != case_c:
            differences.append("case order differs: %s vs %s" % (case_p, case_c))
            break
        if rec_p != rec_c:
            differences.append("%s\n   patched: %s\n   clean  : %s" % (case_p, rec_p[:1500], rec_c[:1500]))
    solved = sum(1 for _, rec in clean if "('OK'," in rec)
    budget = sum(1 for _, rec in clean if "('BUDGET',)" in rec)
    raised = sum(1 for _, rec in clean if "('EXC'," in rec)
    print("%d records compared (clean tree: %d with a normal result, %d with an exception, %d over budget)"
          % (len(clean), solved, raised, budget))
    if differences:
        for difference in differences[:15]:
            print("DIFF " + difference)
        print("%d differing records" % len(differences))
        print("FAIL")
        return 1
    print("PASS")
    return 0


if __name__ == "__main__":
    sys.exit(main())
