#!/usr/bin/env python
"""Behavioural equivalence test for property C11 (generator -> three-game file -> reader -> solver).

usage: python equiv_test.py <path-to-patched-root> <path-to-clean-root>

Each tree is loaded in its own subprocess (worker mode) inside a private scratch
directory with inputs/ and outputs/ folders.  The worker records, for a large
deterministic battery of cases, what the tree does (files written byte for byte,
returned values as repr, exceptions as type + message, partial output of file
writers on failure).  The parent compares the two records key by key and prints
PASS (exit 0) when nothing differs, FAIL (exit 1) otherwise.
"""
import gc
import hashlib
import io
import json
import os
import random
import shutil
import signal
import subprocess
import sys
import tempfile
import time

SOLVE_BUDGET = 2.0      # seconds per solve() call (the clean tree never converges on some games)
DRIVER_BUDGET = 10.0    # seconds per run_games() call
TIMEOUT = "<<TIMEOUT>>"


class _Budget(Exception):
    pass


def _alarm(_sig, _frm):
    raise _Budget()


def outcome(fn, *args, **kwargs):
    """repr of the result or exception type + message."""
    try:
        return "OK " + repr(fn(*args, **kwargs))
    except _Budget:
        raise
    except BaseException as exc:  # SystemExit from argparse included
        return "EXC %s: %s" % (type(exc).__name__, exc)


def digest(data):
    if isinstance(data, str):
        data = data.encode("utf-8", "surrogatepass")
    return "%d:%s" % (len(data), hashlib.sha256(data).hexdigest())


def list_inputs():
    found = {}
    for name in sorted(os.listdir("inputs")):
        with open(os.path.join("inputs", name), "rb") as handle:
            found[name] = handle.read()
    return found


def clear_dir(name):
    for entry in os.listdir(name):
        os.remove(os.path.join(name, entry))


# --------------------------------------------------------------------------- #
# case batteries (deterministic, identical in both workers)
# --------------------------------------------------------------------------- #

def cli_cases():
    rnd = random.Random(20240611)
    cases = []

    def add(seed=None, w=None, l=None, p=None, q=None, r=None, t=None, m=None, f=False, raw=None):
        argv = []
        for flag, val in (("-s", seed), ("-w", w), ("-l", l), ("-p", p), ("-q", q),
                          ("-r", r), ("-t", t), ("-m", m)):
            if val is not None:
                argv += [flag, str(val)]
        if f:
            argv.append("-f")
        if raw:
            argv += raw
        cases.append(argv)

    add()                       # all defaults
    add(f=True)
    # boundaries of the board size
    for f in (False, True):
        for w, l in ((1, 1), (1, 2), (2, 1), (1, 5), (5, 1), (2, 2), (3, 1), (1, 3), (7, 2)):
            for seed in (0, 1, 7):
                add(seed=seed, w=w, l=l, f=f)
    # boundaries of the reward bound
    for m in (1, 2, 3, 30, 60, 1000, 1075, 2000):
        add(seed=3, w=3, l=2, m=m)
        add(seed=4, w=2, l=3, m=m, f=True)
    # tiny and near-1 probabilities
    edge_probs = ["1e-9", "1e-300", "5e-324", "0.004", "0.005", "0.015", "0.5", "0.995",
                  "0.999999999", "0.9999999999999999", "0.3333333333333333", "1e-17"]
    for value in edge_probs:
        add(seed=5, w=2, l=2, p=value)
        add(seed=5, w=2, l=2, q=value, f=True)
        add(seed=5, w=3, l=2, r=value, t="0.9")
        add(seed=5, w=2, l=3, t=value)
    add(seed=9, w=3, l=3, p="0.999999", q="0.999999", r="0.999999", t="0.999999")
    add(seed=9, w=3, l=3, p="1e-12", q="1e-12", r="1e-12", t="1e-12", f=True)
    # long option names, big seed
    add(raw=["--seed", "999132423", "--width", "3", "--length", "3", "--prob_robot_break", "0.01",
             "--prob_light_break", "0.02", "--prob_tile_break", "0.1", "--prob_loose_tile", "0.3",
             "--max_reward", "6", "--force_down"])
    add(seed=2**40, w=2, l=2)
    # rejected parameter sets
    add(seed=-1)
    add(w=0)
    add(w=-3)
    add(l=0)
    add(l=-1)
    add(m=0)
    add(m=-5)
    for flag in ("p", "q", "r", "t"):
        for value in ("0", "1", "0.0", "1.0", "-0.1", "1.5", "nan", "inf", "-inf", "1e400"):
            add(**{flag: value, "w": 2, "l": 1})
    add(seed=-1, w=0, l=0, p="0", q="0", r="0", t="0", m=0)      # first complaint wins
    add(w=0, l=0)
    add(p="2", q="3")
    add(raw=["-s", "x"])
    add(raw=["-w", "2.5"])
    add(raw=["-p", "abc"])
    add(raw=["--bogus"])
    add(raw=["-h"])
    # random accepted sets
    for _ in range(130):
        add(seed=rnd.randrange(0, 10**6), w=rnd.randint(1, 6), l=rnd.randint(1, 6),
            p=round(rnd.uniform(0.001, 0.999), rnd.randint(1, 6)),
            q=round(rnd.uniform(0.001, 0.999), rnd.randint(1, 6)),
            r=round(rnd.uniform(0.001, 0.999), rnd.randint(1, 6)),
            t=round(rnd.uniform(0.001, 0.999), rnd.randint(1, 6)),
            m=rnd.choice([1, 2, 3, 6, 6, 6, 9, 20]), f=rnd.random() < 0.5)
    # a few larger boards
    add(seed=47, w=20, l=10)
    add(seed=47, w=20, l=10, f=True)
    add(seed=51, w=40, l=10, f=True)
    add(seed=8, w=1, l=60, f=True)
    add(seed=8, w=60, l=1)
    return cases


def hand_boards():
    """(tag, moves, rewards, loose_tiles) - well-formed first, then malformed."""
    rnd = random.Random(77)
    boards = []
    for n in range(40):
        length = rnd.randint(1, 5)
        width = rnd.randint(1, 5)
        top = 4 if n % 2 else 3
        moves = [[rnd.randrange(top) for _ in range(width)] for _ in range(length)]
        rewards = [[rnd.randint(0, 6) for _ in range(width)] for _ in range(length)]
        loose = [[rnd.randint(0, 1) for _ in range(width)] for _ in range(length)]
        boards.append(("rnd%d" % n, moves, rewards, loose))
    boards.append(("all_down", [[3, 3], [3, 3]], [[1, 2], [3, 4]], [[0, 1], [1, 0]]))
    boards.append(("one_tile_down", [[3]], [[0]], [[1]]))
    boards.append(("one_tile_left", [[0]], [[5]], [[0]]))
    boards.append(("one_tile_both", [[1]], [[5]], [[1]]))
    boards.append(("one_tile_right", [[2]], [[2]], [[1]]))
    boards.append(("tuples", ((0, 1, 2), (2, 1, 3)), ((1, 0, 2), (3, 3, 3)), ((0, 0, 1), (1, 1, 0))))
    boards.append(("float_rewards", [[0, 1], [2, 1]], [[1.0, 2.5], [0.0, 3.9]], [[0, 1], [0, 0]]))
    boards.append(("bool_cells", [[True, 2], [0, True]], [[True, 2], [0, 1]], [[True, False], [0, 1]]))
    boards.append(("float_moves", [[1.0, 2.0], [0.0, 3.0]], [[1, 2], [0, 1]], [[0, 1], [0, 0]]))
    boards.append(("str_rewards", [[0, 1]], [["5", "6"]], [[0, 1]]))
    # malformed boards
    boards.append(("move4", [[0, 4], [1, 1]], [[1, 2], [0, 1]], [[0, 1], [0, 0]]))
    boards.append(("move_neg", [[0, -1], [1, 1]], [[1, 2], [0, 1]], [[0, 1], [0, 0]]))
    boards.append(("move_big", [[1, 1], [1, 9]], [[1, 2], [0, 1]], [[0, 1], [0, 0]]))
    boards.append(("tile2", [[0, 1], [1, 1]], [[1, 2], [0, 1]], [[0, 1], [2, 0]]))
    boards.append(("tile_neg", [[0, 1], [1, 1]], [[1, 2], [0, 1]], [[0, -1], [0, 0]]))
    boards.append(("ragged_moves", [[0, 1], [1]], [[1, 2], [0, 1]], [[0, 1], [0, 0]]))
    boards.append(("ragged_rewards", [[0, 1], [1, 2]], [[1, 2], [0]], [[0, 1], [0, 0]]))
    boards.append(("ragged_tiles", [[0, 1], [1, 2]], [[1, 2], [0, 3]], [[0], [0, 0]]))
    boards.append(("short_rewards", [[0, 1], [1, 2]], [[1, 2]], [[0, 1], [0, 0]]))
    boards.append(("long_rewards", [[0, 1]], [[1, 2], [3, 4]], [[0, 1], [0, 0]]))
    boards.append(("none_reward", [[0, 1]], [[None, 2]], [[0, 1]]))
    boards.append(("neg_reward", [[0, 1]], [[-2, 2]], [[0, 1]]))
    boards.append(("none_move", [[0, None]], [[1, 2]], [[0, 1]]))
    boards.append(("str_move", [[0, "1"]], [[1, 2]], [[0, 1]]))
    boards.append(("empty_row", [[]], [[]], [[]]))
    boards.append(("empty", [], [], []))
    boards.append(("int_rows", [1, 2], [1, 2], [0, 1]))
    return boards


PROB_TRIPLES = [(0.1, 0.1, 0.1), (0.1, 0.05, 0.1), (0.25, 0.5, 0.75), (1e-9, 0.999999999, 0.5),
                (0.3333333333333333, 0.7, 0.9999999999999999)]


# --------------------------------------------------------------------------- #
# worker
# --------------------------------------------------------------------------- #

def worker(root, out_path):
    root = os.path.abspath(root)
    scratch = tempfile.mkdtemp(prefix="c11_equiv_")
    os.chdir(scratch)
    os.mkdir("inputs")
    os.mkdir("outputs")
    sys.path.insert(0, root)
    signal.signal(signal.SIGALRM, _alarm)

    import roberta_generator as rg
    import stochastic_game_from_roborta_board as mb
    import conditionalrewards as cr
    import tad

    rec = {}

    def budgeted(fn, *args, budget=SOLVE_BUDGET):
        signal.setitimer(signal.ITIMER_REAL, budget)
        try:
            return outcome(fn, *args)
        except _Budget:
            return TIMEOUT
        finally:
            signal.setitimer(signal.ITIMER_REAL, 0)

    def check_loaded(key, path, solve, no_prune=False):
        """reader + validation + structural facts of the property + solve.

        Solving without pruning does not terminate on many of these games in
        the clean tree either, so it is only attempted where no_prune is set."""
        try:
            games = cr.read_dict_from_file(path)
        except BaseException as exc:
            rec[key + "|read"] = "EXC %s: %s" % (type(exc).__name__, exc)
            return
        rec[key + "|read"] = digest(repr(games)) + " keys=" + repr(list(games)) + \
            " type=" + type(games).__name__
        if not isinstance(games, dict):
            return
        for name, game in games.items():
            if not isinstance(game, dict):
                continue
            facts = []
            try:
                sg = tad.StochasticGame(**game)
                sg.check_game()
                facts.append("states=%d transitions=%d" % (sg.num_states, sg.count_transitions()))
                facts.append("empty=%r" % [i for i, t in enumerate(game["transition_list"]) if not t])
                bad = []
                for i, (player, trans) in enumerate(zip(game["players"], game["transition_list"])):
                    if player == "Probabilistic":
                        total = sum(p for p, _ in trans)
                        if any(not p > 0 for p, _ in trans) or abs(total - 1) > 1e-9:
                            bad.append(i)
                facts.append("badprob=%r finals=%r" % (bad, game["final_states"]))
                n = sg.num_states
                facts.append("absorbing=%r/%r" % (game["transition_list"][n - 1],
                                                  game["transition_list"][n - 2]))
            except BaseException as exc:
                facts.append("EXC %s: %s" % (type(exc).__name__, exc))
            rec[key + "|" + str(name) + "|facts"] = " ".join(facts)
            if solve:
                for prune in ((True, False) if no_prune else (True,)):
                    def run(game=game, prune=prune):
                        copy_game = eval(repr(game))
                        copy_game["prune_states"] = prune
                        return tad.StochasticGame(**copy_game).solve()
                    rec[key + "|" + str(name) + "|solve prune=%r" % prune] = budgeted(run)

    # ---- A. the command line entry point --------------------------------- #
    solved = 0
    for idx, argv in enumerate(cli_cases()):
        key = "cli %03d %s" % (idx, " ".join(argv))
        clear_dir("inputs")
        sys.argv = ["roberta_generator.py"] + argv
        saved = sys.stdout, sys.stderr
        sys.stdout, sys.stderr = io.StringIO(), io.StringIO()
        try:
            rec[key] = outcome(rg.main)
            rec[key + "|stdout"] = digest(sys.stdout.getvalue())
            rec[key + "|stderr"] = sys.stderr.getvalue()[-300:]
        finally:
            sys.stdout, sys.stderr = saved
        gc.collect()
        files = list_inputs()
        rec[key + "|files"] = repr({name: digest(data) for name, data in files.items()})
        for name, data in files.items():
            small = len(data) < 9000 and solved < 45
            solved += 1 if small else 0
            check_loaded(key + "|" + name, os.path.join("inputs", name), solve=small,
                         no_prune=(solved in (1, 2, 9)))

    # ---- B. the parameter checks called directly ------------------------- #
    from decimal import Decimal
    from fractions import Fraction
    good = dict(seed=0, width=3, length=3, prob_robot_break=0.1, prob_light_break=0.1,
                prob_loose_tile=0.3, prob_tile_break=0.1, max_reward=6)
    rec["check good"] = outcome(rg.check_input, **good)
    rec["check positional"] = outcome(rg.check_input, 0, 3, 3, 0.1, 0.1, 0.3, 0.1, 6)
    int_values = [-10**9, -1, 0, 1, 2, 10**30, True, False, 0.0, -0.0, 0.5, -0.5, float("nan"),
                  float("inf"), None, "3", [1], Fraction(1, 2), Decimal("0")]
    prob_values = [0, 1, 0.0, 1.0, -0.0, 5e-324, 1e-300, 0.5, 0.9999999999999999, 1.0000000000000002,
                   -1e-300, 2, -1, True, False, float("nan"), float("inf"), float("-inf"), None,
                   "0.5", [0.5], Fraction(1, 3), Fraction(3, 2), Decimal("0.5"), Decimal("1"),
                   Decimal("NaN"), 1 + 0j]
    for name in good:
        values = prob_values if name.startswith("prob") else int_values
        for value in values:
            args = dict(good)
            args[name] = value
            rec["check %s=%r" % (name, value)] = outcome(rg.check_input, **args)
    rnd = random.Random(5)
    for n in range(300):        # several bad parameters at once: the first complaint must win
        args = dict(good)
        for name in rnd.sample(sorted(good), rnd.randint(2, 5)):
            args[name] = rnd.choice(prob_values if name.startswith("prob") else int_values)
        rec["check multi %d %r" % (n, sorted(args.items(), key=lambda kv: kv[0]))] = \
            outcome(rg.check_input, **args)
    for value in [0.004, 0.005, 0.015, 0.025, 0.1, 0.5, 0.994999, 0.995, 0.999999, 1e-9, 0.3, 1, 0,
                  2.5, -0.2, float("nan"), float("inf"), "x", None, Fraction(1, 3), True]:
        rec["prob_to_str %r" % (value,)] = outcome(rg.prob_to_str, value)

    # ---- C. the file writers called directly on hand-made boards --------- #
    def writer_case(key, fn, *args):
        buf = io.StringIO()
        rec[key] = outcome(fn, buf, *args) + " ||| " + digest(buf.getvalue())
        return buf.getvalue()

    for b_idx, (tag, moves, rewards, loose) in enumerate(hand_boards()):
        try:
            length = len(moves)
            width = len(moves[0])
        except Exception:
            length, width = 2, 1
        shapes = [(length, width)]
        if b_idx % 5 == 0 or not tag.startswith("rnd"):
            shapes += [(0, width), (length, 0), (max(length - 1, 0), max(width - 1, 0)),
                       (length + 1, width), (length, width + 1)]
        for s_idx, (ln, wd) in enumerate(shapes):
            pt, pr, pl = PROB_TRIPLES[(b_idx + s_idx) % len(PROB_TRIPLES)]
            key = "board %s %dx%d" % (tag, ln, wd)
            writer_case(key + " preamble", rg.write_preamble, ln, wd, moves, rewards, loose)
            writer_case(key + " A", rg.write_robot_A, ln, wd, moves, rewards, loose, pt)
            writer_case(key + " B", rg.write_robot_B, ln, wd, moves, rewards, loose, pt, pr)
            writer_case(key + " C", rg.write_robot_C, ln, wd, moves, rewards, loose, pt, pr, pl)
            path = os.path.join("inputs", "direct_%d_%d.py" % (b_idx, s_idx))
            rec[key + " write_robots"] = outcome(
                rg.write_robots, path, ln, wd, moves, rewards, loose, pt, pr, pl)
            gc.collect()
            if os.path.exists(path):
                with open(path, "rb") as handle:
                    rec[key + " write_robots bytes"] = digest(handle.read())
                check_loaded(key + " file", path, solve=(s_idx == 0 and ln * wd <= 4),
                             no_prune=(b_idx in (3, 8)))
            else:
                rec[key + " write_robots bytes"] = "no file"
        # keyword call of write_robots, as a library user might do
        if b_idx < 3:
            path = os.path.join("inputs", "kw_%d.py" % b_idx)
            rec["board %s kw" % tag] = outcome(
                rg.write_robots, file_name=path, length=length, width=width, moves=moves,
                rewards=rewards, loose_tiles=loose, prob_tile_break=0.1, prob_robot_break=0.2,
                prob_light_break=0.3)
            with open(path, "rb") as handle:
                rec["board %s kw bytes" % tag] = digest(handle.read())
    rec["write_robots missing dir"] = outcome(
        rg.write_robots, "no_such_dir/x.py", 1, 1, [[1]], [[1]], [[0]], 0.1, 0.1, 0.1)
    # non-numeric probabilities on a regular and on an empty board
    for ln, wd in ((1, 2), (0, 2), (2, 0)):
        for probs in (("a", 0.1, 0.1), (0.1, "b", 0.1), (0.1, 0.1, None), (None, None, None)):
            key = "weird probs %dx%d %r" % (ln, wd, probs)
            writer_case(key + " A", rg.write_robot_A, ln, wd, [[1, 3]], [[1, 2]], [[1, 0]], probs[0])
            writer_case(key + " B", rg.write_robot_B, ln, wd, [[1, 3]], [[1, 2]], [[1, 0]], *probs[:2])
            writer_case(key + " C", rg.write_robot_C, ln, wd, [[1, 3]], [[1, 2]], [[1, 0]], *probs)
    clear_dir("inputs")

    # ---- D. the building blocks the writers call ------------------------- #
    rnd = random.Random(99)
    for n in range(60):
        length = rnd.randint(0, 4)
        width = rnd.randint(0, 4)
        moves = [[rnd.randrange(-1, 5) for _ in range(width)] for _ in range(length)]
        loose = [[rnd.randint(0, 2) for _ in range(width)] for _ in range(length)]
        o1, o2, o3 = rnd.randrange(0, 50), rnd.randrange(0, 50), rnd.randrange(0, 50)
        prob = rnd.choice([0.1, 0.25, 1e-9, 0.9999999999999999, 0.3])
        win = rnd.choice([None, 0, 1, 77])
        key = "block %d %dx%d" % (n, length, width)
        rec[key + " p2"] = outcome(rg.player_two_transitions, length, width, moves,
                                   offset_r=o1, offset_y=o2)
        rec[key + " p1down"] = outcome(rg.player_one_down_transitions, length, width,
                                       offset=o1, winning_state=win)
        rec[key + " p1down default"] = outcome(rg.player_one_down_transitions, length, width, offset=o2)
        rec[key + " p1lr"] = outcome(rg.player_one_left_right_transitions, length, width, moves,
                                     offset_l=o1, offset_r=o2)
        rec[key + " p1lr same"] = outcome(rg.player_one_left_right_transitions, length, width, moves,
                                          offset_l=o3, offset_r=o3)
        rec[key + " tile"] = outcome(rg.prob_tile_break_transitions, length, width, prob, loose,
                                     offset=o1, loosing_state=o2)
        rec[key + " rdown"] = outcome(rg.prob_robot_down_break_transitions, length, width, prob,
                                      offset=o1, winning_state=o3)
        rec[key + " rleft"] = outcome(rg.prob_robot_left_break_transitions, length, width, prob,
                                      offset=o2)
        rec[key + " rright"] = outcome(rg.prob_robot_right_break_transitions, length, width, prob,
                                       offset=o3)
        rec[key + " p1dlr"] = outcome(rg.player_one_down_left_right_transitions, length, width, moves,
                                      offset_d=o1, offset_l=o2, offset_r=o3)
        rec[key + " light"] = outcome(rg.prob_light_break_transitions, length, width, prob,
                                      offset_ok=o1, offset_break=o2)
    for seed in range(25):
        for force in (False, True):
            ln, wd = 1 + seed % 4, 1 + (seed * 7) % 5
            rec["board gen %d %r" % (seed, force)] = outcome(
                rg.gen_rnd_board, seed, ln, wd, 0.3, 1 + seed % 7, force)
            random.seed(seed)
            rec["moves gen %d %r" % (seed, force)] = outcome(rg.get_random_moves, ln, wd, force)
    rec["board gen defaults"] = outcome(rg.gen_rnd_board, 3, 2, 2, 0.5)
    rec["constants"] = repr((rg.MOVE_SINTAX, rg.TILE_SYNTAX, rg.FOUR_SPACES, rg.EIGHT_SPACES,
                             rg.TWELVE_SPACES, rg.SIXTEEN_SPACES))
    for matrix in ([[1, 2], [3, 0]], [[5]], [[1], [2, 9]], [], [[]], [[1], []], [[], [1]], ((1, 2), (0,)),
                   [[1.5, 2], [2, 2.0]], [[1, "a"]], [1, 2], None, [[-1, -2]], [[True, 3]]):
        rec["max matrix %r" % (matrix,)] = outcome(mb.get_max_from_matrix, matrix)

    # ---- E. the manual entry point ---------------------------------------- #
    for b_idx, (tag, moves, rewards, loose) in enumerate(hand_boards()):
        pt, pr, pl = PROB_TRIPLES[b_idx % len(PROB_TRIPLES)]
        clear_dir("inputs")
        key = "manual %s" % tag
        rec[key] = outcome(mb.create_sg_from_board, moves, rewards, loose, pr, pl, pt)
        gc.collect()
        files = list_inputs()
        rec[key + "|files"] = repr({name: digest(data) for name, data in files.items()})
        for name in files:
            check_loaded(key + "|" + name, os.path.join("inputs", name),
                         solve=(b_idx % 4 == 0 and len(files[name]) < 6000))
    clear_dir("inputs")
    rec["manual kw"] = outcome(
        mb.create_sg_from_board, moves=[[1, 3]], rewards=[[2, 1]], loose_tiles=[[1, 0]],
        prob_robot_break=0.01, prob_light_break=0.5, prob_tile_break=0.999)
    rec["manual kw files"] = repr({n: digest(d) for n, d in list_inputs().items()})
    clear_dir("inputs")

    # ---- F. the reader on odd and malformed files ------------------------- #
    odd_files = {
        "empty": "",
        "blank": "  \n\n",
        "comment_only": "# nothing here\n",
        "list": "[1, 2, 3]\n",
        "number": "42",
        "string": "'abc'",
        "none": "None",
        "tuple": "({'a': 1},)",
        "set": "{1, 2}",
        "empty_dict": "{}",
        "dict_comment": "# c\n{'game_a': {'rewards': [1]}}  # trailing\n",
        "nested": "{'a': {'b': [(0.5, 1), (1 - 0.5, 2)]}}",
        "ordered": "__import__('collections').OrderedDict(a=1)",
        "dict_call": "dict(game_a=1, game_b=2)",
        "syntax": "{'a': ",
        "statement": "x = {'a': 1}",
        "name_error": "{'a': nan}",
        "inf_name": "{'a': inf}",
        "zero_div": "{'a': 1/0}",
        "uses_contents": "{'n': len(contents)}",
        "uses_file_name": "{'n': file_name}",
        "uses_file": "{'n': file.closed, 'm': file.mode}",
        "uses_dictionary": "{'n': dictionary}",
        "uses_locals": "{'n': sorted(locals())}",
        "uses_globals": "{'n': sorted(k for k in globals() if not k.startswith('__'))}",
        "bom": "﻿{'a': 1}",
        "crlf": "{\r\n 'a': 1\r\n}\r\n",
        "unicode": "{'ñ': 'é'}",
        "raise_value": "(_ for _ in ()).throw(ValueError('boom'))",
        "exit": "__import__('sys').exit(3)",
    }
    for name, text in odd_files.items():
        path = os.path.join("inputs", "odd_" + name + ".py")
        with open(path, "w", encoding="utf-8", newline="") as handle:
            handle.write(text)
        rec["reader " + name] = outcome(cr.read_dict_from_file, path)
    with open("inputs/binary.py", "wb") as handle:
        handle.write(b"{'a': '\xff\xfe'}")
    rec["reader binary"] = outcome(cr.read_dict_from_file, "inputs/binary.py")
    rec["reader missing"] = outcome(cr.read_dict_from_file, "inputs/does_not_exist.py")
    rec["reader directory"] = outcome(cr.read_dict_from_file, "inputs")
    rec["reader none"] = outcome(cr.read_dict_from_file, None)
    rec["reader kw"] = outcome(cr.read_dict_from_file, file_name="inputs/odd_nested.py")
    rec["reader bytes path"] = outcome(cr.read_dict_from_file, b"inputs/odd_nested.py")
    clear_dir("inputs")
    # the files that ship with the repository
    shipped = os.path.join(root, "inputs")
    for name in sorted(os.listdir(shipped)):
        path = os.path.join(shipped, name)
        if os.path.getsize(path) < 400000:
            res = outcome(cr.read_dict_from_file, path)
            rec["reader shipped " + name] = digest(res) + " " + res[:60]

    # ---- G. generator -> driver -> report --------------------------------- #
    import logging
    logging.disable(logging.CRITICAL)
    driver_cases = [["-s", "1", "-w", "2", "-l", "1"], ["-s", "1", "-w", "1", "-l", "2", "-f"],
                    ["-s", "2", "-w", "2", "-l", "2", "-t", "0.9"],
                    ["-s", "6", "-w", "2", "-l", "2", "-f", "-p", "0.4", "-q", "0.6", "-r", "0.7"],
                    ["-s", "11", "-w", "3", "-l", "1", "-m", "2"], ["-s", "4", "-w", "1", "-l", "1"]]
    for argv in driver_cases:
        clear_dir("inputs")
        clear_dir("outputs")
        sys.argv = ["roberta_generator.py"] + argv
        rg.main()
        (name,) = os.listdir("inputs")
        path = "inputs/" + name
        key = "driver " + " ".join(argv)

        def drive():
            results = cr.run_games(cr.read_dict_from_file(path))
            for entry in results.values():
                entry["total_time"] = 0
            cr.save_results_to_file(results, path)
            with open("outputs/" + name[:-3] + ".txt") as handle:
                return results, handle.read()
        rec[key] = budgeted(drive, budget=DRIVER_BUDGET)

    with open(out_path, "w") as handle:
        json.dump(rec, handle)
    os.chdir("/")
    shutil.rmtree(scratch, ignore_errors=True)


# --------------------------------------------------------------------------- #
# parent
# --------------------------------------------------------------------------- #

def main():
    if len(sys.argv) == 4 and sys.argv[1] == "--worker":
        worker(sys.argv[2], sys.argv[3])
        return 0
    if len(sys.argv) != 3:
        print(__doc__)
        return 2
    started = time.time()
    tmp = tempfile.mkdtemp(prefix="c11_equiv_out_")
    procs = []
    for tag, root in (("patched", sys.argv[1]), ("clean", sys.argv[2])):
        out = os.path.join(tmp, tag + ".json")
        env = dict(os.environ, PYTHONDONTWRITEBYTECODE="1", PYTHONHASHSEED="0")
        procs.append((tag, out, subprocess.Popen(
            [sys.executable, os.path.abspath(__file__), "--worker", root, out], env=env)))
    records = {}
    failed = False
    for tag, out, proc in procs:
        if proc.wait() != 0 or not os.path.exists(out):
            print("worker for the %s tree crashed (exit %r)" % (tag, proc.returncode))
            failed = True
            continue
        with open(out) as handle:
            records[tag] = json.load(handle)
    shutil.rmtree(tmp, ignore_errors=True)
    if failed:
        print("FAIL")
        return 1
    patched, clean = records["patched"], records["clean"]
    differences = []
    timeouts = 0
    for key in sorted(set(patched) | set(clean)):
        a, b = patched.get(key, "<<missing>>"), clean.get(key, "<<missing>>")
        if TIMEOUT in (a, b):
            timeouts += 1
            continue
        if a != b:
            differences.append((key, a, b))
    print("%d observations compared, %d skipped for the time budget, %.1fs"
          % (len(clean), timeouts, time.time() - started))
    for key, a, b in differences[:25]:
        print("DIFF at %s\n   patched: %s\n   clean  : %s" % (key, a[:400], b[:400]))
    if differences:
        print("%d differences" % len(differences))
        print("FAIL")
        return 1
    print("PASS")
    return 0


if __name__ == "__main__":
    sys.exit(main())
