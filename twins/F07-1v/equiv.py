#!/usr/bin/env python
"""Differential test for property C07 (backward search / reversed-transition table).

usage: python equiv.py <clean_repo_dir> <patched_repo_dir>

Every tree is loaded in its own subprocess (module names collide); both
subprocesses run the same deterministic list of cases and print one line per
case (label, outcome).  The parent compares the two transcripts line by line,
prints SAME and exits 0 if they are identical, prints the first difference and
exits 1 otherwise.  The worker also checks every well-formed result against an
independent oracle; an oracle failure in either tree is reported as a
difference as well.
"""
import hashlib
import os
import random
import subprocess
import sys
import tempfile

CASE_TIMEOUT = 5  # seconds, for end-to-end solves only


# --------------------------------------------------------------------------- #
# worker
# --------------------------------------------------------------------------- #
class _Timeout(Exception):
    pass


def _short(text):
    if len(text) > 1500:
        return text[:200] + "...sha1=" + hashlib.sha1(text.encode()).hexdigest() \
            + " len=%d" % len(text)
    return text


def _outcome(fn, *args):
    try:
        result = fn(*args)
    except _Timeout:
        raise
    except RecursionError as exc:
        return "EXC RecursionError"
    except BaseException as exc:  # noqa - we want type and message of everything
        return "EXC %s %s" % (type(exc).__name__, _short(repr(exc.args)))
    return "OK %s %s" % (type(result).__name__, _short(repr(result)))


class Unhashable(list):
    pass


def worker(tree):
    import signal
    tree = os.path.abspath(tree)
    sys.path.insert(0, tree)
    sys.dont_write_bytecode = True
    import reverse_dfs as R

    out = []

    def emit(label, text):
        out.append("%s\t%s" % (label, text.replace("\n", "\\n")))

    rng = random.Random(20240507)

    # ---------------------------------------------------------------- helpers
    def rnd_label(r):
        return r.choice(["a", "b", "go", 0.5, 0.25, 1, 1 / 3])

    def rnd_graph(r, n, max_out=4, p_empty=0.2):
        graph = []
        for _ in range(n):
            if r.random() < p_empty:
                graph.append([])
                continue
            k = r.randint(1, max_out)
            graph.append([(rnd_label(r), r.randrange(n)) for _ in range(k)])
        return graph

    def rnd_finals(r, n):
        k = r.randint(1, max(1, min(n, 6)))
        finals = [r.randrange(n) for _ in range(k)]          # repetitions allowed
        if r.random() < 0.3:
            finals += r.choices(finals, k=r.randint(1, 3))   # explicit repetitions
        r.shuffle(finals)
        return finals

    def oracle(graph, finals):
        """non-final states with a path to a final, ascending (independent BFS)."""
        import collections
        preds = collections.defaultdict(set)
        for u, trans in enumerate(graph):
            for _, v in trans:
                preds[v].add(u)
        final_set = frozenset(finals)
        good = set(final_set)
        queue = collections.deque(final_set)
        while queue:
            v = queue.popleft()
            for u in preds[v]:
                if u not in good:
                    good.add(u)
                    queue.append(u)
        return sorted(good - final_set)

    def oracle_table(graph):
        n = len(graph)
        seen_order = []
        table = {}
        for u, trans in enumerate(graph):
            for _, v in trans:
                if v not in table:
                    table[v] = []
                    seen_order.append(v)
                table[v].append(u)
        for s in range(n):
            if s not in table:
                table[s] = []
                seen_order.append(s)
        return table, seen_order

    def check_graph(label, graph, finals, containers=True, with_oracle=True):
        import copy
        g0 = copy.deepcopy(graph)
        f0 = list(finals)
        emit(label + " rtl", _outcome(R.reverse_transition_list, graph))
        emit(label + " core", _outcome(R.reverse_transition_list_core, graph))
        res = _outcome(R.reverse_dfs, graph, finals)
        emit(label + " dfs", res)
        if graph != g0 or finals != f0:
            emit(label + " MUTATED", repr((graph, finals))[:300])
        if with_oracle:
            expect = "OK list %s" % _short(repr(oracle(graph, finals)))
            if res != expect:
                emit(label + " ORACLE-FAIL dfs", "expected " + expect[:300])
            table, order = oracle_table(graph)
            got = R.reverse_transition_list(graph)
            if got != table or list(got) != order or type(got) is not dict:
                emit(label + " ORACLE-FAIL rtl", "expected " + repr(table)[:300])
        if containers:
            emit(label + " dfs/tuple", _outcome(R.reverse_dfs, graph, tuple(finals)))
            try:
                hash(tuple(finals))
                hashable = True
            except TypeError:
                hashable = False
            if hashable:
                emit(label + " dfs/set", _outcome(R.reverse_dfs, graph, set(finals)))
                emit(label + " dfs/frozenset", _outcome(R.reverse_dfs, graph, frozenset(finals)))
                emit(label + " dfs/dict", _outcome(R.reverse_dfs, graph, dict.fromkeys(finals, "x")))
            emit(label + " dfs/iter", _outcome(R.reverse_dfs, graph, iter(finals)))
            emit(label + " dfs/gen", _outcome(R.reverse_dfs, graph, (f for f in finals)))
            emit(label + " dfs/tuplegraph", _outcome(
                R.reverse_dfs, tuple(tuple(t) if isinstance(t, list) else t for t in graph), finals))

    # ------------------------------------------------------ 1. random graphs
    for i in range(1500):
        n = rng.choice([1, 1, 2, 2, 3, 4, 5, 6, 7, 8, 10, 12, 15, 20, 30, 40])
        graph = rnd_graph(rng, n, max_out=rng.choice([1, 2, 4, 6]),
                          p_empty=rng.choice([0.0, 0.2, 0.6]))
        finals = rnd_finals(rng, n)
        check_graph("rand%d" % i, graph, finals, containers=(i % 5 == 0))

    # larger random graphs, many finals
    for i in range(40):
        n = rng.choice([100, 300, 1000])
        graph = rnd_graph(rng, n, max_out=3, p_empty=0.3)
        finals = [rng.randrange(n) for _ in range(rng.choice([1, 5, 50, n // 2]))]
        check_graph("big%d" % i, graph, finals, containers=False)

    # ------------------------------------------------------ 2. boundary shapes
    shapes = {}
    shapes["empty/nofinals"] = ([], [])
    shapes["one/self"] = ([[("a", 0)]], [0])
    shapes["one/noedges"] = ([[]], [0])
    shapes["one/noedges/nofinals"] = ([[]], [])
    shapes["two/parallel"] = ([[("a", 1), ("b", 1), (0.5, 1)], []], [1])
    shapes["two/parallel+self"] = ([[("a", 1), ("a", 0), ("b", 1)], [(1, 1), (1, 1)]], [1, 1, 1])
    shapes["diamond"] = ([[("a", 1), ("b", 2)], [(1, 3)], [(1, 3)], [(1, 3)]], [3])
    shapes["double-diamond"] = (
        [[("a", 1), ("b", 2)], [(1, 3)], [(1, 3)], [("a", 4), ("b", 5)], [(1, 6)], [(1, 6)], [(1, 6)]],
        [6])
    shapes["unreachable-part"] = (
        [[("a", 1)], [(1, 1)], [("a", 3)], [(1, 2)], [(1, 4)]], [1])
    shapes["all-final"] = ([[("a", 1)], [("a", 2)], [("a", 0)]], [2, 0, 1, 0])
    shapes["finals-unordered-rep"] = (
        [[("a", 1)], [("a", 2)], [("a", 3)], [("a", 4)], [(1, 4)], [(1, 0)]], [4, 2, 4, 2, 2])
    n = 5000
    shapes["chain5000"] = ([[(1, i + 1)] for i in range(n - 1)] + [[(1, n - 1)]], [n - 1])
    shapes["chain5000/mid"] = ([[(1, i + 1)] for i in range(n - 1)] + [[(1, n - 1)]], [n // 2, 7])
    shapes["backchain5000"] = ([[(1, 0)]] + [[(1, i - 1)] for i in range(1, n)], [0])
    shapes["cycle3000"] = ([[(1, (i + 1) % 3000)] for i in range(3000)], [1234])
    shapes["ladder"] = (
        [[("a", min(i + 1, 3999)), ("b", min(i + 2, 3999))] for i in range(4000)], [3999, 0])
    depth = 12
    size = 2 ** depth - 1
    shapes["bintree-down"] = (
        [[("l", 2 * i + 1), ("r", 2 * i + 2)] if 2 * i + 2 < size else [] for i in range(size)],
        [size - 1, size // 2])
    shapes["bintree-up"] = ([[]] + [[(1, (i - 1) // 2)] for i in range(1, size)], [0])
    shapes["complete60"] = ([[("x", j) for j in range(60)] for _ in range(60)], [59, 0])
    shapes["star-in"] = ([[]] + [[(1, 0)] for _ in range(2000)], [0])
    shapes["star-out"] = ([[("a", j) for j in range(1, 2000)]] + [[] for _ in range(1999)], [1999, 5])
    shapes["many-finals"] = (
        [[(1, (i * 7 + 3) % 4000)] for i in range(4000)], list(range(0, 4000, 2)) * 2)
    for label, (graph, finals) in shapes.items():
        check_graph("shape:" + label, graph, finals, containers=True)

    # ------------------------------------------------------ 3. malformed input
    def bad_graphs():
        u = Unhashable
        yield "None", lambda: None
        yield "int", lambda: 5
        yield "str", lambda: "ab"
        yield "generator", lambda: (t for t in [[("a", 0)]])
        yield "generator+badarity", lambda: (t for t in [[("a", 0)], [("a",)]])
        yield "generator+unhashable", lambda: (t for t in [[("a", [])]])
        yield "dict-graph", lambda: {0: [("a", 1)], 1: []}
        yield "state-not-iterable", lambda: [[("a", 1)], 7]
        yield "state-none", lambda: [None, [("a", 0)]]
        yield "arity1", lambda: [[("a", 1)], [("b",)]]
        yield "arity3", lambda: [[("a", 1, 2)], []]
        yield "arity0", lambda: [[()], []]
        yield "transition-int", lambda: [[3], []]
        yield "transition-str2", lambda: [["ab"], []]
        yield "transition-str3", lambda: [["abc"], []]
        yield "transition-list2", lambda: [[["a", 1]], []]
        yield "unhashable-target", lambda: [[("a", [1])], []]
        yield "unhashable-then-arity", lambda: [[("a", [1])], [("b",)]]
        yield "arity-then-unhashable", lambda: [[("b",)], [("a", [1])]]
        yield "unhashable-then-notiter", lambda: [[("a", {})], 5]
        yield "target-out-of-range", lambda: [[("a", 5)], [("b", 0)]]
        yield "target-negative", lambda: [[("a", -1)], [("b", 0)]]
        yield "target-str", lambda: [[("a", "1")], [("b", 0)]]
        yield "target-float", lambda: [[("a", 1.0)], [("b", 0)], [("c", 1)]]
        yield "target-bool", lambda: [[("a", True)], [("b", False)]]
        yield "target-none", lambda: [[("a", None)], [("b", 0)]]
        yield "target-tuple", lambda: [[("a", (1, 2))], [("b", 0)]]
        yield "target-mixed-order", lambda: [[("a", 9), ("a", 1)], [("b", 7), ("b", 9)], []]
        yield "ok-small", lambda: [[("a", 1)], [("b", 0), ("c", 2)], [(1, 2)]]

    def bad_finals():
        yield "None", lambda: None
        yield "int", lambda: 1
        yield "empty", lambda: []
        yield "empty-tuple", lambda: ()
        yield "empty-iter", lambda: iter(())
        yield "out-of-range", lambda: [7]
        yield "ok-then-out-of-range", lambda: [0, 7]
        yield "two-out-of-range", lambda: [8, 7]
        yield "two-out-of-range-rev", lambda: [7, 8]
        yield "negative", lambda: [-1]
        yield "unhashable", lambda: [[0]]
        yield "unhashable-then-out", lambda: [[0], 7]
        yield "out-then-unhashable", lambda: [7, [0]]
        yield "ok-then-unhashable", lambda: [1, {}]
        yield "str", lambda: "1"
        yield "str-elem", lambda: ["1"]
        yield "float", lambda: [1.0]
        yield "float-frac", lambda: [0.5]
        yield "bool", lambda: [True]
        yield "none-elem", lambda: [None]
        yield "tuple-elem", lambda: [(1, 2)]
        yield "nine", lambda: [9]
        yield "range", lambda: range(1, 3)
        yield "range-out", lambda: range(0, 30)
        yield "dict", lambda: {1: "x"}
        yield "set", lambda: {0, 1}
        yield "iter", lambda: iter([1, 0])
        yield "iter-out", lambda: iter([1, 7])
        yield "gen", lambda: (x for x in [0])
        yield "ok", lambda: [1]
        yield "ok-rep", lambda: [2, 1, 2]

    for gl, gf in bad_graphs():
        emit("bad:%s rtl" % gl, _outcome(R.reverse_transition_list, gf()))
        emit("bad:%s core" % gl, _outcome(R.reverse_transition_list_core, gf()))
        for fl, ff in bad_finals():
            emit("bad:%s x %s dfs" % (gl, fl), _outcome(R.reverse_dfs, gf(), ff()))

    # random graphs with random defects
    for i in range(600):
        n = rng.randint(1, 8)
        graph = rnd_graph(rng, n)
        finals = rnd_finals(rng, n)
        for _ in range(rng.randint(1, 2)):
            kind = rng.randrange(8)
            s = rng.randrange(n)
            if not isinstance(graph[s], list):
                kind = 4 + kind % 3
            if kind == 0:
                graph[s] = graph[s] + [("a", n + rng.randint(0, 3))]
            elif kind == 1:
                graph[s] = graph[s] + [("a",)]
            elif kind == 2:
                graph[s] = [("a", [0])] + graph[s]
            elif kind == 3:
                graph[s] = rng.choice([None, 3, "xy", "xyz"])
            elif kind == 4:
                finals.insert(rng.randrange(len(finals) + 1), n + rng.randint(0, 3))
            elif kind == 5:
                finals.insert(rng.randrange(len(finals) + 1), [0])
            elif kind == 6:
                finals.insert(rng.randrange(len(finals) + 1), rng.choice([-1, 0.5, None, "0"]))
            else:
                graph[s] = graph[s] + [("a", rng.choice([-1, 1.0, True, None]))]
        check_graph("defect%d" % i, graph, finals, containers=(i % 4 == 0), with_oracle=False)

    # ------------------------------------------------------ 4. the helpers
    def helper_cases():
        yield "l2d ok", R.list_of_tuples_to_dict_of_lists, lambda: ([(1, 99), (1, 98), (2, 97), (1, 90)],)
        yield "l2d empty", R.list_of_tuples_to_dict_of_lists, lambda: ([],)
        yield "l2d lists", R.list_of_tuples_to_dict_of_lists, lambda: ([[1, 2], [1, 3, 4], "ab", "ac"],)
        yield "l2d short", R.list_of_tuples_to_dict_of_lists, lambda: ([(1, 2), (3,)],)
        yield "l2d empty-tuple", R.list_of_tuples_to_dict_of_lists, lambda: ([(1, 2), ()],)
        yield "l2d unhashable", R.list_of_tuples_to_dict_of_lists, lambda: ([([], 2), (3,)],)
        yield "l2d int", R.list_of_tuples_to_dict_of_lists, lambda: ([5],)
        yield "l2d none", R.list_of_tuples_to_dict_of_lists, lambda: (None,)
        yield "l2d mixedkeys", R.list_of_tuples_to_dict_of_lists, lambda: ([(1, 0), (1.0, 1), (True, 2), ("1", 3)],)
        yield "l2d gen", R.list_of_tuples_to_dict_of_lists, lambda: (((i % 3, i) for i in range(9)),)
        yield "ams ok", R.add_missing_states, lambda: ({2: [1], 7: [0]}, 4)
        yield "ams zero", R.add_missing_states, lambda: ({2: [1]}, 0)
        yield "ams neg", R.add_missing_states, lambda: ({2: [1]}, -3)
        yield "ams str", R.add_missing_states, lambda: ({2: [1]}, "3")
        yield "ams float", R.add_missing_states, lambda: ({2: [1]}, 3.0)
        yield "ams bool", R.add_missing_states, lambda: ({}, True)
        yield "ams none-dict", R.add_missing_states, lambda: (None, 2)
        yield "ams list", R.add_missing_states, lambda: ([[], []], 2)
    for label, fn, mk in helper_cases():
        args = mk()
        emit("helper:" + label, _outcome(fn, *args))
    d = {2: [1]}
    emit("helper:ams identity", repr(R.add_missing_states(d, 4) is d) + repr(d))
    for i in range(200):
        pairs = [(rng.randrange(6), rng.randrange(50)) for _ in range(rng.randint(0, 12))]
        emit("helper:l2d rnd%d" % i, _outcome(R.list_of_tuples_to_dict_of_lists, pairs))
        dd = {rng.randrange(10): [rng.randrange(5)] for _ in range(rng.randint(0, 4))}
        emit("helper:ams rnd%d" % i, _outcome(R.add_missing_states, dd, rng.randint(0, 10)))

    # reverse_dfs_from, where the tree has it (both trees must agree on that as well)
    emit("helper:has reverse_dfs_from", repr(hasattr(R, "reverse_dfs_from")))
    if hasattr(R, "reverse_dfs_from"):
        for i in range(300):
            n = rng.randint(1, 10)
            graph = rnd_graph(rng, n)
            table = R.reverse_transition_list(graph)
            visited = set(rng.sample(range(n), rng.randint(0, n // 2)))
            start = rng.choice(list(range(n)) + [n + 2, -1])
            res = _outcome(R.reverse_dfs_from, start, table, visited)
            emit("helper:from rnd%d" % i, res + " visited=" + repr(sorted(visited)))
        for start in ([0], None, "x", 1.0, True):
            visited = {2}
            table = {0: [1], 1: [2, 0], 2: [], 3: [1]}
            try:
                res = _outcome(R.reverse_dfs_from, start, table, visited)
            except Exception as exc:  # pragma: no cover
                res = "?? " + repr(exc)
            emit("helper:from odd %r" % (start,), res + " visited=" + repr(sorted(visited, key=repr)))
        visited = set()
        emit("helper:from missing-pred", _outcome(R.reverse_dfs_from, 0, {0: [5]}, visited)
             + " visited=" + repr(sorted(visited)))

    # ------------------------------------------------------ 5. generator boards
    import roberta_generator as G
    workdir = tempfile.mkdtemp(prefix="c07_")
    boards = [(0, 200, 3, False), (1, 300, 1, False), (2, 1, 1, False), (3, 1, 6, True),
              (4, 3, 1, True), (5, 120, 4, True), (6, 2, 2, False), (7, 5, 5, True)]
    for seed, length, width, force_down in boards:
        label = "board s%d l%d w%d fd%d" % (seed, length, width, force_down)
        moves, rewards, loose = G.gen_rnd_board(seed, length, width, 0.3, 6, force_down)
        path = os.path.join(workdir, "b%d.py" % seed)
        G.write_robots(path, length, width, moves, rewards, loose, 0.1, 0.1, 0.05)
        with open(path, "rb") as fh:
            raw = fh.read()
        emit(label + " file", hashlib.sha1(raw).hexdigest())
        games = eval(raw.decode())
        for name, game in games.items():
            tl, fs = game["transition_list"], game["final_states"]
            emit(label + " " + name + " rtl", _outcome(R.reverse_transition_list, tl))
            res = _outcome(R.reverse_dfs, tl, fs)
            emit(label + " " + name + " dfs", res)
            expect = "OK list %s" % _short(repr(oracle(tl, fs)))
            if res != expect:
                emit(label + " " + name + " ORACLE-FAIL", expect[:300])
            emit(label + " " + name + " dfs/revfinals", _outcome(R.reverse_dfs, tl, fs[::-1] + fs))

    # ------------------------------------------------------ 6. end to end through tad
    import copy
    import logging
    import tad
    import conditionalrewards as C
    logging.disable(logging.CRITICAL)

    class _FakeTime:
        @staticmethod
        def time():
            return 0.0
    C.time = _FakeTime

    def _alarm(signum, frame):
        raise _Timeout()
    signal.signal(signal.SIGALRM, _alarm)

    def guarded(fn, *args):
        signal.alarm(CASE_TIMEOUT)
        try:
            return _outcome(fn, *args)
        except _Timeout:
            return "TIMEOUT"
        finally:
            signal.alarm(0)

    P1, P2, PR = tad.PLAYER_1, tad.PLAYER_2, tad.PROBABILISTIC

    def rnd_game(r):
        n = r.randint(3, 14)
        n_sinks = r.randint(1, 3)
        body = n - n_sinks
        players, tl, rewards = [], [], []
        for s in range(body):
            kind = r.choice([P1, P2, PR])
            players.append(kind)
            rewards.append(r.choice([0, 1, 2, 5]))
            if kind == PR:
                fwd = r.randrange(s + 1, n)
                if r.random() < 0.5:
                    other = r.randrange(n)            # may go backwards: cycle with a leak
                    p = r.choice([0.5, 0.25, 0.75, 0.1])
                    tl.append([(p, fwd), (1 - p, other)])
                else:
                    tl.append([(1, fwd)])
            else:
                k = r.randint(1, 3)
                tl.append([(r.choice("abc") + str(j), r.randrange(s + 1, n)) for j in range(k)])
        for s in range(body, n):
            players.append(PR)
            rewards.append(0)
            tl.append([(1, s)])
        sinks = list(range(body, n))
        finals = r.sample(sinks, r.randint(1, len(sinks)))
        if r.random() < 0.3:
            finals = finals + [r.randrange(n)]
        if r.random() < 0.3:
            finals = finals + finals[:1]
        r.shuffle(finals)
        return {"rewards": rewards, "players": players, "transition_list": tl,
                "final_states": finals}

    def solve(game, prune):
        g = copy.deepcopy(game)
        return tad.StochasticGame(prune_states=prune, **g).solve()

    for i in range(350):
        game = rnd_game(rng)
        for prune in (True, False):
            emit("game%d prune=%s" % (i, prune), guarded(solve, game, prune))

    # malformed games through the front door
    base = {"rewards": [0, 0, 0], "players": [P1, PR, PR],
            "transition_list": [[("a", 1), ("b", 2)], [(1, 1)], [(1, 2)]], "final_states": [1]}
    variants = {
        "ok": {},
        "nofinals": {"final_states": []},
        "final-out": {"final_states": [3]},
        "final-neg": {"final_states": [-1]},
        "final-rep": {"final_states": [1, 1, 2]},
        "final-tuple": {"final_states": (2, 1)},
        "final-set": {"final_states": {2}},
        "final-unreachable": {"transition_list": [[("a", 2)], [(1, 1)], [(1, 2)]]},
        "missing-transitions": {"transition_list": [[("a", 1)], [], [(1, 2)]]},
        "short-list": {"transition_list": [[("a", 1)], [(1, 1)]]},
        "bad-arity": {"transition_list": [[("a", 1, 1)], [(1, 1)], [(1, 2)]]},
        "target-out": {"transition_list": [[("a", 5)], [(1, 1)], [(1, 2)]]},
    }
    for label, change in variants.items():
        game = dict(base)
        game.update(change)
        for prune in (True, False):
            emit("frontdoor:%s prune=%s" % (label, prune), guarded(solve, game, prune))

    # the shipped input files, through the driver, report files byte for byte
    small_inputs = ["example_games.py", "paper_games.py", "example_17_08.py", "manual_1_game_a.py",
                    "manual_arrow_bottom.py", "robot_1_w1_l2_r6_rb10_lb5_tb10_lt0.py",
                    "robot_1_w2_l1_r6_rb10_lb5_tb10_lt0.py", "robot_1_w2_l2_r6_rb10_lb5_tb10_lt0.py",
                    "robot_999132423_w3_l3_r6_rb1_lb2_tb10_lt30.py",
                    "robot_manual_0_w4_l4_r6_rb10_lb5_tb10_lt30.py"]
    os.makedirs(os.path.join(workdir, "outputs"), exist_ok=True)
    os.chdir(workdir)
    for name in small_inputs:
        path = os.path.join(tree, "inputs", name)
        if not os.path.exists(path):
            emit("driver:%s" % name, "missing")
            continue

        def drive(path=path):
            games = C.read_dict_from_file(path)
            for gname, game in games.items():
                emit("driver:%s %s dfs" % (name, gname),
                     _outcome(R.reverse_dfs, game["transition_list"], game["final_states"]))
            results = C.run_games(games)
            C.save_results_to_file(results, path)
            with open(os.path.join("outputs", name.split(".")[0] + ".txt"), "rb") as fh:
                return hashlib.sha1(fh.read()).hexdigest(), _short(repr(results))
        signal.alarm(40)
        try:
            emit("driver:%s" % name, _outcome(drive))
        except _Timeout:
            emit("driver:%s" % name, "TIMEOUT")
        finally:
            signal.alarm(0)

    sys.stdout.write("\n".join(out) + "\n")


# --------------------------------------------------------------------------- #
# parent
# --------------------------------------------------------------------------- #
def run_tree(tree):
    env = dict(os.environ)
    env["PYTHONHASHSEED"] = "0"
    env["PYTHONDONTWRITEBYTECODE"] = "1"
    env.pop("PYTHONPATH", None)
    proc = subprocess.run(
        [sys.executable, os.path.abspath(__file__), "--worker", os.path.abspath(tree)],
        env=env, stdout=subprocess.PIPE, stderr=subprocess.PIPE, text=True,
        cwd=tempfile.gettempdir(), timeout=110)
    if proc.returncode != 0:
        print("worker for %s failed (exit %d):\n%s" % (tree, proc.returncode, proc.stderr[-3000:]))
        sys.exit(1)
    return proc.stdout.splitlines()


def main():
    if len(sys.argv) == 3 and sys.argv[1] == "--worker":
        worker(sys.argv[2])
        return
    if len(sys.argv) != 3:
        print(__doc__)
        sys.exit(2)
    from concurrent.futures import ThreadPoolExecutor
    with ThreadPoolExecutor(2) as pool:
        clean, patched = pool.map(run_tree, [sys.argv[1], sys.argv[2]])
    for idx, (a, b) in enumerate(zip(clean, patched)):
        if a != b:
            print("DIFFERENT at case %d:\n clean  : %s\n patched: %s" % (idx, a[:600], b[:600]))
            sys.exit(1)
    if len(clean) != len(patched):
        print("DIFFERENT number of cases: %d vs %d" % (len(clean), len(patched)))
        sys.exit(1)
    for side, lines in (("clean", clean), ("patched", patched)):
        for line in lines:
            if "ORACLE-FAIL" in line or "MUTATED" in line:
                print("DIFFERENT from the specification (%s tree): %s" % (side, line[:600]))
                sys.exit(1)
    sys.stderr.write("%d cases compared\n" % len(clean))
    print("SAME")
    sys.exit(0)


if __name__ == "__main__":
    main()
