#!/usr/bin/env python
"""Differential test for property C16 (the saved report states exactly what was computed).

usage: python equiv.py <clean_repo_dir> <patched_repo_dir>

Both trees are loaded in their own subprocess (module names collide).  Each worker runs the
SAME seeded case list and dumps one repr per case; the parent compares the two dumps and
prints SAME (exit 0) or the first difference (exit 1).

Sections
  A  save_results_to_file called directly: random result dictionaries (None entries, empty
     lists, long float vectors, odd names), many spellings of the file name, malformed
     entries (missing keys, non-dict blocks, non-dict results, non-str file names, missing
     outputs directory, target is a directory); the bytes of every file below outputs/
     are compared, also after an exception (partially written reports).
  A' the same function with tracing objects: order of lookups / formatting / equality /
     writes, format() versus str(), non-bool equality results.
  B  read_dict_from_file: textual games in several styles, non-dict contents, syntax / name
     errors, texts that look at the evaluation namespace, unreadable files.
  C  init_parser: help / usage bytes, action table, parse_args over many argument vectors
     (exit code and stderr for the rejected ones).
  D  main() in process with a deterministic clock: random games of all three state kinds
     (cycles, parallel edges, exact ties, several finals, malformed ones), both pruning
     modes; report bytes, exception, log text.  Solves that do not converge are cut off by a
     deterministic cap on the number of abs() calls inside tad (same in both trees).
  E  the real command line (python conditionalrewards.py -f inputs/X.py -s) on shipped
     inputs; the wall-clock line is masked.
"""
import sys
import os
import json
import subprocess
import tempfile

HERE = os.path.abspath(__file__)


# --------------------------------------------------------------------------------------
# worker
# --------------------------------------------------------------------------------------
def worker(repo, out_path):
    import random
    import io
    import re
    import shutil
    import hashlib
    import signal
    import logging
    import enum
    import pathlib
    import contextlib

    repo = os.path.abspath(repo)
    sys.path.insert(0, repo)
    scratch = tempfile.mkdtemp(prefix="f16_")
    os.chdir(scratch)
    os.environ["COLUMNS"] = "80"
    import conditionalrewards as cr
    import tad

    results = []

    def put(case, value):
        results.append([case, value])

    def exc_repr(e):
        return f"{type(e).__module__}.{type(e).__qualname__}: {e!s} | args={e.args!r}"

    def digest(data):
        if len(data) > 3000:
            return f"len={len(data)} sha={hashlib.sha256(data).hexdigest()} head={data[:400]!r}"
        return repr(data)

    def snapshot(root="outputs"):
        found = {}
        if not os.path.isdir(root):
            return "<no outputs dir>"
        for base, dirs, files in os.walk(root):
            dirs.sort()
            for d in dirs:
                found[os.path.join(base, d) + "/"] = "<dir>"
            for f in sorted(files):
                with open(os.path.join(base, f), "rb") as fh:
                    found[os.path.join(base, f)] = digest(fh.read())
        return repr(sorted(found.items()))

    def fresh_outputs():
        shutil.rmtree("outputs", ignore_errors=True)
        os.mkdir("outputs")

    def call(fn, *args):
        try:
            return "ret " + repr(fn(*args))
        except BaseException as e:  # noqa
            if isinstance(e, KeyboardInterrupt):
                raise
            return "exc " + exc_repr(e)

    # ---------------------------------------------------------------- value generators
    ACTIONS = ["alfa", "beta", "gamma", "delta", "a_1", "up", "down", "it's", 'q"q', ""]

    def rand_float(r):
        k = r.randrange(12)
        if k == 0:
            return r.random()
        if k == 1:
            return r.uniform(-1e6, 1e6)
        if k == 2:
            return r.choice([1e-300, 1e300, 5e-324, 1.7976931348623157e308])
        if k == 3:
            return r.choice([float("inf"), float("-inf"), float("nan"), -0.0, 0.0])
        if k == 4:
            return r.choice([0.1 + 0.2, 1 / 3, 2 / 3, 0.99, 0.01, 1e-6, 1e16, 1e15, 123456789.123456789])
        if k == 5:
            return r.randint(-5, 10 ** r.randint(0, 30))
        if k == 6:
            return r.random() * 10 ** r.randint(-20, 20)
        if k == 7:
            return r.choice([0, 1, 1.0, True, False])
        return round(r.random(), r.randint(0, 17))

    def rand_vec(r):
        k = r.randrange(10)
        if k == 0:
            return None
        if k == 1:
            return []
        n = r.choice([1, 2, 3, 7, 7, 12, 60, 400]) if r.random() < 0.3 else r.randint(1, 8)
        return [None if r.random() < 0.05 else rand_float(r) for _ in range(n)]

    def rand_strats(r):
        k = r.randrange(8)
        if k == 0:
            return None
        if k == 1:
            return []
        return [r.choice([None, None, [], [r.choice(ACTIONS)],
                          [r.choice(ACTIONS) for _ in range(r.randint(1, 3))]])
                for _ in range(r.randint(1, 9))]

    MSGS = ["Game solved", "Game not solved",
            "Error while solving the game: The game has no solution. The initial state has a reach probability of 0.",
            "Error while solving the game: Missing transitions", "", "two\nlines", "tab\there",
            "{braces} {0} %s %d", "\u00fcn\u00ef \u2603", None, 0, ("t", 1), ["l"], "  padded  ", "\r\n"]
    NAMES = ["game_1", "robot_47_w10_l5_r6", "a_no_prune", "", "x y", "\u00fcn\u00ef_1", 5, None, ("t", 1),
             "big_reward_small_prob", "n\nl", "a.b", "a/b", "{n}", 1.5, True, "g_2_no_prune_no_prune"]
    KEYS = ["n_states", "n_transitions", "n_iterations_reach", "n_iterations_rew",
            "reachability_strategies", "final_strategies", "total_time", "msg", "rewards",
            "rew_min_reach", "probabilities", "prob_min_rew"]
    FILE_NAMES = ["inputs/x.py", "x.py", "a/b/c/robot_1_w2.v3.py", "noext", ".hidden.py",
                  "dir.with.dots/name_1.py", "inputs/", "", "x.tar.gz", "./x.py", "a\\b.py",
                  "../up.py", "..", ".", "/tmp/foo_9.py", "\u00fcn\u00ef_1.py", "x.", "x..py",
                  "inputs/robot_999132423_w3_l3_r6_rb1_lb2_tb10_lt30_force_down.py",
                  "inputs//double.py", "sp ace.py", "UPPER.PY", "a.py/b", "name_with_underscores_12_3.py",
                  " lead.py", "trail .py", "x.py ", "inputs/.py", "inputs/...", "C:\\dir\\w.py"]

    def rand_entry(r):
        same = r.random() < 0.4
        reach = rand_strats(r)
        final = [list(x) if isinstance(x, list) else x for x in reach] if (same and reach is not None) else (
            reach if same else rand_strats(r))
        entry = {
            "n_states": r.choice([0, 1, 7, 400, None, 10 ** 20]),
            "n_transitions": r.choice([0, 3, 10, 1234]),
            "n_iterations_reach": r.choice([0, 1, 4, 99]),
            "n_iterations_rew": r.choice([0, 1, 3, 12345]),
            "reachability_strategies": reach,
            "final_strategies": final,
            "total_time": r.choice([0.00018310546875, 0.0, 1e-7, 12.5, 3, None, 1.1920928955078125e-06]),
            "msg": r.choice(MSGS),
            "rewards": rand_vec(r),
            "rew_min_reach": r.choice([0, rand_vec(r)]),
            "probabilities": rand_vec(r),
            "prob_min_rew": r.choice([0, rand_vec(r)]),
        }
        items = list(entry.items())
        r.shuffle(items)
        entry = dict(items)
        if r.random() < 0.2:
            entry["extra_key"] = "ignored"
        return entry

    def rand_results(r):
        n = r.choice([0, 1, 1, 2, 2, 3, 4, 6])
        names = r.sample(NAMES, n)
        return {name: rand_entry(r) for name in names}

    # ---------------------------------------------------------------- section A
    r = random.Random(160001)
    for i in range(1400):
        fresh_outputs()
        res = rand_results(r)
        fname = r.choice(FILE_NAMES)
        put(f"A{i} fn={fname!r}", call(cr.save_results_to_file, res, fname) + " || " + snapshot())

    # malformed entries: every key missing in turn, in the first and in a later block
    r = random.Random(160002)
    for pos in (0, 1):
        for key in KEYS:
            fresh_outputs()
            res = {"g_0": rand_entry(r), "g_1": rand_entry(r), "g_2": rand_entry(r)}
            del res[f"g_{pos}"][key]
            put(f"A-missing-{key}-{pos}", call(cr.save_results_to_file, res, "inputs/m_1.py") + " || " + snapshot())
    for j, bad in enumerate([None, [], [1, 2, 3], 7, "text", ("a", "b"), {}, {"msg": "only"}, 3.5, set()]):
        for pos in (0, 1):
            fresh_outputs()
            res = {"g_0": rand_entry(r), "g_1": rand_entry(r)}
            res[f"g_{pos}"] = bad
            put(f"A-badblock-{j}-{pos}", call(cr.save_results_to_file, res, "inputs/b.py") + " || " + snapshot())
    for j, bad in enumerate([None, [], [("a", {})], 7, "text", (), set(), iter([])]):
        fresh_outputs()
        put(f"A-badresults-{j}", call(cr.save_results_to_file, bad, "inputs/r.py") + " || " + snapshot())
    for j, bad in enumerate([None, b"inputs/x.py", 7, pathlib.Path("inputs/x.py"), ["inputs/x.py"], ("a",), 1.5,
                             "nul\0.py", "a" * 300 + ".py"]):
        fresh_outputs()
        put(f"A-badname-{j}", call(cr.save_results_to_file, {"g": rand_entry(r)}, bad) + " || " + snapshot())
    # missing outputs directory / outputs is a file / target is a directory / read-only target
    shutil.rmtree("outputs", ignore_errors=True)
    for fname in ["inputs/x.py", "", "a.b.c", "d/"]:
        put(f"A-nooutdir-{fname!r}", call(cr.save_results_to_file, {"g": rand_entry(r)}, fname) + " || " + snapshot())
    with open("outputs", "w") as fh:
        fh.write("i am a file")
    put("A-outputs-is-file", call(cr.save_results_to_file, {"g": rand_entry(r)}, "inputs/x.py"))
    os.remove("outputs")
    fresh_outputs()
    os.mkdir("outputs/x.txt")
    put("A-target-is-dir", call(cr.save_results_to_file, {"g": rand_entry(r)}, "inputs/x.py") + " || " + snapshot())
    fresh_outputs()
    os.mkdir("outputs/sub")
    put("A-backslash-sub", call(cr.save_results_to_file, {"g": rand_entry(r)}, "sub\\x.py") + " || " + snapshot())
    # an existing longer report is replaced, not patched
    fresh_outputs()
    with open("outputs/old.txt", "w") as fh:
        fh.write("x" * 100000)
    put("A-overwrite", call(cr.save_results_to_file, {"g": rand_entry(r)}, "old.py") + " || " + snapshot())
    fresh_outputs()
    with open("outputs/old.txt", "w") as fh:
        fh.write("x" * 1000)
    put("A-overwrite-empty", call(cr.save_results_to_file, {}, "old.v2.py") + " || " + snapshot())

    # ---------------------------------------------------------------- section A' (tracing)
    LOG = []

    def log_w(text):
        if LOG and LOG[-1][0] == "w":
            LOG[-1] = ("w", LOG[-1][1] + text)
        else:
            LOG.append(("w", text))

    class LogDict(dict):
        def __getitem__(self, k):
            LOG.append(("get", k))
            return dict.__getitem__(self, k)

        def items(self):
            LOG.append(("items",))
            return dict.items(self)

    class LogVal:
        def __init__(self, tag, eq=True, boom=None):
            self.tag, self.eq, self.boom = tag, eq, boom

        def __format__(self, spec):
            LOG.append(("fmt", self.tag, spec))
            if self.boom == "fmt":
                raise ZeroDivisionError(f"fmt {self.tag}")
            return f"<F:{self.tag}>"

        def __str__(self):
            LOG.append(("str", self.tag))
            return f"<S:{self.tag}>"

        def __repr__(self):
            LOG.append(("repr", self.tag))
            return f"<R:{self.tag}>"

        def __eq__(self, other):
            LOG.append(("eq", self.tag, getattr(other, "tag", repr(other))))
            if self.boom == "eq":
                raise ArithmeticError(f"eq {self.tag}")
            return self.eq

        __hash__ = object.__hash__

    class Colour(enum.IntEnum):
        RED = 1

    class SEnum(str, enum.Enum):
        A = "a"

    class FileProxy:
        def __init__(self, real):
            self.real = real

        def write(self, text):
            log_w(text)
            return self.real.write(text)

        def writelines(self, lines):
            for line in lines:
                self.write(line)

        def __enter__(self):
            LOG.append(("enter",))
            return self

        def __exit__(self, *a):
            LOG.append(("exit", None if a[0] is None else a[0].__name__))
            self.real.close()
            return False

    def traced_open(*a, **k):
        LOG.append(("open", a, tuple(sorted(k.items()))))
        return FileProxy(io.open(*a, **k))

    def traced_entry(tag, **over):
        e = LogDict({k: LogVal(f"{tag}.{k}") for k in KEYS})
        e.update(over)
        return e

    trace_cases = []
    trace_cases.append(("plain", LogDict({"g_1": traced_entry("g1"), LogVal("name2"): traced_entry("g2")})))
    for eqres in [True, False, None, 0, "yes", [], LogVal("eqres"), NotImplemented]:
        trace_cases.append((f"eq-{eqres!r}", {"g": traced_entry("g", reachability_strategies=LogVal("reach", eq=eqres))}))
    for key in KEYS:
        trace_cases.append((f"fmtboom-{key}", {"h": traced_entry("h"), "g": traced_entry("g", **{key: LogVal(f"boom.{key}", boom="fmt")})}))
    trace_cases.append(("eqboom", {"g": traced_entry("g", reachability_strategies=LogVal("reach", boom="eq"))}))
    trace_cases.append(("nameboom", {LogVal("nm", boom="fmt"): traced_entry("g")}))
    for key in KEYS:
        e = traced_entry("g")
        dict.__delitem__(e, key)
        trace_cases.append((f"missing-{key}", {"h": traced_entry("h"), "g": e}))
    for key in KEYS:
        for val in [Colour.RED, SEnum.A, (1, 2), ("solo",), (), b"bytes", {"a": 1}, {1, }, 1e22, 10 ** 30, True, None,
                    "%s", "{x}", 1 + 2j, range(3), float("nan")]:
            trace_cases.append((f"odd-{key}-{val!r}", {Colour.RED: traced_entry("g", **{key: val}), SEnum.A: traced_entry("k", **{key: val})}))
    cr.open = traced_open
    try:
        for tag, res in trace_cases:
            fresh_outputs()
            del LOG[:]
            outcome = call(cr.save_results_to_file, res, "inputs/trace_1.v2.py")
            put(f"A'-{tag}", outcome + " || " + repr(LOG) + " || " + snapshot())
    finally:
        del cr.open
    # the same tracing values through the real file object
    for tag, res in trace_cases:
        fresh_outputs()
        del LOG[:]
        outcome = call(cr.save_results_to_file, res, "inputs/trace_2.py")
        put(f"A''-{tag}", outcome + " || " + repr(LOG) + " || " + snapshot())

    # ---------------------------------------------------------------- section B
    os.makedirs("inputs", exist_ok=True)
    put("B-module-names", repr(sorted(vars(cr))))
    r = random.Random(160003)

    def num_text(r, v):
        if isinstance(v, int) and v >= 100 and r.random() < 0.3:
            e = len(str(v)) - 1
            if v == 10 ** e:
                return f"10**{e}"
        if isinstance(v, float) and r.random() < 0.2:
            return f"{v!r} * 1"
        return repr(v)

    def game_text(r, game, style):
        if style == 0:
            return repr(game)
        parts = []
        for k, v in game.items():
            if k == "transition_list":
                rows = []
                for row in v:
                    if not isinstance(row, list) or not all(isinstance(t, tuple) and len(t) == 2 for t in row):
                        rows.append(repr(row))
                        continue
                    rows.append("[" + ", ".join(
                        "(" + (num_text(r, a) if isinstance(a, (int, float)) else repr(a)) + ", " + repr(b) + ("," if style == 3 else "") + ")"
                        for a, b in row) + "]")
                body = "[\n            " + ",\n            ".join(rows) + ("," if style >= 2 else "") + "\n        ]"
            elif k == "rewards":
                body = "[" + ", ".join(num_text(r, x) for x in v) + "]"
            else:
                body = repr(v).replace("'", '"') if style >= 2 else repr(v)
            parts.append(f"        {k!r}: {body}")
        return "{" + ("  # comment" if style == 3 else "") + "\n" + ",\n".join(parts) + ("," if style == 3 else "") + "\n    }"

    def rand_game(r, malformed_ok=True):
        n = r.randint(1, 7)
        shape = r.choice([0, 0, 0, 0, 0, 1, 2, 2, 3, 3])  # 0 forward-only, 1/2 any target, 3 forward + self loops
        players = [r.choice(["Player 1", "Player 2", "Probabilistic"]) for _ in range(n)]
        trans = []
        for i in range(n):
            def target():
                if shape in (1, 2) or i == n - 1:
                    return r.randrange(n)
                if shape == 3 and r.random() < 0.2:
                    return i
                return r.randint(i + 1, n - 1)
            if players[i] == "Probabilistic":
                k = r.randint(1, 3)
                if i == n - 1 and shape != 1:
                    row = [(1, i)]
                elif k == 1:
                    row = [(r.choice([1, 1.0]), target())]
                elif k == 2:
                    p = r.choice([0.5, 0.5, 0.25, 0.01, 0.3, 0.35, 1 / 3, 0.1, 0.0, 1.0])
                    row = [(p, target()), (1 - p, target())]
                else:
                    p = r.choice([0.2, 0.25, 1 / 3, 0.1])
                    q = r.choice([0.2, 0.25, 1 / 3, 0.5])
                    row = [(p, target()), (q, target()), (1 - p - q, target())]
            else:
                k = r.randint(1, 3)
                acts = r.sample(["alfa", "beta", "gamma", "delta", "a_1"], k)
                if r.random() < 0.1:
                    acts = [acts[0]] * k  # repeated action names
                row = [(a, i if (shape == 0 and i == n - 1) else target()) for a in acts]
                if r.random() < 0.2 and k >= 2:
                    row[1] = (row[1][0], row[0][1])  # parallel edges -> exact ties
            trans.append(row)
        finals = sorted(set([n - 1] if r.random() < 0.6 else r.sample(range(n), r.randint(1, min(n, 3)))))
        rewards = [r.choice([0, 0, 1, 2, 5, 10, 3.5, 10 ** 25]) if r.random() < 0.9 else r.randint(0, 100) for _ in range(n)]
        if shape != 0 and r.random() < 0.7:
            rewards = [0 if r.random() < 0.8 else x for x in rewards]  # cycles with rewards rarely converge
        for f in finals:
            if r.random() < 0.8:
                rewards[f] = 0
        if shape == 0:
            rewards[n - 1] = 0  # forward-only games end in a reward-free sink: they always converge
        game = {"rewards": rewards, "players": players, "transition_list": trans, "final_states": finals}
        if malformed_ok and r.random() < 0.15:
            k = r.randrange(16)
            if k == 0:
                game["transition_list"][r.randrange(n)] = []
            elif k == 1:
                game["rewards"][r.randrange(n)] = -1
            elif k == 2:
                game["final_states"] = [n]
            elif k == 3:
                game["final_states"] = []
            elif k == 4:
                game["rewards"] = rewards + [0]
            elif k == 5:
                game["players"][r.randrange(n)] = "Player 3"
            elif k == 6:
                game["transition_list"] = trans[:-1]
            elif k == 7:
                game["transition_list"][0] = [("x", 0, 1)]
            elif k == 8:
                game["transition_list"][0] = [(None, 0)]
            elif k == 9:
                del game[r.choice(list(game))]
            elif k == 10:
                game["surprise"] = 1
            elif k == 11:
                game["transition_list"][0] = [("a", n + 3)] if players[0] != "Probabilistic" else [(1, n + 3)]
            elif k == 12:
                game["transition_list"][r.randrange(n)] = None
            elif k == 13:
                game["prune_states"] = "given"
            elif k == 14:
                game["final_states"] = [-1]
            else:
                game["transition_list"][0] = (("a", 0),)
        return game

    GAME_NAMES = ["g", "game_1", "robot_47_w10_l5_r6_rb10", "a_no_prune", "1", "x y", "\u00fcn\u00ef_1", "G_2_b_3", "no_prune",
                  "big_reward_small_prob", "_", "__x__", "n9", "a.b", ""]

    def rand_input_text(r, malformed_ok=True):
        n = r.choice([0, 1, 1, 2, 2, 3, 5])
        names = r.sample(GAME_NAMES, n)
        style = r.randrange(4)
        body = ",\n".join(f"    {json.dumps(name) if style >= 2 else repr(name)}: {game_text(r, rand_game(r, malformed_ok), style)}"
                          for name in names)
        head = "# generated\n" if style == 3 else ""
        return head + "{\n" + body + "\n}\n"

    INPUT_FILE_NAMES = ["inputs/in_%d.py", "inputs/robot_%d_w2_l2_r6_rb10_lb5_tb10_lt0.py", "inputs/dotted.v%d.py",
                        "inputs/noext_%d", "inputs/.hidden_%d.py", "in_%d.py", "inputs/sub.dir/g_%d.py", "inputs/UP_%d.TXT"]
    os.makedirs("inputs/sub.dir", exist_ok=True)
    for i in range(450):
        path = r.choice(INPUT_FILE_NAMES) % i
        text = rand_input_text(r)
        with open(path, "w") as fh:
            fh.write(text)
        put(f"B{i} {path}", call(cr.read_dict_from_file, path))
    odd_texts = [
        "", " ", "\n\n", "[]", "[1, 2]", "()", "{1, 2}", "7", "'text'", "None", "x = 1", "{", "{'a': }", "{'a': 1} {'b': 2}",
        "{'a': 1}\n{'b': 2}", "{}", "{'a': 1}", "dict(a=1)", "__import__('collections').OrderedDict(a=1)",
        "__import__('collections').UserDict(a=1)", "__import__('collections').defaultdict(list)",
        "__import__('types').MappingProxyType({})", "{'l': sorted(locals()), 'g': sorted(k for k in globals() if not k.startswith('__'))}",
        "{'n': file_name, 'c': len(contents), 'closed': file.closed, 'mode': file.mode, 'name': file.name}",
        "{'d': dictionary}", "{'d': parsed}", "{'d': text}", "{'d': path}", "{'d': itemgetter}", "{'d': chain}", "{'d': partial}",
        "{'d': functools}", "{'d': itertools}", "{'d': operator}", "{'d': os}", "{'d': pathlib}", "{'d': Path}", "{'d': sys}",
        "{'m': __name__, 'f': sorted(n for n in dir() )}", "{'copy': copy.__name__, 'sg': StochasticGame.__name__, 'ap': argparse.__name__, 't': time.__name__, 'lg': logging.__name__}",
        "{'fn': [save_results_to_file.__name__, read_dict_from_file.__name__, run_games.__name__, set_logger.__name__, init_parser.__name__, main.__name__]}",
        "{'a': 1/0}", "{'a': undefined_name}", "{'a': 1,\n 'a': 2}", "{'a': 10**25, 'b': 1/3, 'c': 0.1+0.2}", "{'a': (lambda: contents[:3])()}",
        "{'a': [c for c in contents[:2]]}", "\ufeff{'a': 1}", "{'a': 1}\r\n", "\t{'a': 1}", "  {'a': 1}", "{'a': 1}  # trailing", "# only a comment",
        "lambda: 1", "{'a': 1} if True else []", "{'a': 1} if False else []", "{**{'a': 1}}", "{k: k for k in range(3)}", "{k for k in range(3)}",
        "True", "{}.keys()", "type('D', (dict,), {})()", "raise ValueError('x')", "import os", "{'a': 1};", "exit()", "(yield)", "{'\\x00': 1}",
        "{'a': '" + "x" * 5000 + "'}", "{'deep': " + "[" * 50 + "]" * 50 + "}",
    ]
    for i, text in enumerate(odd_texts):
        path = f"inputs/odd_{i}.py"
        with open(path, "w", encoding="utf-8") as fh:
            fh.write(text)
        put(f"B-odd-{i} {text[:40]!r}", call(cr.read_dict_from_file, path))
    with open("inputs/latin.py", "wb") as fh:
        fh.write(b"{'a': '\xe9\xff'}")
    put("B-latin1", call(cr.read_dict_from_file, "inputs/latin.py"))
    with open("inputs/nul.py", "wb") as fh:
        fh.write(b"{'a': 1}\0")
    put("B-nulbyte", call(cr.read_dict_from_file, "inputs/nul.py"))
    with open("inputs/crlf.py", "wb") as fh:
        fh.write(b"{\r\n'a': 1,\r\n'b': [\r\n2]\r\n}\r\n")
    put("B-crlf", call(cr.read_dict_from_file, "inputs/crlf.py"))
    with open("inputs/ok.py", "w") as fh:
        fh.write("{'a': 1}")
    for j, bad in enumerate(["inputs/missing.py", "inputs", "", None, 3.5, ["inputs/ok.py"], b"inputs/ok.py", pathlib.Path("inputs/ok.py"),
                             pathlib.Path("inputs/none.py"), "inputs/ok.py/", "nul\0", "inputs/ok.py\n", -1, 10 ** 6]):
        put(f"B-badpath-{j}", call(cr.read_dict_from_file, bad))
    fd = os.open("inputs/ok.py", os.O_RDONLY)
    put("B-fd", call(cr.read_dict_from_file, fd))
    os.chmod("inputs/ok.py", 0)
    put("B-unreadable", call(cr.read_dict_from_file, "inputs/ok.py"))
    os.chmod("inputs/ok.py", 0o644)

    # ---------------------------------------------------------------- section C
    parser = cr.init_parser()
    put("C-help", repr(parser.format_help()))
    put("C-usage", repr(parser.format_usage()))
    put("C-meta", repr((type(parser).__name__, parser.prog, parser.description, parser.epilog, parser.formatter_class.__name__,
                        parser.add_help, parser.allow_abbrev, parser.prefix_chars, parser.fromfile_prefix_chars,
                        parser.argument_default, parser.conflict_handler, getattr(parser, "exit_on_error", None))))
    put("C-actions", repr([(type(a).__name__, a.option_strings, a.dest, a.nargs, a.const, a.default,
                            getattr(a.type, "__name__", a.type), a.choices, a.required, a.help, a.metavar)
                           for a in parser._actions]))
    put("C-two-parsers", repr(cr.init_parser() is cr.init_parser()))
    os.environ["COLUMNS"] = "40"
    put("C-help-40", repr(cr.init_parser().format_help()))
    os.environ["COLUMNS"] = "200"
    put("C-help-200", repr(cr.init_parser().format_help()))
    os.environ["COLUMNS"] = "80"
    TOKENS = [["-f", "x.py"], ["--file", "inputs/a_1.py"], ["--file=x"], ["-fx.py"], ["-f"], ["--file"], ["--fil", "y"], ["--f", "y"],
              ["-l", "i"], ["-l", "INFO"], ["--log_level", "d"], ["--log_level=dd"], ["--log", "d"], ["-l"], ["-ldd"], ["--log-level", "d"],
              ["-s"], ["--save_results"], ["--save"], ["--s"], ["--save_results=1"], ["-sf", "z"], ["-fs"], ["-sl", "i"], ["-ss"],
              ["-x"], ["extra"], ["--"], ["-h"], ["--help"], ["-f", ""], ["-f", "-s"], ["-f", "--", "q"], ["--l", "FULL_DEBUG"], ["-S"], ["-F", "x"],
              ["-f", "a b.py"], ["-f", "\u00fc.py"], ["--file", "-1"], ["-l", "-1"]]
    r = random.Random(160004)
    argvs = [[]] + [list(t) for t in TOKENS]
    for _ in range(320):
        argv = []
        for t in r.sample(TOKENS, r.randint(1, 4)):
            argv += t
        argvs.append(argv)
    for i, argv in enumerate(argvs):
        err, out = io.StringIO(), io.StringIO()
        with contextlib.redirect_stderr(err), contextlib.redirect_stdout(out):
            try:
                ns = cr.init_parser().parse_args(argv)
                outcome = "ns " + repr(sorted(vars(ns).items())) + " " + type(ns).__name__
            except SystemExit as e:
                outcome = f"exit {e.code!r}"
            except Exception as e:  # noqa
                outcome = "exc " + exc_repr(e)
        put(f"C{i} {argv!r}", outcome + " || " + repr(err.getvalue()) + " || " + repr(out.getvalue()))

    # ---------------------------------------------------------------- section D
    class Cutoff(BaseException):
        pass

    class Clock:
        def __init__(self):
            self.t = 1700000000.0

        def time(self):
            self.t += 0.001953125 * (1 + (int(self.t * 512) % 7))
            return self.t

    budget = [0]

    def counting_abs(x):
        budget[0] -= 1
        if budget[0] < 0:
            raise Cutoff("abs budget exhausted")
        return abs(x)

    tad.abs = counting_abs

    def on_alarm(signum, frame):
        raise Cutoff("wall clock")

    signal.signal(signal.SIGALRM, on_alarm)

    def run_main(argv, cap=40000):
        fresh_outputs()
        root = logging.getLogger()
        for h in list(root.handlers):
            root.removeHandler(h)
        root.setLevel(logging.WARNING)
        cr.time = Clock()
        budget[0] = cap
        err, out = io.StringIO(), io.StringIO()
        old_argv = sys.argv
        sys.argv = ["conditionalrewards.py"] + argv
        signal.alarm(30)
        try:
            with contextlib.redirect_stderr(err), contextlib.redirect_stdout(out):
                try:
                    outcome = "ret " + repr(cr.main())
                except SystemExit as e:
                    outcome = f"exit {e.code!r}"
                except Cutoff as e:
                    outcome = f"CUT {e}"
                except Exception as e:  # noqa
                    outcome = "exc " + exc_repr(e)
        finally:
            signal.alarm(0)
            sys.argv = old_argv
            for h in list(root.handlers):
                root.removeHandler(h)
        if outcome.startswith("CUT wall"):
            return "CUT wall clock"
        text = err.getvalue()
        return outcome + " || err=" + digest(text.encode("utf-8", "backslashreplace")) + " || out=" + repr(out.getvalue()) + " || " + snapshot()

    r = random.Random(160005)
    FLAGSETS = [["-s"]] * 8 + [["--save_results"]] * 4 + [["--save"]] * 2 + [
        [], ["-s", "-l", "i"], ["-l", "d", "-s"], ["-s", "-l", "x"], ["--save", "--log_level", "INFO"], ["-s", "-l", ""],
        ["-s", "-l", "DEBUG"]]
    for i in range(330):
        path = r.choice(INPUT_FILE_NAMES) % (1000 + i)
        text = rand_input_text(r, malformed_ok=(i % 3 != 0))
        with open(path, "w") as fh:
            fh.write(text)
        flags = r.choice(FLAGSETS)
        argv = (["-f", path] + flags) if r.random() < 0.7 else (flags + ["--file", path])
        put(f"D{i} {argv!r}", run_main(argv))
    for i, text in enumerate(odd_texts[:30]):
        put(f"D-odd-{i}", run_main(["-f", f"inputs/odd_{i}.py", "-s"]))
    put("D-missing", run_main(["-f", "inputs/nothing_here.py", "-s"]))
    put("D-noargs", run_main([]))
    put("D-help", run_main(["-h"]))
    put("D-sonly", run_main(["-s"]))
    for name in ["paper_games.py", "example_17_08.py", "example_games.py", "manual_1_game_a.py", "robot_1_w2_l2_r6_rb10_lb5_tb10_lt0.py",
                 "robot_1_w1_l2_r6_rb10_lb5_tb10_lt0.py", "robot_999132423_w3_l3_r6_rb1_lb2_tb10_lt30.py"]:
        put(f"D-shipped-{name}", run_main(["-f", os.path.join(repo, "inputs", name), "-s"], cap=400000))
    # no outputs directory when saving
    shutil.rmtree("outputs", ignore_errors=True)
    cr.time = Clock()
    budget[0] = 40000
    sys_argv = sys.argv
    sys.argv = ["conditionalrewards.py", "-f", os.path.join(repo, "inputs", "example_17_08.py"), "-s"]
    put("D-nooutdir", call(cr.main) + " || " + snapshot())
    sys.argv = sys_argv

    # ---------------------------------------------------------------- section E
    mask = re.compile(rb"(Total time\s*: )[^\n]*")
    cli = os.path.join(scratch, "cli")
    os.makedirs(os.path.join(cli, "inputs"))
    os.makedirs(os.path.join(cli, "outputs"))
    shipped = ["paper_games.py", "example_17_08.py", "robot_1_w2_l1_r6_rb10_lb5_tb10_lt0.py"]
    for name in shipped:
        shutil.copy(os.path.join(repo, "inputs", name), os.path.join(cli, "inputs", name))
    shutil.copy(os.path.join(repo, "inputs", "example_17_08.py"), os.path.join(cli, "inputs", "dotted_7.v2.copy.py"))
    env = dict(os.environ, COLUMNS="80", PYTHONDONTWRITEBYTECODE="1")
    runs = [["-f", f"inputs/{n}", "-s"] for n in shipped] + [
        ["-f", "inputs/dotted_7.v2.copy.py", "-s"], ["--save_results", "--file", "./inputs/example_17_08.py", "-l", "i"],
        ["-f", "inputs/example_17_08.py"], [], ["-h"], ["-f", "inputs/nope.py", "-s"], ["-f", "inputs/example_17_08.py", "-l", "zz", "-s"]]
    for i, argv in enumerate(runs):
        for f in os.listdir(os.path.join(cli, "outputs")):
            os.remove(os.path.join(cli, "outputs", f))
        try:
            p = subprocess.run([sys.executable, os.path.join(repo, "conditionalrewards.py")] + argv, cwd=cli, env=env,
                               capture_output=True, timeout=60)
            err = mask.sub(rb"\1<t>", p.stderr).replace(repo.encode(), b"<repo>")
            if b"Traceback (most recent call last)" in err:
                # line numbers / source lines of the product legitimately differ: keep the verdict line
                before, _, trace = err.partition(b"Traceback (most recent call last)")
                err = before + b"<traceback> " + trace.strip().split(b"\n")[-1]
            outcome = f"rc={p.returncode} out={p.stdout!r} err={digest(err)}"
        except subprocess.TimeoutExpired:
            outcome = "CUT wall clock"
        files = {}
        for f in sorted(os.listdir(os.path.join(cli, "outputs"))):
            with open(os.path.join(cli, "outputs", f), "rb") as fh:
                files[f] = digest(mask.sub(rb"\1<t>", fh.read()))
        put(f"E{i} {argv!r}", outcome + " || " + repr(sorted(files.items())))

    os.chdir("/")
    shutil.rmtree(scratch, ignore_errors=True)
    with open(out_path, "w") as fh:
        json.dump(results, fh)


# --------------------------------------------------------------------------------------
# parent
# --------------------------------------------------------------------------------------
def main():
    if len(sys.argv) == 4 and sys.argv[1] == "--worker":
        worker(sys.argv[2], sys.argv[3])
        return 0
    if len(sys.argv) != 3:
        print(__doc__)
        return 2
    trees = [os.path.abspath(p) for p in sys.argv[1:3]]
    tmp = tempfile.mkdtemp(prefix="f16_eq_")
    env = dict(os.environ, PYTHONDONTWRITEBYTECODE="1", PYTHONHASHSEED="0")
    procs = []
    for i, tree in enumerate(trees):
        out = os.path.join(tmp, f"out{i}.json")
        procs.append((tree, out, subprocess.Popen([sys.executable, HERE, "--worker", tree, out], env=env,
                                                  stdout=subprocess.PIPE, stderr=subprocess.PIPE)))
    dumps = []
    for tree, out, p in procs:
        try:
            so, se = p.communicate(timeout=115)
        except subprocess.TimeoutExpired:
            p.kill()
            print(f"DIFFERENT: worker for {tree} did not finish in time")
            return 1
        if p.returncode != 0 or not os.path.exists(out):
            print(f"DIFFERENT: worker for {tree} failed (rc={p.returncode})")
            print(se.decode(errors="replace")[-3000:])
            return 1
        with open(out) as fh:
            dumps.append(json.load(fh))
    a, b = dumps
    for (ca, va), (cb, vb) in zip(a, b):
        if ca != cb or va != vb:
            if va.startswith("CUT wall") or vb.startswith("CUT wall"):
                continue  # wall-clock backstop only; the deterministic cap decides normally
            print("DIFFERENT at case", ca if ca == cb else (ca, cb))
            k = next((i for i, (x, y) in enumerate(zip(va, vb)) if x != y), min(len(va), len(vb)))
            print("  clean  :", va[max(0, k - 200):k + 300])
            print("  patched:", vb[max(0, k - 200):k + 300])
            return 1
    if len(a) != len(b):
        print(f"DIFFERENT: number of cases {len(a)} vs {len(b)}")
        return 1
    import shutil
    shutil.rmtree(tmp, ignore_errors=True)
    print(f"{len(a)} cases compared", file=sys.stderr)
    print("SAME")
    return 0


if __name__ == "__main__":
    sys.exit(main())
