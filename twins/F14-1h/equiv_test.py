#!/usr/bin/env python
"""
Equivalence test for C14 / variant 1 (convergence statistics).

usage: python equiv_test.py <path-to-patched-root> <path-to-clean-root>

The two trees are loaded in two separate subprocesses (same module names).  Both run the
same worker on the same pickled inputs and write, for every input, the repr of everything
the property talks about (and more):

  * StochasticGame.solve() for both pruning modes: the whole 8-tuple (final strategies,
    reachability strategies, rewards, probabilities, the two sweep counts, and the two
    cross-objective outputs [6] and [7]) or the exception that was raised; and that the
    caller's transition list is left alone;
  * single value_iteration_rewards steps of the three node classes and of
    PlayerTwo._expected_rewards_min_reach on hand-made state lists with arbitrary values;
  * Solver.value_iteration_total_rewards() run on its own (unseeded) with all the values of
    all the nodes afterwards;
  * the driver: run_games() results (all original keys but the time) and the report file
    written by save_results_to_file() (time line masked), for batches of generated games
    and for the shipped input files.

Every float is compared through repr(), i.e. bit for bit.  PASS = no difference at all.

Patched-tree-only checks (they do not exist in the clean tree, so they are asserted inside
the worker): the statistics agree with the returned sweep counts, the final residuals are
below the threshold, the report written with convergence=True is the old report plus
"Convergence" lines only.
"""
import os
import pickle
import random
import subprocess
import sys
import tempfile
import textwrap

PY = sys.executable

# --------------------------------------------------------------------------------------
# input generation (done once, in this process; both trees get the very same pickle)
# --------------------------------------------------------------------------------------
P1, P2, PR = "Player 1", "Player 2", "Probabilistic"
ACTIONS = ["a", "b", "c", "d", "e"]


def split_probabilities(rng, k, style):
    if k == 1:
        return [1]
    if style == "tenths":
        cuts = sorted(rng.sample(range(1, 10), k - 1))
        parts = [b - a for a, b in zip([0] + cuts, cuts + [10])]
        return [p / 10 for p in parts]
    if style == "tiny":
        tiny = rng.choice([1e-9, 1e-7, 1e-6, 5e-7, 1e-3])
        rest = [rng.random() + 0.05 for _ in range(k - 1)]
        total = sum(rest)
        return [tiny] + [(1 - tiny) * r / total for r in rest]
    if style == "equal":
        return [1 / k] * k
    raw = [rng.random() + 0.01 for _ in range(k)]
    total = sum(raw)
    return [r / total for r in raw]


def make_rewards(rng, n, absorbing, style):
    if style == "ties":
        rewards = [rng.randint(0, 2) for _ in range(n)]
    elif style == "distinct":
        pool = rng.sample(range(1, 50 * n), n)
        rewards = [p + rng.choice([0, 0.25, 0.5]) for p in pool]
    elif style == "floats":
        rewards = [round(rng.random() * 10, 3) for _ in range(n)]
    elif style == "big":
        rewards = [rng.choice([0, 1, 10 ** 6, 10 ** 12, 3]) for _ in range(n)]
    else:
        rewards = [0] * n
    for idx in absorbing:
        rewards[idx] = 0
    return rewards


def gen_stopping(rng):
    """
        Stopping by construction: player states only move to higher-numbered states, every
        probabilistic state has a higher-numbered successor, the highest-numbered states
        are absorbing (final or dead) and carry no reward.  Cycles go through the
        probabilistic states (self-loops and back edges).
    """
    n_abs = rng.randint(1, 3)
    n_inner = rng.randint(1, 9)
    n = n_inner + n_abs
    absorbing = list(range(n_inner, n))
    finals = [idx for idx in absorbing if rng.random() < 0.6] or [rng.choice(absorbing)]
    if rng.random() < 0.15:
        rng.shuffle(finals)
    players, transitions = [], []
    prob_style = rng.choice(["tenths", "tiny", "equal", "random", "random"])
    for idx in range(n_inner):
        player = rng.choice([P1, P2, PR, PR])
        forward = list(range(idx + 1, n))
        if player == PR:
            k = rng.randint(1, 4)
            targets = [rng.choice(forward)]
            for _ in range(k - 1):
                targets.append(rng.choice(range(n)) if rng.random() < 0.5 else rng.choice(forward))
            if rng.random() < 0.8:
                targets = list(dict.fromkeys(targets))
            rng.shuffle(targets)
            probs = split_probabilities(rng, len(targets), prob_style)
            rng.shuffle(probs)
            if sum(p for p, t in zip(probs, targets) if t > idx) < 0.05:
                # keep the game fast to solve: the largest probability moves forward
                big = probs.index(max(probs))
                ahead = [pos for pos, t in enumerate(targets) if t > idx][0]
                probs[big], probs[ahead] = probs[ahead], probs[big]
            transitions.append(list(zip(probs, targets)))
        else:
            k = rng.randint(1, 4)
            targets = [rng.choice(forward) for _ in range(k)]
            transitions.append(list(zip(ACTIONS[:k], targets)))
        players.append(player)
    for idx in absorbing:
        if rng.random() < 0.8:
            players.append(PR)
            transitions.append([(1, idx)])
        else:
            players.append(rng.choice([P1, P2]))
            transitions.append([("stay", idx)])
    rewards = make_rewards(rng, n, absorbing,
                           rng.choice(["ties", "distinct", "distinct", "floats", "big", "zero"]))
    return {"rewards": rewards, "players": players,
            "transition_list": transitions, "final_states": finals}


def gen_wild(rng):
    """
        Arbitrary graphs (cycles between player states included).  Some of them do not
        stop (the iteration never ends): the worker gives every solve a time budget and
        records TIMEOUT; probabilities are tenths so that convergence, when there is
        convergence, is fast and the budget is never a close call.
    """
    n = rng.randint(1, 8)
    players, transitions = [], []
    for idx in range(n):
        player = rng.choice([P1, P2, PR])
        k = rng.randint(1, 3)
        targets = [rng.randrange(n) for _ in range(k)]
        if player == PR:
            probs = split_probabilities(rng, k, "tenths")
            transitions.append(list(zip(probs, targets)))
        else:
            transitions.append(list(zip(ACTIONS[:k], targets)))
        players.append(player)
    finals = rng.sample(range(n), rng.randint(1, min(3, n)))
    for idx in finals:
        if rng.random() < 0.8:
            players[idx] = PR
            transitions[idx] = [(1, idx)]
    rewards = [rng.choice([0, 0, 0, 1, 2, 5]) for _ in range(n)]
    for idx in finals:
        if rng.random() < 0.9:
            rewards[idx] = 0
    return {"rewards": rewards, "players": players,
            "transition_list": transitions, "final_states": finals}


def boundary_games():
    games = {}
    games["one_state"] = dict(rewards=[0], players=[PR], transition_list=[[(1, 0)]], final_states=[0])
    games["one_state_p1"] = dict(rewards=[0], players=[P1], transition_list=[[("a", 0)]], final_states=[0])
    games["one_state_p2"] = dict(rewards=[0], players=[P2], transition_list=[[("a", 0)]], final_states=[0])
    games["initial_dead"] = dict(rewards=[3, 0, 0], players=[PR, PR, PR],
                                 transition_list=[[(1, 1)], [(1, 1)], [(1, 2)]], final_states=[2])
    games["initial_final_moving_on"] = dict(
        rewards=[1, 2, 0], players=[P1, P2, PR],
        transition_list=[[("a", 1), ("b", 2)], [("a", 2), ("b", 0)], [(1, 2)]], final_states=[0, 2])
    # Player 2 with several reachability-minimising moves of different cost,
    # and a cheaper move that is not reachability-minimising
    games["p2_min_reach_choice"] = dict(
        rewards=[0, 1, 7, 3, 5, 0, 0],
        players=[P1, P2, PR, PR, PR, PR, PR],
        transition_list=[[("go", 1)], [("x", 2), ("y", 3), ("z", 4)],
                         [(0.5, 5), (0.5, 6)], [(0.5, 5), (0.5, 6)], [(0.9, 5), (0.1, 6)],
                         [(1, 5)], [(1, 6)]],
        final_states=[5])
    # reward ties for both players, last / first tie matters
    games["reward_ties"] = dict(
        rewards=[0, 2, 2, 2, 0, 0],
        players=[P1, P2, PR, PR, PR, PR],
        transition_list=[[("a", 1), ("b", 2), ("c", 3)], [("a", 2), ("b", 3)],
                         [(0.5, 4), (0.5, 5)], [(0.25, 4), (0.75, 5)], [(1, 4)], [(1, 5)]],
        final_states=[4])
    # probabilities that do not add up to one (reach values above one are possible)
    games["super_stochastic"] = dict(
        rewards=[0, 1, 0], players=[P2, PR, PR],
        transition_list=[[("a", 1), ("b", 2)], [(0.7, 2), (0.3000009, 2)], [(1.0000004, 2)]],
        final_states=[2])
    games["sub_stochastic"] = dict(
        rewards=[1, 1, 0], players=[P2, PR, PR],
        transition_list=[[("a", 1), ("b", 1)], [(0.5, 2), (0.3, 0)], [(1, 2)]], final_states=[2])
    # duplicated action names and parallel edges
    games["duplicate_actions"] = dict(
        rewards=[0, 4, 1, 0, 0], players=[P1, P2, PR, PR, PR],
        transition_list=[[("a", 1), ("a", 2)], [("x", 2), ("x", 3), ("y", 3)],
                         [(0.5, 3), (0.5, 4)], [(1, 3)], [(1, 4)]], final_states=[3])
    # final state that is a player state with a way out, final with a reward
    games["final_player_states"] = dict(
        rewards=[1, 0, 2, 0], players=[P1, P2, P1, PR],
        transition_list=[[("a", 1), ("b", 2)], [("a", 3), ("b", 1)], [("a", 3)], [(1, 3)]],
        final_states=[1, 3, 1])
    games["big_rewards"] = dict(
        rewards=[0, 0, 0, 10 ** 25, 0, 1, 0], players=[P1, PR, PR, PR, PR, PR, PR],
        transition_list=[[("alfa", 1), ("beta", 2)], [(0.01, 3), (0.99, 4)], [(0.01, 4), (0.99, 5)],
                         [(1, 6)], [(1, 4)], [(1, 6)], [(1, 6)]], final_states=[6])
    # slow mixing: many sweeps
    games["slow"] = dict(
        rewards=[1, 2, 0, 0], players=[PR, P2, PR, PR],
        transition_list=[[(0.999, 0), (0.001, 1)], [("a", 2), ("b", 3)], [(1, 2)], [(0.5, 2), (0.5, 3)]],
        final_states=[2])
    # ill-formed descriptions: the same error must come out
    games["bad_no_finals"] = dict(rewards=[0], players=[PR], transition_list=[[(1, 0)]], final_states=[])
    games["bad_missing_transitions"] = dict(rewards=[0, 0], players=[PR, PR],
                                            transition_list=[[(1, 1)], []], final_states=[1])
    games["bad_negative_reward"] = dict(rewards=[-1, 0], players=[PR, PR],
                                        transition_list=[[(1, 1)], [(1, 1)]], final_states=[1])
    games["bad_target"] = dict(rewards=[0, 0], players=[PR, PR],
                               transition_list=[[(1, 2)], [(1, 1)]], final_states=[1])
    games["bad_player"] = dict(rewards=[0, 0], players=[PR, "Nature"],
                               transition_list=[[(1, 1)], [(1, 1)]], final_states=[1])
    return games


def unit_cases(rng, count):
    """ state lists with arbitrary current values for single-step comparisons """
    cases = []
    for _ in range(count):
        n = rng.randint(2, 6)
        player = rng.choice([P1, P2, PR])
        k = rng.randint(1, 4)
        targets = [rng.randrange(n) for _ in range(k)]
        if player == PR:
            next_states = list(zip(split_probabilities(rng, k, "random"), targets))
        else:
            names = ACTIONS[:k] if rng.random() < 0.8 else [rng.choice("ab") for _ in range(k)]
            next_states = list(zip(names, targets))
        grid = rng.choice([[0, 1, 2], [0, 0.5, 1, 1.5], None])
        def value(unit=False):
            if grid is not None and not unit:
                return rng.choice(grid)
            if unit:
                return rng.choice([0, 1, 0.5, 0.9999996, 0.9999994, 1.0000004, 1.0000006, rng.random()])
            return rng.random() * 5
        values = [dict(reach_probability=value(True), expected_rewards=value(),
                       expected_rewards_min_reach=value(), expected_reach_min_rewards=value(True))
                  for _ in range(n)]
        strategies = rng.choice([None, [], ["a"], ["b", "c"], ["zzz"], ACTIONS])
        cases.append(dict(player=player, reward=rng.choice([0, 1, 2.5]), next_states=next_states,
                          n=n, values=values, strategies=strategies,
                          emptied=rng.random() < 0.1))
    return cases


def build_inputs(seed=20240614):
    rng = random.Random(seed)
    games = {}
    for name, game in boundary_games().items():
        games["boundary_" + name] = game
    for i in range(600):
        games[f"stopping_{i}"] = gen_stopping(rng)
    for i in range(160):
        games[f"wild_{i}"] = gen_wild(rng)
    stopping_names = [name for name in games if name.startswith("stopping_")]
    boundary_names = [name for name in games if name.startswith("boundary_")]
    batches = []
    for b in range(25):
        chosen = rng.sample(stopping_names, 3)
        if b % 3 == 0:
            chosen.append(rng.choice(boundary_names))
        batches.append({name: games[name] for name in chosen})
    return {"games": games, "batches": batches, "units": unit_cases(rng, 600)}


# --------------------------------------------------------------------------------------
# the worker: runs inside one tree
# --------------------------------------------------------------------------------------
WORKER = textwrap.dedent(r'''
    import copy, glob, os, pickle, signal, sys
    root, inputs_path, out_path, workdir = sys.argv[1:5]
    sys.path.insert(0, root)
    os.chdir(workdir)
    os.makedirs("outputs", exist_ok=True)
    import tad, conditionalrewards
    assert os.path.dirname(os.path.abspath(tad.__file__)) == os.path.abspath(root), tad.__file__
    from tad import StochasticGame, Solver, PlayerOne, PlayerTwo, ProbabilisticNode

    class Timeout(BaseException):
        pass
    def on_alarm(signum, frame):
        raise Timeout()
    signal.signal(signal.SIGALRM, on_alarm)

    with open(inputs_path, "rb") as f:
        inputs = pickle.load(f)
    out = {}
    extra_failures = []

    def outcome(function, budget=None):
        if budget:
            signal.setitimer(signal.ITIMER_REAL, budget)
        try:
            return ("ok", repr(function()))
        except Timeout:
            return ("TIMEOUT", "")
        except Exception as error:
            return ("raised", type(error).__name__ + ": " + str(error))
        finally:
            signal.setitimer(signal.ITIMER_REAL, 0)

    def check_stats(tag, sgame, solution):
        """ patched tree only """
        convergence = getattr(sgame, "convergence", None)
        if convergence is None:
            return
        reach, rew = convergence["reachability"], convergence["rewards"]
        problems = []
        if reach.sweeps != solution[4] or rew.sweeps != solution[5]:
            problems.append("sweeps differ from the returned counts")
        for stats in (reach, rew):
            if any(residual > 10 ** (-6) for residual in stats.final_residuals):
                problems.append("final residual above the threshold")
            if max(stats.settled_after) + 1 != stats.sweeps:
                problems.append("settled_after does not explain the number of sweeps")
            if len(stats.quantities) != len(stats.final_residuals) or \
                    len(stats.quantities) != len(stats.settled_after):
                problems.append("ragged statistics")
            stats.describe()
        if problems:
            extra_failures.append((tag, problems))

    # ---- 1. solve(), both pruning modes -------------------------------------------------
    for name, game in inputs["games"].items():
        budget = 1.5 if name.startswith("wild_") else 60
        for prune in (True, False):
            description = copy.deepcopy(game)
            before = repr(description["transition_list"])
            holder = {}
            def run():
                holder["game"] = StochasticGame(prune_states=prune, **description)
                holder["solution"] = holder["game"].solve()
                return tuple(holder["solution"])
            result = outcome(run, budget)
            out[("solve", name, prune)] = result
            out[("untouched", name, prune)] = before == repr(description["transition_list"])
            if result[0] == "ok":
                check_stats((name, prune), holder["game"], holder["solution"])

    # ---- 2. single steps on arbitrary values -------------------------------------------
    classes = {"Player 1": PlayerOne, "Player 2": PlayerTwo, "Probabilistic": ProbabilisticNode}
    def make_nodes(case):
        nodes = []
        for idx in range(case["n"]):
            if idx == 0:
                node = classes[case["player"]](player=case["player"], idx=0, reward=case["reward"],
                                               next_states=list(case["next_states"]),
                                               num_states=case["n"], is_final_node=False)
            else:
                node = ProbabilisticNode(player="Probabilistic", idx=idx, reward=0,
                                         next_states=[(1, idx)], num_states=case["n"],
                                         is_final_node=False)
            for attribute, value in case["values"][idx].items():
                setattr(node, attribute, value)
            nodes.append(node)
        if case["emptied"]:
            nodes[0].next_states = []
        return nodes
    for number, case in enumerate(inputs["units"]):
        nodes = make_nodes(case)
        out[("step", number)] = outcome(lambda: tuple(nodes[0].value_iteration_rewards(nodes)))
        out[("step_state", number)] = repr([(n.expected_rewards, n.expected_rewards_min_reach,
                                             n.expected_reach_min_rewards, n.next_states) for n in nodes])
        if case["player"] == "Player 2" and case["strategies"] is not None:
            out[("min_reach", number)] = outcome(
                lambda: nodes[0]._expected_rewards_min_reach(nodes, case["strategies"]))
        # the whole unseeded iteration on this little chain
        nodes = make_nodes(case)
        def iterate():
            sweeps = Solver(nodes).value_iteration_total_rewards()
            return sweeps, [(n.expected_rewards, n.expected_rewards_min_reach,
                             n.expected_reach_min_rewards) for n in nodes]
        if all(target != 0 for _, target in case["next_states"]):     # else it may never end
            out[("iteration", number)] = outcome(iterate, 60)

    # ---- 3. the driver and the report ---------------------------------------------------
    KEYS = ["n_states", "n_transitions", "n_iterations_reach", "n_iterations_rew",
            "reachability_strategies", "final_strategies", "msg", "rewards", "rew_min_reach",
            "probabilities", "prob_min_rew"]
    def masked(path):
        with open(path) as f:
            return [line for line in f.read().split("\n") if not line.startswith("Total time")]
    def drive(tag, games_dict, file_name):
        try:
            results = conditionalrewards.run_games(copy.deepcopy(games_dict))
        except Exception as error:
            out[("results", tag)] = "raised " + type(error).__name__ + ": " + str(error)
            return
        out[("results", tag)] = repr([(name, [(key, result[key]) for key in KEYS])
                                      for name, result in results.items()])
        conditionalrewards.save_results_to_file(results, file_name)
        report_path = "outputs/" + file_name.split("/")[-1].split(".")[0] + ".txt"
        report = masked(report_path)
        out[("report", tag)] = report
        try:
            conditionalrewards.save_results_to_file(results, file_name, convergence=True)
        except TypeError:
            return                       # clean tree: no such option
        longer = masked(report_path)
        if [line for line in longer if not line.startswith("Convergence ")] != report:
            extra_failures.append((tag, "convergence=True changed other report lines"))
        solved = sum(1 for result in results.values() if result["msg"] == "Game solved")
        if sum(1 for line in longer if line.startswith("Convergence ")) != 2 * solved:
            extra_failures.append((tag, "expected two Convergence lines per solved game"))
    for number, batch in enumerate(inputs["batches"]):
        drive(("batch", number), batch, f"some/dir/batch_{number}.py")
    for path in sorted(glob.glob(os.path.join(root, "inputs", "*.py"))):
        if os.path.getsize(path) > 35000:
            continue
        games_dict = conditionalrewards.read_dict_from_file(path)
        drive(("file", os.path.basename(path)), games_dict, path)

    with open(out_path, "wb") as f:
        pickle.dump({"out": out, "extra_failures": extra_failures}, f)
''')


def main():
    if len(sys.argv) != 3:
        print(__doc__)
        return 2
    patched, clean = (os.path.abspath(p) for p in sys.argv[1:3])
    inputs = build_inputs()
    with tempfile.TemporaryDirectory(prefix="c14_equiv_") as tmp:
        inputs_path = os.path.join(tmp, "inputs.pkl")
        with open(inputs_path, "wb") as f:
            pickle.dump(inputs, f)
        worker_path = os.path.join(tmp, "worker.py")
        with open(worker_path, "w") as f:
            f.write(WORKER)
        processes = {}
        for label, root in (("patched", patched), ("clean", clean)):
            workdir = os.path.join(tmp, "cwd_" + label)
            os.makedirs(workdir)
            env = dict(os.environ, PYTHONDONTWRITEBYTECODE="1", PYTHONHASHSEED="0")
            env.pop("PYTHONPATH", None)
            processes[label] = subprocess.Popen(
                [PY, worker_path, root, inputs_path, os.path.join(tmp, label + ".pkl"), workdir],
                env=env, stdout=subprocess.PIPE, stderr=subprocess.STDOUT, text=True)
        logs = {}
        for label, process in processes.items():
            logs[label], _ = process.communicate()
            if process.returncode != 0:
                print(f"FAIL: the worker of the {label} tree crashed:\n{logs[label][-3000:]}")
                return 1
        data = {}
        for label in processes:
            with open(os.path.join(tmp, label + ".pkl"), "rb") as f:
                data[label] = pickle.load(f)

    out_patched, out_clean = data["patched"]["out"], data["clean"]["out"]
    failures = []
    if set(out_patched) != set(out_clean):
        failures.append(("keys", sorted(set(out_patched) ^ set(out_clean), key=repr)[:5]))
    for key in out_clean:
        if key in out_patched and out_patched[key] != out_clean[key]:
            failures.append((key, out_clean[key], out_patched[key]))
    for failure in data["patched"]["extra_failures"]:
        failures.append(("patched-only check",) + tuple(failure))

    solves = [value for key, value in out_clean.items() if key[0] == "solve"]
    summary = {kind: sum(1 for value in solves if value[0] == kind) for kind in ("ok", "raised", "TIMEOUT")}
    print(f"compared {len(out_clean)} observations; solve() outcomes in the clean tree: {summary}; "
          f"untouched transition lists: {all(v for k, v in out_clean.items() if k[0] == 'untouched')}")
    if failures:
        print(f"FAIL: {len(failures)} differences, the first ones:")
        for failure in failures[:10]:
            print("   ", str(failure)[:1500])
        return 1
    print("PASS")
    return 0


if __name__ == "__main__":
    sys.exit(main())
