"""
Equivalence test for property C09 (malformed games are rejected with ValueError, never solved).

usage: python equiv_test.py <path-to-patched-root> <path-to-clean-root>

The two trees are loaded in two separate subprocesses (this same file, "--worker <root>").
Each worker builds the same deterministic family of cases and prints one JSON line per case:
    [case id, outcome]
The driver compares the two streams line by line.  PASS / exit 0 when they are identical.

What a worker observes
  * StochasticGame(**game).solve() in both pruning modes, for
      - several hundred random well-formed games (cycles, several finals, dead states, ties),
      - the small games shipped in inputs/,
      - every single-rule mutant of those games: every rule x every position (state, transition,
        tuple slot, entry of the final list), boundary values n and -1 included,
      - double mutants (which rule wins = which message is recorded),
      - odd descriptions outside the documented rules (n = 0, NaN, bool, tuples ...), where the
        two trees must still fail / succeed in exactly the same way (same exception type and text);
  * direct construction of the node classes with broken transition lists;
  * conditionalrewards.run_games on dictionaries mixing good and malformed games, and the report
    written by save_results_to_file (wall-clock values removed).
The log records of the batch runner (INFO level, wall-clock line removed) are compared as well.
On the patched tree only, the worker also checks that solve_detailed() agrees with solve() field by
field (and fails with the same error), that NO_SOLUTION holds the old defaults and that Stopwatch
lets exceptions through.
An outcome is ["ok", type name, repr(result)] or ["exc", class, isinstance ValueError, str(e), repr(e.args)];
subclasses of ValueError are reported as "ValueError" (what `except ValueError` sees).
"""
import copy
import io
import json
import os
import random
import signal
import subprocess
import sys
import tempfile

P1, P2, PR = "Player 1", "Player 2", "Probabilistic"
TUPLE_FIELDS = ("final_strategies", "reachability_strategies", "rewards", "probabilities",
                "n_iterations_reach", "n_iterations_rew",
                "expected_reach_min_rewards", "expected_rewards_min_reach")
CASE_TIMEOUT = 20
# shipped games whose unconditioned (no pruning) value iteration does not settle: solved with pruning only
NO_PRUNE_TOO_SLOW = ("manual_1_game_a.py", "robot_1_w1_l2", "robot_1_w2_l1", "robot_1_w2_l2")


# --------------------------------------------------------------------------- games
def random_game(rng):
    """
        A well-formed game whose value iterations terminate: rewarded states only move forward,
        except probabilistic states that may send at most half of their mass backwards;
        the absorbing states (finals and sinks) are zero-reward probabilistic self-loops.
    """
    n_inner = rng.randint(1, 7)
    n_abs = rng.randint(1, 3)
    n = n_inner + n_abs
    zero_rewards = rng.random() < 0.15
    players, transitions, rewards = [], [], []
    for idx in range(n_inner):
        player = rng.choice([P1, P2, PR])
        forward = list(range(idx + 1, n))
        k = rng.randint(1, min(4, len(forward) + 1))
        if player == PR:
            targets = [rng.choice(forward) for _ in range(k)]
            if rng.random() < 0.35:
                targets[-1] = rng.randint(0, idx)           # back edge / self loop
            if k == 1:
                targets = [rng.choice(forward)]
            weights = rng.choice([[1] * k, [rng.randint(1, 4) for _ in range(k)]])
            if k > 1 and targets[-1] <= idx:
                weights[-1] = min(weights[-1], sum(weights[:-1]))
            total = sum(weights)
            trans = [(w / total, t) for w, t in zip(weights, targets)]
            if k == 1:
                trans = [(1, targets[0])]
        else:
            trans = []
            for a in range(k):
                target = rng.choice(forward)
                if zero_rewards and rng.random() < 0.3:
                    target = rng.randint(0, n - 1)          # free cycles: nothing to accumulate
                trans.append(("abcd"[a], target))
        players.append(player)
        transitions.append(trans)
        rewards.append(0 if zero_rewards else rng.choice([0, 0, 1, 2, 2, 5, 2.5, 10]))
    for idx in range(n_inner, n):
        players.append(PR)
        transitions.append([(1, idx)])
        rewards.append(0)
    n_final = rng.randint(1, n_abs)
    finals = rng.sample(range(n_inner, n), n_final)
    if rng.random() < 0.1:
        finals.append(finals[0])                              # duplicated entry
    return {"rewards": rewards, "players": players, "transition_list": transitions,
            "final_states": finals}


def shipped_games(root):
    import conditionalrewards
    games = {}
    for name in ["paper_games.py", "example_games.py", "example_17_08.py", "manual_1_game_a.py",
                 "manual_arrow_bottom.py", "robot_1_w1_l2_r6_rb10_lb5_tb10_lt0.py",
                 "robot_1_w2_l1_r6_rb10_lb5_tb10_lt0.py", "robot_1_w2_l2_r6_rb10_lb5_tb10_lt0.py"]:
        path = os.path.join(root, "inputs", name)
        for key, game in conditionalrewards.read_dict_from_file(path).items():
            game.pop("prune_states", None)
            games[f"{name}:{key}"] = game
    return games


# --------------------------------------------------------------------------- mutants
class Weird:
    """ neither a str, nor a number, nor hashable """
    __hash__ = None

    def __repr__(self):
        return "Weird()"


def positions(seq_len, cap):
    """ all positions, or first / last / a spread when the sequence is long """
    if seq_len <= cap:
        return list(range(seq_len))
    step = max(1, seq_len // cap)
    return sorted(set([0, 1, seq_len - 2, seq_len - 1] + list(range(0, seq_len, step))))


def single_mutants(game, cap=12):
    """
        Yields (label, expected place, mutated copy): one broken rule at one position.
        `expected place` is what an error that knows its place should say (None: do not check).
    """
    n = len(game["players"])

    def mutant():
        return copy.deepcopy(game)

    # list lengths
    for key in ("transition_list", "rewards", "players"):
        for how in ("drop_last", "drop_first", "append", "empty"):
            g = mutant()
            if how == "drop_last":
                g[key] = g[key][:-1]
            elif how == "drop_first":
                g[key] = g[key][1:]
            elif how == "append":
                g[key] = g[key] + [g[key][-1]]
            else:
                g[key] = []
            yield f"len:{key}:{how}", None, g
    # negative reward
    for s in positions(n, cap):
        for value in (-1, -0.5, -1e-12, -10**30, float("-inf")):
            g = mutant()
            g["rewards"][s] = value
            yield f"reward:{s}:{value!r}", {"state": s}, g
    # unknown player
    for s in positions(n, cap):
        for value in ("player 1", "Player 3", "", None, 1, ["Player 1"], ("Player 1",), Weird(),
                      b"Player 1", "Player 1 "):
            g = mutant()
            g["players"][s] = value
            yield f"player:{s}:{value!r}", {"state": s}, g
    # final states
    n_f = len(game["final_states"])
    for value in (n, -1, n + 1, -n, -n - 1, 10 * n + 3):
        for where in positions(n_f + 1, cap):
            g = mutant()
            g["final_states"].insert(where, value)
            yield f"final:insert:{where}:{value}", {"final_entry": where}, g
        for where in positions(n_f, cap):
            g = mutant()
            g["final_states"][where] = value
            yield f"final:replace:{where}:{value}", {"final_entry": where}, g
    g = mutant()
    g["final_states"] = []
    yield "final:none", None, g
    # state without transitions / not a list
    for s in positions(n, cap):
        for value in ([], None, (), "", 0, {}, False):
            g = mutant()
            g["transition_list"][s] = value
            yield f"notrans:{s}:{value!r}", {"state": s}, g
        original = game["transition_list"][s]
        for label, value in (("tuple", tuple(original)), ("dict", dict(original)),
                             ("str", "ab"), ("int", 7), ("iter", None), ("set", None)):
            g = mutant()
            if label == "iter":
                value = iter(list(original))
            if label == "set":
                value = set(original)
            g["transition_list"][s] = value
            yield f"notlist:{s}:{label}", {"state": s}, g
    # per transition
    for s in positions(n, cap):
        is_prob = game["players"][s] == PR
        n_t = len(game["transition_list"][s])
        for t in positions(n_t, 6):
            label0, target = game["transition_list"][s][t]
            place = {"state": s, "transition": t}
            for name, value in (("list", [label0, target]), ("none", None), ("str", "ab"),
                                ("int", 3), ("dict", {label0: target}), ("weird", Weird())):
                g = mutant()
                g["transition_list"][s][t] = value
                yield f"nottuple:{s}:{t}:{name}", place, g
            for name, value in (("len0", ()), ("len1a", (label0,)), ("len1b", (target,)),
                                ("len3", (label0, target, target)),
                                ("len4", (label0, target, 0, 0))):
                g = mutant()
                g["transition_list"][s][t] = value
                yield f"tuplelen:{s}:{t}:{name}", place, g
            if is_prob:
                bad_labels = ("0.5", None, 1j, [0.5], (0.5,), Weird(), b"1", "")
            else:
                bad_labels = (None, 1, 0.5, b"a", ["a"], ("a",), Weird(), True)
            for value in bad_labels:
                g = mutant()
                g["transition_list"][s][t] = (value, target)
                yield f"label:{s}:{t}:{value!r}", dict(place, slot=0), g
            for value in (1.0, float(target), "1", str(target), None, [target], (target,),
                          Weird(), 1j, float("nan")):
                g = mutant()
                g["transition_list"][s][t] = (label0, value)
                yield f"succtype:{s}:{t}:{value!r}", dict(place, slot=1), g
            for value in (n, -1, n + 1, -n, -n - 1, 10 * n + 3):
                g = mutant()
                g["transition_list"][s][t] = (label0, value)
                yield f"succrange:{s}:{t}:{value}", dict(place, slot=1), g
        # an extra broken transition appended after the good ones
        g = mutant()
        g["transition_list"][s].append(("z", n) if not is_prob else (0.0, n))
        yield f"succrange:{s}:append", {"state": s, "transition": n_t, "slot": 1}, g


def odd_descriptions():
    """ outside the documented rules: the two trees must still behave identically """
    base = {"rewards": [1, 0], "players": [P1, PR], "transition_list": [[("a", 1)], [(1, 1)]],
            "final_states": [1]}
    yield "base", base
    yield "n0", {"rewards": [], "players": [], "transition_list": [], "final_states": []}
    yield "n0_final", {"rewards": [], "players": [], "transition_list": [], "final_states": [0]}
    nan = float("nan")
    for label, patch in (
            ("nan_reward_first", {"rewards": [nan, -1]}), ("nan_reward_last", {"rewards": [-1, nan]}),
            ("nan_only", {"rewards": [nan, nan]}), ("str_reward", {"rewards": ["1", 0]}),
            ("none_reward", {"rewards": [None, 0]}), ("bool_reward", {"rewards": [True, False]}),
            ("tuple_rewards", {"rewards": (1, 0)}), ("tuple_players", {"players": (P1, PR)}),
            ("tuple_tl", {"transition_list": ([("a", 1)], [(1, 1)])}),
            ("final_tuple", {"final_states": (1,)}), ("final_set", {"final_states": {1}}),
            ("final_float", {"final_states": [1.0]}), ("final_float_frac", {"final_states": [0.5]}),
            ("final_nan_first", {"final_states": [nan, 5]}), ("final_nan_last", {"final_states": [5, nan]}),
            ("final_str", {"final_states": ["1"]}), ("final_none", {"final_states": None}),
            ("final_none_entry", {"final_states": [None]}), ("final_bool", {"final_states": [True]}),
            ("final_mixed", {"final_states": [1, "x"]}), ("final_iter", {"final_states": iter([1])}),
            ("final_range", {"final_states": range(1, 2)}), ("final_range_bad", {"final_states": range(0, 3)}),
            ("succ_bool", {"transition_list": [[("a", True)], [(1, 1)]]}),
            ("prob_bool", {"transition_list": [[("a", 1)], [(True, 1)]]}),
            ("rewards_none", {"rewards": None}), ("tl_none", {"transition_list": None}),
            ("tl_int", {"transition_list": 3}),
            ("neg_and_final", {"rewards": [-1, 0], "final_states": []}),
            ("len_and_neg", {"rewards": [-1]}), ("player_and_final", {"players": ["x", PR], "final_states": [2]}),
            ("player_and_trans", {"players": ["x", PR], "transition_list": [[], [(1, 1)]]}),
            ("missing_then_bad", {"transition_list": [[], [(1, 2)]]}),
            ("bad_then_missing", {"transition_list": [[("a", 2)], []]}),
            ("missing_both", {"transition_list": [[], []]}),
    ):
        g = copy.deepcopy(base)
        g.update(patch)
        yield label, g


# --------------------------------------------------------------------------- observation
class CaseTimeout(Exception):
    pass


def _alarm(signum, frame):
    raise CaseTimeout()


def observe(fn):
    signal.alarm(CASE_TIMEOUT)
    try:
        result = fn()
        return ["ok", type(result).__name__, repr(result)]
    except CaseTimeout:
        return ["timeout"]
    except Exception as e:                                  # noqa: the outcome is the datum
        is_value_error = isinstance(e, ValueError)
        return ["exc", "ValueError" if is_value_error else type(e).__name__, is_value_error,
                str(e), repr(e.args)]
    finally:
        signal.alarm(0)


def worker(root):
    sys.dont_write_bytecode = True
    sys.path.insert(0, root)
    os.chdir(root)
    import logging
    import tad
    import conditionalrewards
    records = []

    class Capture(logging.Handler):
        def emit(self, record):
            records.append(f"{record.levelname}:{record.getMessage()}")
    logging.getLogger().addHandler(Capture())
    logging.getLogger().setLevel(logging.CRITICAL + 1)
    detailed = hasattr(tad.StochasticGame, "solve_detailed")
    signal.signal(signal.SIGALRM, _alarm)
    out = sys.stdout
    selfcheck_failures = []

    def emit(case_id, outcome):
        out.write(json.dumps([case_id, outcome]) + "\n")

    def solve_both(case_id, game, expected_place=None, modes=(True, False)):
        for prune in modes:
            description = copy.deepcopy(game)
            caught = []

            def run():
                try:
                    return tad.StochasticGame(prune_states=prune, **description).solve()
                except ValueError as e:
                    caught.append(e)
                    raise
            plain = observe(run)
            emit(f"{case_id}|prune={prune}", plain)
            # patched tree only: the named outcome and the plain tuple tell the same story
            if detailed and plain[0] != "timeout":
                description = copy.deepcopy(game)
                named = observe(
                    lambda: tad.StochasticGame(prune_states=prune, **description).solve_detailed())
                if plain[0] == "exc":
                    same = named == plain and (not caught or type(caught[0]) is ValueError)
                else:
                    solution = eval(named[2], {"Solution": tad.Solution, "nan": float("nan"),
                                               "inf": float("inf")})
                    same = named[1] == "Solution" and solution._fields == TUPLE_FIELDS and \
                        repr(tuple(solution)) == plain[2] and plain[1] == "tuple"
                if not same:
                    selfcheck_failures.append((case_id, prune, plain, named))

    rng = random.Random(20240909)
    bases = {}
    for i in range(400):
        bases[f"rnd{i}"] = random_game(rng)
    shipped = shipped_games(root)

    # 1. well-formed games
    for name, game in list(bases.items()) + list(shipped.items()):
        slow = name.startswith(NO_PRUNE_TOO_SLOW)
        solve_both(f"good:{name}", game, modes=(True,) if slow else (True, False))

    # 2. single mutants: every rule x every position
    mutation_bases = [(k, bases[k]) for k in list(bases)[:70]] + list(shipped.items())
    all_mutants = []
    for name, game in mutation_bases:
        cap = 12 if len(game["players"]) <= 40 else 5
        for label, place, g in single_mutants(game, cap):
            solve_both(f"mut:{name}:{label}", g, place)
            if name.startswith("rnd") and rng.random() < 0.02:
                all_mutants.append((f"{name}:{label}", g))

    # 3. double mutants: which rule is reported
    def merged(base, first, second):
        """ the changes of `second` (w.r.t. base) applied on top of `first` """
        g = copy.deepcopy(first)
        for key in base:
            if repr(second[key]) == repr(base[key]):
                continue
            same_shape = all(isinstance(x[key], list) for x in (base, first, second)) and \
                len(base[key]) == len(first[key]) == len(second[key]) and key != "final_states"
            if not same_shape:
                g[key] = copy.deepcopy(second[key])
                continue
            for position, (theirs, orig) in enumerate(zip(second[key], base[key])):
                if repr(theirs) != repr(orig):
                    g[key][position] = copy.deepcopy(theirs)
        return g

    for name, game in mutation_bases[:40]:
        pool = [(label, g) for label, _, g in single_mutants(game, 4) if ":iter" not in label]
        for _ in range(40):
            (la, ga), (lb, gb) = rng.sample(pool, 2)
            solve_both(f"dbl:{name}:{la}+{lb}", merged(game, ga, gb))

    # 4. odd descriptions
    for label, g in odd_descriptions():
        for prune in (True, False):
            emit(f"odd:{label}|prune={prune}", observe(
                lambda: tad.StochasticGame(prune_states=prune, **copy.deepcopy(g)).solve()))
        emit(f"odd:{label}|check_game", observe(
            lambda: tad.StochasticGame(**copy.deepcopy(g)).check_game()))
        emit(f"odd:{label}|init_states", observe(
            lambda: [(s.idx, s.player, s.next_states) for s in
                     tad.StochasticGame(**copy.deepcopy(g)).init_states()]))

    # 5. the node classes on their own
    for cls_name, player in (("PlayerOne", P1), ("PlayerTwo", P2), ("ProbabilisticNode", PR),
                             ("PlayerOne", PR), ("ProbabilisticNode", P1), ("PlayerOne", "nobody")):
        cls = getattr(tad, cls_name)
        for label, next_states in (
                ("ok_str", [("a", 1)]), ("ok_num", [(0.5, 1), (0.5, 2)]), ("empty", []),
                ("none", None), ("tuple", (("a", 1),)), ("second_bad", [("a", 1), ["a", 1]]),
                ("last_len", [("a", 1), ("b", 2), ("c",)]), ("n", [("a", 3)]), ("n_num", [(1, 3)]),
                ("minus1", [("a", 0), ("b", -1)]), ("minus1_num", [(0.5, 0), (0.5, -1)]),
                ("float_succ", [("a", 1.0)]), ("bool_succ", [("a", True)]),
                ("both_slots", [(None, None)]), ("both_slots_later", [("a", 1), (None, "x")])):
            emit(f"node:{cls_name}:{player}:{label}", observe(
                lambda: (lambda node: (node.idx, node.next_states, node.reach_probability))(
                    cls(player=player, idx=2, reward=1, next_states=copy.deepcopy(next_states),
                        num_states=3, is_final_node=False))))

    # 6. the batch runner and its report
    workdir = tempfile.mkdtemp(prefix="c09_equiv_")
    os.makedirs(os.path.join(workdir, "outputs"))
    os.chdir(workdir)
    good = list(bases.items())[100:160]
    batches = []
    for b in range(60):
        batch = {}
        for j in range(rng.randint(1, 4)):
            if rng.random() < 0.6 and all_mutants:
                label, g = rng.choice(all_mutants)
            else:
                label, g = rng.choice(good)
            batch[f"g{j}_{label}"] = copy.deepcopy(g)
        batches.append(batch)
    for label, g in odd_descriptions():
        if label != "final_iter":
            batches.append({"before": copy.deepcopy(good[0][1]), label: copy.deepcopy(g),
                            "after": copy.deepcopy(good[1][1])})
    for b, batch in enumerate(batches):
        holder = {}

        def run_batch():
            del records[:]
            logging.getLogger().setLevel(logging.INFO)
            try:
                results = conditionalrewards.run_games(batch)
            finally:
                logging.getLogger().setLevel(logging.CRITICAL + 1)
            holder["results"] = results
            cleaned = {}
            for name, entry in results.items():
                entry = dict(entry)
                assert isinstance(entry.pop("total_time"), float)
                cleaned[name] = entry
            return cleaned
        emit(f"batch:{b}:results", observe(run_batch))
        emit(f"batch:{b}:log", [r for r in records if not r.startswith("INFO:Total time")])
        if "results" in holder:
            def report():
                conditionalrewards.save_results_to_file(holder["results"], f"inputs/batch{b}.py")
                with io.open(f"outputs/batch{b}.txt", encoding="utf-8") as handle:
                    lines = handle.read().split("\n")
                return [line for line in lines if not line.startswith("Total time")]
            emit(f"batch:{b}:report", observe(report))

    # 7. patched tree only: the pieces the refactoring introduced
    if detailed:
        if tuple(tad.NO_SOLUTION) != (None, None, None, None, 0, 0, 0, 0) or \
                tad.NO_SOLUTION._fields != TUPLE_FIELDS:
            selfcheck_failures.append(("NO_SOLUTION", repr(tad.NO_SOLUTION)))
        for error in (ValueError("x"), TypeError("y"), KeyError("z")):
            try:
                with conditionalrewards.Stopwatch() as watch:
                    raise error
            except type(error) as seen:
                if seen is not error or not isinstance(watch.elapsed, float):
                    selfcheck_failures.append(("Stopwatch", repr(error)))
            else:
                selfcheck_failures.append(("Stopwatch swallowed", repr(error)))
        with conditionalrewards.Stopwatch() as watch:
            pass
        if not (isinstance(watch.elapsed, float) and 0 <= watch.elapsed < 1):
            selfcheck_failures.append(("Stopwatch elapsed", watch.elapsed))

    emit("selfcheck", selfcheck_failures[:20])
    out.flush()


# --------------------------------------------------------------------------- driver
def run_worker(root):
    proc = subprocess.run([sys.executable, os.path.abspath(__file__), "--worker", os.path.abspath(root)],
                          stdout=subprocess.PIPE, stderr=subprocess.PIPE, text=True)
    if proc.returncode != 0:
        print(proc.stderr[-3000:])
        raise SystemExit(f"FAIL: worker for {root} crashed")
    return [json.loads(line) for line in proc.stdout.splitlines() if line.strip()]


def main():
    if len(sys.argv) == 3 and sys.argv[1] == "--worker":
        worker(sys.argv[2])
        return 0
    if len(sys.argv) != 3:
        print(__doc__)
        return 2
    patched = run_worker(sys.argv[1])
    clean = run_worker(sys.argv[2])
    failures = []
    if len(patched) != len(clean):
        failures.append(f"different number of cases: {len(patched)} vs {len(clean)}")
    stats = {}
    for (id_p, out_p), (id_c, out_c) in zip(patched, clean):
        if id_p != id_c:
            failures.append(f"case streams diverge: {id_p} vs {id_c}")
            break
        if id_p == "selfcheck":
            if out_p:
                failures.append(f"patched self-check: {out_p}")
            continue
        if out_p != out_c:
            failures.append(f"{id_p}\n    patched: {str(out_p)[:300]}\n    clean  : {str(out_c)[:300]}")
        kind = id_p.split(":")[0]
        if id_p.endswith(":log"):
            key = (kind, "log")
        else:
            key = (kind, out_c[0] if out_c[0] != "exc" else out_c[1])
        stats[key] = stats.get(key, 0) + 1
    for key in sorted(stats):
        print(f"  {key[0]:6s} {key[1]:12s} {stats[key]}")
    # sanity of the test itself: every single mutant of a documented rule must be a ValueError
    not_rejected = [i for i, o in clean if i.startswith("mut:") and not (o[0] == "exc" and o[2])]
    print(f"  cases: {len(clean)}; single mutants not rejected with ValueError in the clean tree: "
          f"{len(not_rejected)}")
    for line in not_rejected[:10]:
        print("     ", line)
    if failures:
        print(f"FAIL ({len(failures)} differences)")
        for failure in failures[:25]:
            print(" -", failure)
        return 1
    print("PASS")
    return 0


if __name__ == "__main__":
    sys.exit(main())
