#!/usr/bin/env python
"""
Equivalence harness for property C03 ("conditioning removes every dead branch,
and only dead branches") - variant 1 (configurable initial state).

usage:  python equiv_test.py <path-to-patched-root> <path-to-clean-root>

The same deterministic list of cases is run against both trees, each tree in its
own subprocess (both use the module names tad / conditionalrewards).  A case
produces a record made of repr() strings, so an int/float change of a
probability or a last-bit rounding difference is a difference.

  node      ProbabilisticNode.prune_paths / PlayerOne.prune_paths on one node with
            k = 1..6 successors and EVERY dead/alive pattern (none, first, last,
            adjacent, separated, all), several probability styles, duplicated
            transitions, int probabilities, reach values 0 / 0.0 / -0.0 / 1e-12
  assigned  random games, reach probabilities and Player 1 strategy lists assigned
            by hand (any subset, also empty): snapshots of every next_states after
            prune_reachability, prune_paths, prune_states
  pipeline  init_states -> solve_reachability -> prune_reachability ->
            prune_stochastich_game on random games (cycles, several finals, dead
            traps, ties, unreachable parts), both pruning modes
  solve     full StochasticGame.solve() tuple or the error text, both modes, and the
            caller's transition list afterwards
  driver    conditionalrewards.run_games + save_results_to_file on dictionaries of
            games (results without the time, report without the time line)

Every pruning snapshot is also checked, inside the worker, against an independent
reference implementation of the property written in this file (REF), for both
trees - so "both wrong in the same way" fails too.

Variant-1 extras (the new code path).  The clean tree cannot start a game in
state k, but it can solve the game in which the labels 0 and k are swapped.  Both
workers solve the swapped game; the patched worker also runs the original game
with initial_state=k and maps the answer to the swapped labelling.  The parent
requires   patched(initial_state=k) == clean(swapped game)   exactly for the
pruning snapshots (no value iteration involved, reach probabilities assigned)
and up to 1e-4 for full solves (the sweep order of value iteration differs).
It also checks: initial_state=0 given explicitly == omitted, invalid initial
states are rejected with a ValueError before anything is solved, the driver's
initial_state argument.

Prints PASS and exits 0 when nothing differs, FAIL (exit 1) otherwise.
"""
import copy
import itertools
import json
import os
import random
import subprocess
import sys
import tempfile

P1, P2, PR = "Player 1", "Player 2", "Probabilistic"
SEED = 80301


# --------------------------------------------------------------------------- #
# case generation (identical in both workers: same seed, same interpreter)

def probabilities(rng, k, style):
    if style == "uniform":
        return [1 / k] * k
    if style == "dyadic":
        out = [1 / 2 ** (i + 1) for i in range(k)]
        out[-1] *= 2
        return out
    if style == "int" and k == 1:
        return [1]
    if style == "tiny":
        weights = [1e-9] + [rng.uniform(0.1, 1) for _ in range(k - 1)]
        rng.shuffle(weights)
    else:
        weights = [rng.uniform(0.05, 1) for _ in range(k)]
    total = sum(weights)
    return [w / total for w in weights]


def random_game(rng, sizes=(1, 2, 3, 4, 5, 6, 8, 10, 14), min_prob_style=None, absorbing=True):
    n = rng.choice(sizes)
    players = [rng.choice([P1, P2, PR, PR]) for _ in range(n)]
    n_final = rng.randint(1, min(3, n))
    finals = rng.sample(range(n), n_final)
    if rng.random() < 0.7 and 0 in finals and n > 1:
        finals = [f for f in finals if f != 0] or [rng.randrange(1, n)]
    candidates = [i for i in range(n) if i not in finals and i != 0]
    traps = set(rng.sample(candidates, rng.randint(0, len(candidates) // 2))) if candidates else set()
    transitions = []
    for i in range(n):
        if absorbing and i in finals:
            # a final state is where the play ends: it only loops on itself
            transitions.append([(1, i)] if players[i] == PR else [("a", i)])
            continue
        degree = rng.randint(1, 5)
        pool = sorted(traps) if i in traps else list(range(n))
        if rng.random() < 0.5:
            targets = [rng.choice(pool) for _ in range(degree)]
        else:
            # bias towards several dead successors in one list
            dead_pool = sorted(traps) or pool
            targets = [rng.choice(dead_pool if rng.random() < 0.5 else pool) for _ in range(degree)]
        if players[i] == PR:
            style = min_prob_style or rng.choice(["uniform", "dyadic", "int", "tiny", "random", "random"])
            probs = probabilities(rng, degree, style)
            transitions.append([(p, t) for p, t in zip(probs, targets)])
        else:
            names = "abcdefgh"
            if rng.random() < 0.1:
                acts = [rng.choice(names[:3]) for _ in range(degree)]   # repeated action names
            else:
                acts = list(names[:degree])
            transitions.append([(a, t) for a, t in zip(acts, targets)])
    rewards = [rng.choice([0, 0, 1, 2, 3, 5, 0.5, 5 / 3]) for _ in range(n)]
    return convergent({"rewards": rewards, "players": players,
                       "transition_list": transitions, "final_states": finals})


def convergent(game):
    """
    Total rewards are finite only if no reward can be collected for ever: put reward 0 on
    every state that lies on a cycle (then a play collects each positive reward at most once,
    pruned or not, whatever the players do).  Otherwise value iteration would never stop.
    """
    n = len(game["players"])
    successors = [{t for _, t in trans} for trans in game["transition_list"]]
    for start in range(n):
        seen, stack = set(), list(successors[start])
        while stack:
            state = stack.pop()
            if state not in seen:
                seen.add(state)
                stack.extend(successors[state])
        if start in seen:
            game["rewards"][start] = 0
    return game


def chain_game(length, kind):
    """0 -> final; a chain n-1 -> n-2 -> ... -> 2 nobody points to (cleared one per round)."""
    n = length + 2
    players = [P1, PR] + [kind] * length
    transitions = [[("go", 1)], [(1, 1)]]
    for i in range(2, n):
        target = i - 1 if i > 2 else 1
        transitions.append([(1, target)] if kind == PR else [("x", target)])
    return {"rewards": [1] * n, "players": players,
            "transition_list": transitions, "final_states": [1]}


def handmade_games():
    games = []
    # one state, final, self loop
    games.append({"rewards": [0], "players": [PR], "transition_list": [[(1, 0)]], "final_states": [0]})
    games.append({"rewards": [2], "players": [P1], "transition_list": [[("a", 0)]], "final_states": [0]})
    # initial state dead
    games.append({"rewards": [0, 0, 0], "players": [P1, PR, PR],
                  "transition_list": [[("a", 1)], [(1, 1)], [(1, 2)]], "final_states": [2]})
    # two adjacent / two separated / first+last / all dead successors, probabilistic and player 1
    dead_patterns = [[3, 3, 1], [3, 1, 4], [1, 3, 4], [3, 1, 4, 1, 3], [3, 4, 3], [1, 3, 3, 4, 1]]
    for pat in dead_patterns:
        for kind in (PR, P1):
            k = len(pat)
            if kind == PR:
                first = [(1 / k, t) for t in pat]
            else:
                first = [("abcdefgh"[j], t) for j, t in enumerate(pat)]
            games.append({"rewards": [1, 0, 2, 3, 4], "players": [kind, PR, P2, PR, P1],
                          "transition_list": [first, [(1, 1)], [("x", 1), ("y", 3)], [(0.5, 3), (0.5, 4)],
                                              [("s", 4), ("t", 3)]],
                          "final_states": [1]})
    # player 2 in front of and behind pruned hubs, unreferenced player 1 with / without transitions
    games.append({"rewards": [0, 1, 1, 1, 1, 1, 1], "players": [P2, PR, P1, P2, PR, P1, P1],
                  "transition_list": [[("a", 1), ("b", 2)], [(0.3, 6), (0.3, 4), (0.4, 6)],
                                      [("a", 4), ("b", 6), ("c", 4)], [("a", 1), ("b", 4)], [(1, 4)],
                                      [("a", 4)], [("a", 6)]],
                  "final_states": [6]})
    for kind in (PR, P2, P1):
        games.append(chain_game(6, kind))
    # no final state -> error
    games.append({"rewards": [0, 0], "players": [P1, PR],
                  "transition_list": [[("a", 1)], [(1, 0)]], "final_states": []})
    return [convergent(game) for game in games]


def swap_labels(game, k):
    """The same game with the labels 0 and k exchanged."""
    def pi(i):
        return k if i == 0 else 0 if i == k else i
    n = len(game["players"])
    out = {"rewards": [None] * n, "players": [None] * n, "transition_list": [None] * n,
           "final_states": [pi(f) for f in game["final_states"]]}
    for i in range(n):
        out["rewards"][pi(i)] = game["rewards"][i]
        out["players"][pi(i)] = game["players"][i]
        out["transition_list"][pi(i)] = [(a, pi(t)) for a, t in game["transition_list"][i]]
    return out


def swap_list(values, k):
    values = list(values)
    values[0], values[k] = values[k], values[0]
    return values


# --------------------------------------------------------------------------- #
# REF: independent statement of the property

def ref_prune_paths(before, players, reach):
    after = []
    for trans, player in zip(before, players):
        if player == P2:
            after.append(list(trans))
            continue
        alive = [t for t in trans if reach[t[1]] != 0]
        if player == PR and len(alive) != len(trans):
            total = sum(t[0] for t in alive)
            alive = [(t[0] / total, t[1]) for t in alive]
        after.append(alive)
    return after


def ref_prune_states(before, players, initial):
    """Least fixpoint, computed the slow obvious way."""
    current = [list(t) for t in before]
    while True:
        pointed = {initial}
        for trans in current:
            pointed.update(t[1] for t in trans)
        todo = [i for i, p in enumerate(players) if p != P1 and i not in pointed and current[i]]
        if not todo:
            return current
        for i in todo:
            current[i] = []


def ref_prune_reachability(before, players, strategies):
    return [[t for t in trans if t[0] in strategies[i]] if p == P1 else list(trans)
            for i, (trans, p) in enumerate(zip(before, players))]


def lists(state_list):
    return [[tuple(t) for t in s.next_states] for s in state_list]


def same(a, b):
    return repr(a) == repr(b)


# --------------------------------------------------------------------------- #
# worker

def assigned_reach(rng, n):
    out = []
    for _ in range(n):
        r = rng.random()
        if r < 0.4:
            out.append(rng.choice([0, 0, 0.0, -0.0]))
        elif r < 0.5:
            out.append(rng.choice([1e-12, 1e-9, 1]))
        else:
            out.append(rng.random())
    return out


def assigned_strategies(rng, game):
    out = []
    for player, trans in zip(game["players"], game["transition_list"]):
        if player != P1:
            out.append(None)
            continue
        acts = [a for a, _ in trans]
        r = rng.random()
        if r < 0.5:
            out.append(list(acts))
        elif r < 0.6:
            out.append([])
        else:
            out.append([a for a in acts if rng.random() < 0.6])
    return out


def run_assigned(tad, game, reach, strategies, initial=None):
    """prune_reachability / prune_paths / prune_states on assigned reach values. Returns snapshots + REF verdict."""
    sgame = tad.StochasticGame(**copy.deepcopy(game))
    state_list = sgame.init_states()
    for state, value in zip(state_list, reach):
        state.reach_probability = value
    solver = tad.Solver(state_list) if initial is None else tad.Solver(state_list, initial_state=initial)
    players = game["players"]
    start = lists(state_list)
    solver.prune_reachability(strategies)
    s1 = lists(state_list)
    solver.prune_paths()
    s2 = lists(state_list)
    solver.prune_states()
    s3 = lists(state_list)
    r1 = ref_prune_reachability(start, players, strategies)
    r2 = ref_prune_paths(r1, players, reach)
    r3 = ref_prune_states(r2, players, 0 if initial is None else initial)
    ok = same(s1, r1) and same(s2, r2) and same(s3, r3)
    return {"s1": repr(s1), "s2": repr(s2), "s3": repr(s3), "ref_ok": ok}


def run_pipeline(tad, game, prune):
    try:
        sgame = tad.StochasticGame(**copy.deepcopy(game), prune_states=prune)
        sgame.check_game()
        state_list = sgame.init_states()
        solver = tad.Solver(state_list)
        strategies, iterations = solver.solve_reachability(game["transition_list"], game["final_states"], prune)
        reach = [s.reach_probability for s in state_list]
        start = lists(state_list)
        solver.prune_reachability(strategies)
        s1 = lists(state_list)
        solver.prune_stochastich_game()
        s3 = lists(state_list)
    except ValueError as error:
        return {"error": repr(str(error)), "ref_ok": True}
    players = game["players"]
    r1 = ref_prune_reachability(start, players, strategies)
    r3 = ref_prune_states(ref_prune_paths(r1, players, reach), players, 0)
    return {"reach": repr(reach), "strategies": repr(strategies), "iterations": iterations,
            "s1": repr(s1), "s3": repr(s3), "ref_ok": same(s1, r1) and same(s3, r3)}


class NoConvergence(BaseException):
    """The solver's value iteration oscillates on some games (also on the clean tree)."""


def _alarm(*_):
    raise NoConvergence()


def guarded(function, *args, **kwargs):
    """Run function; a solve that needs more than LIMIT seconds (normal: milliseconds) is recorded as such."""
    import signal
    signal.signal(signal.SIGALRM, _alarm)
    signal.setitimer(signal.ITIMER_REAL, LIMIT)
    try:
        return function(*args, **kwargs)
    except NoConvergence:
        return {"no_convergence": True}
    finally:
        signal.setitimer(signal.ITIMER_REAL, 0)


LIMIT = 10


def run_solve(tad, game, prune, **extra):
    return guarded(_run_solve, tad, game, prune, **extra)


def run_driver(cr, games, tag, **kwargs):
    return guarded(_run_driver, cr, games, tag, **kwargs)


def _run_solve(tad, game, prune, **extra):
    description = copy.deepcopy(game)
    before = repr(description)
    try:
        result = tad.StochasticGame(**description, prune_states=prune, **extra).solve()
        out = {"result": repr(result), "raw": [list(map(repr_or_list, result))]}
    except ValueError as error:
        out = {"error": repr(str(error))}
    out["caller_untouched"] = before == repr(description)
    return out


def repr_or_list(x):
    return x if isinstance(x, (int, float)) or x is None else list(x)


def _run_driver(cr, games, tag, **kwargs):
    results = cr.run_games(copy.deepcopy(games), **kwargs)
    for entry in results.values():
        entry.pop("total_time")
    os.makedirs("outputs", exist_ok=True)
    full = cr.run_games(copy.deepcopy(games), **kwargs)
    cr.save_results_to_file(full, f"inputs/{tag}.py")
    with open(f"outputs/{tag}.txt") as handle:
        report = [line for line in handle.read().split("\n") if not line.startswith("Total time")]
    return {"results": repr(results), "report": "\n".join(report)}


def node_cases(tad, records):
    rng = random.Random(SEED + 1)
    zero_values = [0, 0.0, -0.0]
    for k in range(1, 7):
        for pattern in itertools.product([False, True], repeat=k):
            for style in ["uniform", "dyadic", "int", "tiny", "random"]:
                for kind in (PR, P1):
                    n = k + 2
                    targets = [rng.randrange(1, n) for _ in range(k)] if rng.random() < 0.3 else list(range(1, k + 1))
                    dead_targets = {t for t, dead in zip(targets, pattern) if dead}
                    if kind == PR:
                        trans = [(p, t) for p, t in zip(probabilities(rng, k, style), targets)]
                    else:
                        trans = [("abcdefgh"[j], t) for j, t in enumerate(targets)]
                    if rng.random() < 0.2 and k > 1:
                        trans[-1] = trans[0]          # duplicated identical tuple
                    game = {"rewards": [1] * n, "players": [kind] + [PR] * (n - 1),
                            "transition_list": [list(trans)] + [[(1, i)] for i in range(1, n)],
                            "final_states": [n - 1]}
                    state_list = tad.StochasticGame(**game).init_states()
                    reach = [0.5] + [rng.choice(zero_values) if i in dead_targets else rng.choice([1e-12, 0.3, 1])
                                     for i in range(1, n)]
                    for state, value in zip(state_list, reach):
                        state.reach_probability = value
                    node = state_list[0]
                    returned = node.prune_paths(state_list)
                    after = lists(state_list)
                    expected = ref_prune_paths(game["transition_list"], game["players"], reach)
                    records[f"node/{k}/{pattern}/{style}/{kind}"] = {
                        "after": repr(after), "returned": repr(returned), "ref_ok": same(after[0], expected[0]) and same(after[1:], game["transition_list"][1:])}


def worker(root, out_path, patched):
    sys.path.insert(0, root)
    workdir = tempfile.mkdtemp(prefix="c03w_")
    os.chdir(workdir)
    import logging
    logging.disable(logging.CRITICAL)
    import tad
    import conditionalrewards as cr
    assert os.path.dirname(os.path.abspath(tad.__file__)) == os.path.abspath(root)
    records = {}
    extras = {}

    node_cases(tad, records)

    rng = random.Random(SEED + 2)
    games = handmade_games() + [random_game(rng) for _ in range(600)]
    n_solvable = len(games)
    # final states with ways out: fine for the pruning itself, but the solver's reward sweep may oscillate
    games += [random_game(rng, absorbing=False) for _ in range(200)]

    # assigned reach values and strategies
    arng = random.Random(SEED + 3)
    for number, game in enumerate(games):
        if not game["final_states"]:
            continue
        n = len(game["players"])
        for rep in range(2):
            reach = assigned_reach(arng, n)
            strategies = assigned_strategies(arng, game)
            records[f"assigned/{number}/{rep}"] = run_assigned(tad, game, reach, strategies)
            k = arng.randrange(n)
            swapped = swap_labels(game, k)
            records[f"assigned-swapped/{number}/{rep}"] = run_assigned(
                tad, swapped, swap_list(reach, k), swap_list(strategies, k))
            if patched:
                mine = run_assigned(tad, game, reach, strategies, initial=k)
                # relabel my answer like the swapped game
                relabelled = {}
                for key in ("s1", "s2", "s3"):
                    snap = eval(mine[key])
                    pi = lambda i: k if i == 0 else 0 if i == k else i
                    snap = [[(a, pi(t)) for a, t in trans] for trans in snap]
                    relabelled[key] = repr(swap_list(snap, k))
                relabelled["ref_ok"] = mine["ref_ok"]
                extras[f"assigned-swapped/{number}/{rep}"] = relabelled
                if rep == 0:
                    extras[f"explicit-zero/{number}"] = (
                        run_assigned(tad, game, reach, strategies, initial=0)
                        == records[f"assigned/{number}/{rep}"])

    # pipeline and full solve, both modes
    for number, game in enumerate(games):
        for prune in (True, False):
            records[f"pipeline/{number}/{prune}"] = run_pipeline(tad, game, prune)
            if number < n_solvable:
                records[f"solve/{number}/{prune}"] = run_solve(tad, game, prune)

    # solve-level extras: initial_state=k  versus  the swapped game
    srng = random.Random(SEED + 4)
    solve_games = [random_game(srng, sizes=(2, 3, 4, 5, 6), min_prob_style="uniform") for _ in range(300)]
    for number, game in enumerate(solve_games):
        k = srng.randrange(len(game["players"]))
        swapped = swap_labels(game, k)
        for prune in (True, False):
            records[f"solve-swapped/{number}/{prune}"] = run_solve(tad, swapped, prune)
            if patched:
                extras[f"solve-swapped/{number}/{prune}"] = dict(
                    run_solve(tad, game, prune, initial_state=k), k=k)
    if patched:
        for number, game in enumerate(games[:150]):
            n = len(game["players"])
            extras[f"solve-explicit-zero/{number}"] = (
                run_solve(tad, game, True, initial_state=0) == records[f"solve/{number}/True"])
            for bad in (-1, n, n + 3, 1.0, "0", None, True):
                answer = run_solve(tad, game, True, initial_state=bad)
                extras[f"solve-bad/{number}/{bad!r}"] = "error" in answer and (
                    "initial state" in answer["error"] or "error" in records[f"solve/{number}/True"])

    # driver
    drng = random.Random(SEED + 5)
    for number in range(40):
        batch = {f"g{j}": random_game(drng, sizes=(2, 3, 4, 5, 6)) for j in range(3)}
        if number % 5 == 0:
            batch["dead"] = handmade_games()[2]
        records[f"driver/{number}"] = run_driver(cr, batch, f"batch{number}")
        if patched:
            extras[f"driver-none/{number}"] = (
                run_driver(cr, batch, f"batchn{number}", initial_state=None).get("results")
                == records[f"driver/{number}"].get("results"))
            explicit = copy.deepcopy(batch)
            for game in explicit.values():
                game["initial_state"] = 0
            extras[f"driver-entry-zero/{number}"] = (
                run_driver(cr, explicit, f"batche{number}").get("results") == records[f"driver/{number}"].get("results"))
            k = 1
            swapped = {name: swap_labels(game, k) for name, game in batch.items()}
            records[f"driver-swapped/{number}"] = run_driver(cr, swapped, f"batchs{number}")
            extras[f"driver-swapped/{number}"] = run_driver(cr, batch, f"batchk{number}", initial_state=k)
        else:
            swapped = {name: swap_labels(game, 1) for name, game in batch.items()}
            records[f"driver-swapped/{number}"] = run_driver(cr, swapped, f"batchs{number}")

    with open(out_path, "w") as handle:
        json.dump({"records": records, "extras": extras}, handle)


# --------------------------------------------------------------------------- #
# parent

def close(a, b, tol=1e-4):
    if isinstance(a, (list, tuple)) and isinstance(b, (list, tuple)):
        return len(a) == len(b) and all(close(x, y, tol) for x, y in zip(a, b))
    if isinstance(a, float) or isinstance(b, float):
        if a is None or b is None or isinstance(a, str) or isinstance(b, str):
            return False
        return abs(a - b) <= tol * max(1, abs(a), abs(b))
    return a == b


def unswap_solve(raw, k):
    """Map a solve() answer for the original game onto the swapped labelling (lists indexed by state)."""
    return [swap_list(x, k) if isinstance(x, list) else x for x in raw]


def main():
    if len(sys.argv) >= 2 and sys.argv[1] == "--worker":
        worker(sys.argv[2], sys.argv[3], sys.argv[4] == "patched")
        return 0
    if len(sys.argv) != 3:
        print(__doc__)
        return 2
    patched_root, clean_root = map(os.path.abspath, sys.argv[1:3])
    outputs = {}
    for tag, root in (("patched", patched_root), ("clean", clean_root)):
        out_path = os.path.join(tempfile.mkdtemp(prefix="c03_"), f"{tag}.json")
        env = dict(os.environ, PYTHONDONTWRITEBYTECODE="1", PYTHONHASHSEED="0")
        done = subprocess.run([sys.executable, os.path.abspath(__file__), "--worker", root, out_path, tag],
                              env=env, capture_output=True, text=True)
        if done.returncode != 0:
            print(done.stdout[-3000:], done.stderr[-3000:])
            print(f"FAIL: worker for the {tag} tree crashed")
            return 1
        with open(out_path) as handle:
            outputs[tag] = json.load(handle)

    failures = []
    patched, clean = outputs["patched"]["records"], outputs["clean"]["records"]
    if patched.keys() != clean.keys():
        failures.append(("case lists differ", sorted(set(patched) ^ set(clean))[:5]))
    counts = {}
    for key in clean:
        counts[key.split("/")[0]] = counts.get(key.split("/")[0], 0) + 1
        if patched.get(key) != clean[key]:
            failures.append(("patched != clean", key, patched.get(key), clean[key]))
        for tag, record in (("patched", patched.get(key)), ("clean", clean[key])):
            if record and record.get("ref_ok") is False:
                failures.append((f"{tag} tree violates the reference statement of C03", key, record))
            if record and record.get("caller_untouched") is False:
                failures.append((f"{tag} tree altered the caller's game description", key))

    extras = outputs["patched"]["extras"]
    tolerance_only = skipped = 0
    for key, value in extras.items():
        family = key.split("/")[0]
        counts["new-path " + family] = counts.get("new-path " + family, 0) + 1
        if isinstance(value, bool):
            if not value:
                failures.append(("new-path check failed", key))
        elif family == "assigned-swapped":
            reference = clean[key]
            if any(value[s] != reference[s] for s in ("s1", "s2", "s3")) or not value["ref_ok"]:
                failures.append(("initial_state=k differs from the swapped game on the clean tree", key,
                                 value, reference))
        elif family == "solve-swapped":
            reference = clean[key]
            if "no_convergence" in value or "no_convergence" in reference:
                skipped += 1            # oscillation depends on the sweep order, nothing to compare
            elif ("error" in value) != ("error" in reference):
                failures.append(("initial_state=k: error/no error differs from the swapped game", key, value, reference))
            elif "error" in value:
                if value["error"] != reference["error"]:
                    failures.append(("initial_state=k: other error than the swapped game", key, value, reference))
            else:
                mine = unswap_solve(value["raw"][0], value["k"])
                theirs = reference["raw"][0]
                # strategies (0, 1) and iteration counts (4, 5) depend on the sweep order at exact ties;
                # the values are what must agree
                for position in (2, 3, 6, 7):
                    if not close(mine[position], theirs[position]):
                        failures.append(("initial_state=k: values differ from the swapped game", key, position,
                                         mine[position], theirs[position]))
                if mine != theirs:
                    tolerance_only += 1
        elif family == "driver-swapped":
            reference = clean[key]
            if "no_convergence" in value or "no_convergence" in reference:
                skipped += 1
            elif value["report"].count("Game solved") != reference["report"].count("Game solved") or \
                    value["report"].count("\n") != reference["report"].count("\n"):
                failures.append(("driver with initial_state=1 differs in shape from the swapped games", key))

    print("cases:", ", ".join(f"{name}={number}" for name, number in sorted(counts.items())))
    oscillating = sum(1 for record in clean.values() if "no_convergence" in record)
    print(f"solves given up after {LIMIT}s on the clean tree (its value iteration oscillates; "
          f"same verdict required from the patched tree): {oscillating}; new-path comparisons skipped: {skipped}")
    print(f"solve-swapped answers equal only up to the tolerance (different sweep order): {tolerance_only}")
    if failures:
        for failure in failures[:10]:
            print("DIFF:", *[str(part)[:600] for part in failure])
        print(f"FAIL ({len(failures)} differences)")
        return 1
    print("PASS")
    return 0


if __name__ == "__main__":
    sys.exit(main())
