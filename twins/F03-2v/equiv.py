#!/usr/bin/env python
"""Differential test for property C03 (conditioning removes every dead branch, and only dead branches).

usage: python equiv.py <clean_repo_dir> <patched_repo_dir>

Every tree is loaded in its own subprocess (module names collide).  Both subprocesses run the
SAME deterministic set of inputs and print one line per observation; the parent compares the
two outputs line by line.  Prints SAME / exits 0 when nothing differs, prints the first
difference / exits 1 otherwise.

Observations (all aimed at the quantifier of C03):
  A  ProbabilisticNode.prune_paths / PlayerOne.prune_paths for EVERY dead/alive mask over
     0..6 successors (adjacent, separated, first, last, all, none), with parallel edges,
     integer / unnormalised / zero probabilities and odd "zero" values (0, 0.0, -0.0, False, nan)
  B  remove_path (present / absent / duplicated / probability-one transitions)
  C  PlayerOne.prune_paths_reachability with arbitrary strategy lists
  D  Solver pipelines on random games of all three state kinds (cycles, parallel edges, several
     finals): real reachability and arbitrary hand-set reachability outcomes, state after
     prune_reachability, prune_paths, prune_states, prune_stochastich_game, total rewards
  E  StochasticGame.solve() in both pruning modes (results, exceptions, caller's lists untouched)
  F  malformed games: exception type + message
  G  conditionalrewards.run_games + save_results_to_file on shipped inputs, bytes of the report
Aliasing of the live transition lists (rebinding vs. in-place mutation) is observed too.
Solves that do not converge are cut deterministically after a fixed number of value-iteration
rounds (counted through the solver's own "iteration i" debug messages) - same cut in both trees.
"""
import copy
import itertools
import os
import random
import subprocess
import sys
import tempfile

ITER_LIMIT = 400


class IterLimit(Exception):
    pass


class LoggingStub:
    """Stands in for the `logging` module inside tad: counts value-iteration rounds."""

    def __init__(self):
        import logging as real
        self._real = real
        self.rounds = 0

    def debug(self, msg, *args, **kwargs):
        if isinstance(msg, str) and msg.startswith("iteration"):
            self.rounds += 1
            if self.rounds > ITER_LIMIT:
                raise IterLimit()

    def info(self, *args, **kwargs):
        pass

    warning = error = info

    def __getattr__(self, name):
        return getattr(self._real, name)


OUT = []


def emit(tag, *parts):
    OUT.append(tag + " | " + " | ".join(repr(p) for p in parts))


def guarded(stub, fn):
    stub.rounds = 0
    try:
        return ("ok", fn())
    except IterLimit:
        return ("iterlimit",)
    except RecursionError:
        return ("recursion",)
    except Exception as exc:  # noqa: BLE001 - the type and message are the observation
        return ("exc", type(exc).__name__, str(exc))


def dump_states(state_list):
    return [(s.idx, s.player, repr(s.next_states)) for s in state_list]


class Fake:
    def __init__(self, reach_probability):
        self.reach_probability = reach_probability


# --------------------------------------------------------------------------------- generators

ACTIONS = ["a", "b", "c", "d", "e", "f", "g"]


def random_probabilities(rng, k):
    mode = rng.randrange(6)
    if mode == 0:
        weights = [rng.randint(1, 5) for _ in range(k)]
        total = sum(weights)
        return [w / total for w in weights]
    if mode == 1:
        raw = [rng.random() + 0.01 for _ in range(k)]
        total = sum(raw)
        return [r / total for r in raw]
    if mode == 2:
        return [1 / k] * k
    if mode == 3 and k == 1:
        return [1]
    if mode == 4:
        base = [0.1, 0.2, 0.3, 0.25, 0.05, 0.07, 0.03]
        return base[:k - 1] + [1 - sum(base[:k - 1])]
    weights = [rng.randint(1, 9) for _ in range(k)]
    total = sum(weights)
    return [w / total for w in weights]


def random_game(rng, n, style):
    """A well-formed game; absorbing states (finals, sinks) carry reward 0 and a self loop."""
    import tad
    kinds = [tad.PLAYER_1, tad.PLAYER_2, tad.PROBABILISTIC]
    n_abs = rng.randint(1, max(1, min(3, n - 1)))
    absorbing = list(range(n - n_abs, n))
    n_final = rng.randint(1, n_abs)
    finals = rng.sample(absorbing, n_final)
    if style == "cyclic" and rng.random() < 0.3 and n - n_abs > 1:
        finals.append(rng.randrange(1, n - n_abs))      # a final state that is not absorbing
    players, transitions, rewards = [], [], []
    for i in range(n):
        if i in absorbing:
            kind = rng.choice(kinds)
            players.append(kind)
            rewards.append(0)
            transitions.append([(1, i)] if kind == tad.PROBABILISTIC else [("stay", i)])
            continue
        kind = rng.choice(kinds)
        players.append(kind)
        rewards.append(rng.choice([0, 0, 1, 2, 3, 5, 0.5, 2.25]))
        k = rng.randint(1, 5)
        if style == "dag":
            pool = list(range(i + 1, n))
        else:
            pool = list(range(n))
        targets = [rng.choice(pool) for _ in range(k)]          # parallel edges allowed
        if kind == tad.PROBABILISTIC:
            probs = random_probabilities(rng, k)
            transitions.append(list(zip(probs, targets)))
        else:
            if rng.random() < 0.15:
                acts = [rng.choice(ACTIONS[:2]) for _ in range(k)]  # repeated action names
            else:
                acts = ACTIONS[:k]
            transitions.append(list(zip(acts, targets)))
    rng.shuffle(finals)
    return dict(rewards=rewards, players=players, transition_list=transitions,
                final_states=finals)


def build_state_list(tad, game):
    sg = tad.StochasticGame(**copy.deepcopy(game))
    return sg.init_states()


# ----------------------------------------------------------------------------------- sections

DEAD_VALUES = [0, 0.0, -0.0, False]
LIVE_VALUES = [1, 1.0, 0.5, 1e-300, 0.9999996, 1e-7, float("nan"), True, -1e-12, float("inf")]


def section_a(tad, stub, rng):
    for kind in (tad.PROBABILISTIC, tad.PLAYER_1):
        for k in range(0, 7):
            for mask in itertools.product([0, 1], repeat=k):
                for rep in range(5 if k < 6 else 3):
                    n = k + 2
                    if rep == 0:
                        targets = list(range(1, k + 1))
                        dead_of = {t: bool(m) for t, m in zip(targets, mask)}
                    else:   # parallel edges: several transitions into the same state
                        targets = [rng.randint(0, n - 1) for _ in range(k)]
                        dead_of = {}
                        for t, m in zip(targets, mask):
                            dead_of.setdefault(t, bool(m))
                    fakes = []
                    for t in range(n):
                        if dead_of.get(t, rng.random() < 0.5):
                            fakes.append(Fake(rng.choice(DEAD_VALUES)))
                        else:
                            fakes.append(Fake(rng.choice(LIVE_VALUES)))
                    if kind == tad.PROBABILISTIC:
                        pmode = rng.randrange(4)
                        if pmode == 0:
                            labels = random_probabilities(rng, k) if k else []
                        elif pmode == 1:
                            labels = [rng.randint(0, 3) for _ in range(k)]   # ints, maybe 0
                        elif pmode == 2:
                            labels = [rng.choice([0.0, 0.25, 0.5, 2.0, 1e-320, 1e308])
                                      for _ in range(k)]
                        else:
                            labels = random_probabilities(rng, k) if k else []
                        node = tad.ProbabilisticNode(kind, 0, 1, list(zip(labels, targets)), n,
                                                     False)
                    else:
                        if rng.random() < 0.2:
                            labels = [rng.choice("ab") for _ in range(k)]
                        else:
                            labels = ACTIONS[:k]
                        node = tad.PlayerOne(kind, 0, 1, list(zip(labels, targets)), n, False)
                    alias = node.next_states
                    before = repr(alias)
                    res = guarded(stub, lambda: node.prune_paths(fakes))
                    emit("A", kind, k, mask, rep, before, res, repr(node.next_states),
                         alias is node.next_states, repr(alias),
                         [type(x).__name__ for t in node.next_states for x in t])
                    # pruning twice must be stable as well
                    res2 = guarded(stub, lambda: node.prune_paths(fakes))
                    emit("A2", res2, repr(node.next_states))


def section_b(tad, stub, rng):
    for case in range(400):
        k = rng.randint(0, 5)
        n = 6
        targets = [rng.randint(0, n - 1) for _ in range(k)]
        if case % 2 == 0:
            if rng.random() < 0.3 and k:
                probs = [1] + [0] * (k - 1)
                rng.shuffle(probs)
            else:
                probs = random_probabilities(rng, k) if k else []
            if rng.random() < 0.2 and k > 1:
                probs[1], targets[1] = probs[0], targets[0]          # duplicated transition
            node = tad.ProbabilisticNode(tad.PROBABILISTIC, 0, 1, list(zip(probs, targets)),
                                         n, False)
            absent = (0.123, 0)
        else:
            acts = [rng.choice(ACTIONS[:3]) for _ in range(k)]
            node = tad.PlayerOne(tad.PLAYER_1, 0, 1, list(zip(acts, targets)), n, False)
            absent = ("zz", 0)
        for step in range(3):
            if node.next_states and rng.random() < 0.8:
                victim = rng.choice(node.next_states)
            else:
                victim = absent
            alias = node.next_states
            res = guarded(stub, lambda: node.remove_path(victim))
            emit("B", case, step, victim, res, repr(node.next_states),
                 alias is node.next_states, repr(alias))


def section_c(tad, stub, rng):
    for case in range(400):
        k = rng.randint(0, 6)
        n = 7
        if rng.random() < 0.3:
            acts = [rng.choice(ACTIONS[:3]) for _ in range(k)]
        else:
            acts = ACTIONS[:k]
        targets = [rng.randint(0, n - 1) for _ in range(k)]
        node = tad.PlayerOne(tad.PLAYER_1, 0, 1, list(zip(acts, targets)), n, False)
        choice = rng.randrange(5)
        if choice == 0:
            best = []
        elif choice == 1:
            best = list(acts)
        elif choice == 2:
            best = [a for a in acts if rng.random() < 0.5]
        elif choice == 3:
            best = [rng.choice(ACTIONS) for _ in range(rng.randint(0, 4))]
        else:
            best = [a for a in reversed(acts) if rng.random() < 0.7] * 2
        alias = node.next_states
        res = guarded(stub, lambda: node.prune_paths_reachability(best))
        emit("C", case, acts, targets, best, res, repr(node.next_states),
             alias is node.next_states, repr(alias))


def stage(stub, tag, case, state_list, fn):
    aliases = [s.next_states for s in state_list]
    res = guarded(stub, fn)
    emit(tag, case, res, dump_states(state_list),
         [(a is s.next_states, repr(a)) for a, s in zip(aliases, state_list)])
    return res


def section_d(tad, stub, rng):
    outcome_values = [0, 0, 0.0, 1, 1.0, 0.5, 0.25, 0.9999996, 0.9999994, 1e-9, 3e-7]
    for case in range(700):
        n = rng.randint(2, 9)
        style = "dag" if case % 3 == 0 else "cyclic"
        game = random_game(rng, n, style)
        handset = case % 2 == 1
        res = guarded(stub, lambda: build_state_list(tad, game))
        if res[0] != "ok":
            emit("D-build", case, res)
            continue
        state_list = res[1]
        solver = tad.Solver(state_list=state_list, threshold=10 ** (-6))
        if handset:
            # arbitrary reachability outcome, not necessarily the one of this game
            for s in state_list:
                s.reach_probability = rng.choice(outcome_values)
                s.expected_reach_min_rewards = s.reach_probability
            if rng.random() < 0.7:
                state_list[0].reach_probability = rng.choice([1, 0.5, 0.25])
            res = guarded(stub, solver._get_reachability_strategies)
            emit("D-strat", case, res)
        else:
            prune_flag = rng.random() < 0.7
            res = guarded(stub, lambda: solver.solve_reachability(
                game["transition_list"], game["final_states"], prune_flag))
            emit("D-reach", case, res, [s.reach_probability for s in state_list])
        if res[0] != "ok":
            continue
        strategies = res[1] if handset else res[1][0]
        stage(stub, "D-prune_reachability", case, state_list,
              lambda: solver.prune_reachability(strategies))
        order = case % 4
        if order == 0:
            stage(stub, "D-prune_game", case, state_list, solver.prune_stochastich_game)
        elif order == 1:
            stage(stub, "D-prune_paths", case, state_list, solver.prune_paths)
            stage(stub, "D-prune_states", case, state_list, solver.prune_states)
        elif order == 2:
            stage(stub, "D-prune_states-only", case, state_list, solver.prune_states)
            stage(stub, "D-prune_paths-after", case, state_list, solver.prune_paths)
            stage(stub, "D-prune_states-again", case, state_list, solver.prune_states)
        else:
            stage(stub, "D-prune_game", case, state_list, solver.prune_stochastich_game)
            stage(stub, "D-prune_game-twice", case, state_list, solver.prune_stochastich_game)
        res = guarded(stub, solver.solve_total_rewards)
        emit("D-rewards", case, res,
             [(s.expected_rewards, s.expected_rewards_min_reach, s.expected_reach_min_rewards)
              for s in state_list])
        emit("D-caller", case, repr(game))


def section_e(tad, stub, rng):
    for case in range(600):
        n = rng.randint(2, 9)
        style = "dag" if case % 2 == 0 else "cyclic"
        game = random_game(rng, n, style)
        for prune in (True, False):
            g = copy.deepcopy(game)
            sg = tad.StochasticGame(prune_states=prune, **g)
            res = guarded(stub, sg.solve)
            emit("E", case, prune, res, repr(g) == repr(game), sg.count_transitions())


def section_f(tad, stub, rng):
    base = dict(
        rewards=[0, 1, 2, 0, 0],
        players=[tad.PLAYER_1, tad.PROBABILISTIC, tad.PLAYER_2, tad.PROBABILISTIC,
                 tad.PROBABILISTIC],
        transition_list=[[("a", 1), ("b", 2)], [(0.5, 3), (0.5, 4)], [("c", 3), ("d", 4)],
                         [(1, 3)], [(1, 4)]],
        final_states=[3])

    def mutated(**changes):
        g = copy.deepcopy(base)
        for key, value in changes.items():
            g[key] = value
        return g

    def with_transition(idx, value):
        g = copy.deepcopy(base)
        g["transition_list"][idx] = value
        return g

    cases = [
        base,
        mutated(rewards=[0, 1, 2, 0]),
        mutated(rewards=[0, 1, 2, 0, 0, 0]),
        mutated(rewards=[0, -1, 2, 0, 0]),
        mutated(rewards=[]),
        mutated(players=base["players"][:4]),
        mutated(players=base["players"] + [tad.PLAYER_1]),
        mutated(players=["Player 3"] + base["players"][1:]),
        mutated(players=[None] + base["players"][1:]),
        mutated(final_states=[]),
        mutated(final_states=[5]),
        mutated(final_states=[-1]),
        mutated(final_states=[3, 4]),
        mutated(final_states=[0]),
        mutated(final_states=[4, 4, 3]),
        mutated(transition_list=base["transition_list"][:4]),
        mutated(transition_list=base["transition_list"] + [[(1, 0)]]),
        with_transition(0, []),
        with_transition(4, []),
        with_transition(0, None),
        with_transition(0, (("a", 1),)),
        with_transition(0, [["a", 1]]),
        with_transition(0, [("a", 1, 2)]),
        with_transition(0, [("a",)]),
        with_transition(0, [(1, 1)]),
        with_transition(0, [(None, 1)]),
        with_transition(1, [("a", 3)]),
        with_transition(1, [(None, 3)]),
        with_transition(1, [(True, 3)]),
        with_transition(2, [(0.5, 3)]),
        with_transition(0, [("a", "1")]),
        with_transition(0, [("a", 1.0)]),
        with_transition(0, [("a", 5)]),
        with_transition(0, [("a", -1)]),
        with_transition(1, [(0.5, 5), (0.5, 4)]),
        with_transition(1, [(0.5, 3), (0.5, None)]),
        with_transition(0, [("a", 4), ("b", 4)]),            # initial state cannot reach
        with_transition(0, [("a", 0)]),
        with_transition(1, [(0.0, 3), (1.0, 4)]),
        with_transition(1, [(0, 3), (0, 4)]),
        with_transition(1, [(1.5, 3), (0.5, 4)]),
        with_transition(1, [(float("nan"), 3), (0.5, 4)]),
    ]
    # one-state games and an empty solver
    for kind, row in ((tad.PROBABILISTIC, [(1, 0)]), (tad.PLAYER_1, [("a", 0)]),
                      (tad.PLAYER_2, [("a", 0), ("b", 0)]), (tad.PROBABILISTIC, [(0.5, 0), (0.5, 0)])):
        for finals in ([0], [0, 0]):
            cases.append(dict(rewards=[0], players=[kind], transition_list=[row],
                              final_states=finals))
        for reach in (0, 1, 0.5):
            node = build_state_list(tad, cases[-1])[0]
            node.reach_probability = reach
            solver = tad.Solver(state_list=[node])
            stage(stub, "F-one-state", (kind, reach), [node], solver.prune_stochastich_game)
            stage(stub, "F-one-state-states", (kind, reach), [node], solver.prune_states)
    empty_solver = tad.Solver(state_list=[])
    stage(stub, "F-empty", 0, [], empty_solver.prune_stochastich_game)
    stage(stub, "F-empty", 1, [], empty_solver.prune_states)
    stage(stub, "F-empty", 2, [], empty_solver.prune_paths)
    for number, game in enumerate(cases):
        for prune in (True, False):
            g = copy.deepcopy(game)

            def run():
                sg = tad.StochasticGame(prune_states=prune, **g)
                return (sg.count_transitions(), sg.solve())
            emit("F", number, prune, guarded(stub, run))
    # random single-field corruptions of random games
    junk = [None, "x", 1.5, -1, 99, (), [], ("a",), ("a", 1, 2), [("a", 1)], (0.5, "1"),
            ("a", None), (None, None), (0.5, 99), ("a", 99), ("a", -1), (1, 1.0)]
    for case in range(300):
        game = random_game(rng, rng.randint(2, 7), "dag")
        i = rng.randrange(len(game["players"]))
        where = rng.randrange(5)
        if where == 0:
            game["transition_list"][i] = rng.choice(junk)
        elif where == 1:
            row = game["transition_list"][i]
            row[rng.randrange(len(row))] = rng.choice(junk)
        elif where == 2:
            row = game["transition_list"][i]
            row.insert(rng.randrange(len(row) + 1), rng.choice(junk))
        elif where == 3:
            game["rewards"][i] = rng.choice([-1, -0.5, 0, 3])
        else:
            game["final_states"] = rng.choice([[], [99], [-1], [i], [i, 99]])
        for prune in (True, False):
            g = copy.deepcopy(game)

            def run():
                sg = tad.StochasticGame(prune_states=prune, **g)
                return (sg.count_transitions(), sg.solve())
            emit("F-rand", case, prune, guarded(stub, run))


REPORT_INPUTS = [
    "paper_games.py", "example_games.py", "example_17_08.py", "manual_1_game_a.py",
    "manual_arrow_bottom.py", "robot_1_w1_l2_r6_rb10_lb5_tb10_lt0.py",
    "robot_1_w2_l1_r6_rb10_lb5_tb10_lt0.py", "robot_1_w2_l2_r6_rb10_lb5_tb10_lt0.py",
    "robot_999132423_w3_l3_r6_rb1_lb2_tb10_lt30.py",
]


def section_g(tree, stub):
    import conditionalrewards as cr
    import time as real_time
    cr.time = type("FrozenTime", (), {"time": staticmethod(lambda: 1000.0)})()
    work = tempfile.mkdtemp(prefix="f03_equiv_")
    os.makedirs(os.path.join(work, "outputs"))
    os.chdir(work)
    deadline = real_time.time() + 25
    for name in REPORT_INPUTS:
        path = os.path.join(tree, "inputs", name)
        if not os.path.exists(path) or real_time.time() > deadline:
            emit("G-skip", name, os.path.exists(path))
            continue
        stub.rounds = -10 ** 9          # shipped inputs converge; no cut here

        def run():
            games = cr.read_dict_from_file(path)
            results = cr.run_games(games)
            cr.save_results_to_file(results, path)
            with open(os.path.join(work, "outputs", name.split(".")[0] + ".txt"), "rb") as fh:
                return fh.read()
        try:
            res = ("ok", run())
        except Exception as exc:  # noqa: BLE001
            res = ("exc", type(exc).__name__, str(exc))
        emit("G", name, res)


def child(tree):
    import signal
    signal.alarm(115)
    tree = os.path.abspath(tree)
    sys.path.insert(0, tree)
    os.chdir(tree)
    import tad
    assert os.path.abspath(tad.__file__).startswith(tree), tad.__file__
    stub = LoggingStub()
    tad.logging = stub
    section_a(tad, stub, random.Random(101))
    section_b(tad, stub, random.Random(102))
    section_c(tad, stub, random.Random(103))
    section_d(tad, stub, random.Random(104))
    section_e(tad, stub, random.Random(105))
    section_f(tad, stub, random.Random(106))
    section_g(tree, stub)
    sys.stdout.write("\n".join(OUT) + "\n")
    sys.stdout.flush()


def main():
    if len(sys.argv) == 3 and sys.argv[1] == "--child":
        child(sys.argv[2])
        return 0
    if len(sys.argv) != 3:
        print(__doc__)
        return 2
    env = dict(os.environ, PYTHONDONTWRITEBYTECODE="1", PYTHONHASHSEED="0")
    procs = [subprocess.Popen([sys.executable, os.path.abspath(__file__), "--child", tree],
                              stdout=subprocess.PIPE, stderr=subprocess.PIPE, env=env)
             for tree in sys.argv[1:3]]
    results = []
    for proc in procs:
        try:
            out, err = proc.communicate(timeout=118)
        except subprocess.TimeoutExpired:
            proc.kill()
            out, err = proc.communicate()
            print("DIFFERENT (or harness failure): a child timed out")
            return 1
        results.append((proc.returncode, out.decode("utf-8", "replace").splitlines(),
                        err.decode("utf-8", "replace")))
    (rc_a, out_a, err_a), (rc_b, out_b, err_b) = results
    if rc_a != 0 or rc_b != 0:
        print("DIFFERENT (or harness failure): return codes", rc_a, rc_b)
        print("clean stderr tail  :", err_a[-1500:])
        print("patched stderr tail:", err_b[-1500:])
        return 1
    for number, (line_a, line_b) in enumerate(zip(out_a, out_b)):
        if line_a != line_b:
            print(f"DIFFERENT at observation {number}")
            print("clean  :", line_a[:3000])
            print("patched:", line_b[:3000])
            return 1
    if len(out_a) != len(out_b):
        print("DIFFERENT number of observations:", len(out_a), len(out_b))
        return 1
    if len(out_a) < 1000:
        print("DIFFERENT (or harness failure): too few observations", len(out_a))
        return 1
    print(f"{len(out_a)} observations compared")
    print("SAME")
    return 0


if __name__ == "__main__":
    sys.exit(main())
