"""Differential test for property C04 (reachability strategies = value-optimal actions).

usage: python equiv.py <clean_repo_dir> <patched_repo_dir>

The same deterministic battery of inputs is run against both trees, each tree in
its own subprocess (module names collide).  Every case yields one line
`<label>\t<repr of result | exception type + message>`; the two transcripts are
compared line by line.  Prints SAME / exit 0 when nothing differs, otherwise the
first difference / exit 1.

Non-terminating solves are cut off deterministically: tad's value iterations call
`logging.debug("iteration i")` once per sweep, the driver swaps tad's `logging`
for a shim that counts these calls and raises after a fixed number of sweeps.
Both trees cut off at the same sweep, so "both cut off" compares as equal.
"""
import os
import subprocess
import sys

DRIVER = r'''
import sys, os, random, copy, math, logging, fractions, decimal
tree = sys.argv[1]
os.chdir(tree)
sys.path.insert(0, tree)
logging.disable(logging.CRITICAL)
import tad
import conditionalrewards
from tad import (StochasticGame, Solver, PlayerOne, PlayerTwo, ProbabilisticNode,
                 PLAYER_1, PLAYER_2, PROBABILISTIC)

MAX_SWEEPS = 250


class CutOff(Exception):
    pass


class LogShim:
    """Stands in for the logging module inside tad: counts sweeps, deterministic cap."""
    DEBUG = logging.DEBUG
    INFO = logging.INFO
    getLogger = staticmethod(logging.getLogger)
    sweeps = 0

    @classmethod
    def debug(cls, msg, *a, **k):
        if msg.startswith("iteration "):
            cls.sweeps += 1
            if cls.sweeps > MAX_SWEEPS:
                raise CutOff("cut off after %d sweeps" % MAX_SWEEPS)

    @staticmethod
    def info(*a, **k):
        pass

    warning = error = info


tad.logging = LogShim
out = []


def emit(label, thunk):
    LogShim.sweeps = 0
    try:
        res = repr(thunk())
    except RecursionError:
        res = "EXC RecursionError"
    except BaseException as e:  # noqa
        if isinstance(e, (KeyboardInterrupt, SystemExit)):
            raise
        res = "EXC %s: %s" % (type(e).__name__, e)
    out.append("%s\t%s" % (label, res))


# --------------------------------------------------------------------------- #
# 1. random games through StochasticGame.solve() and run_games(), both prunings

ACTIONS = ["a", "b", "c", "d", "", " ", "alfa", "beta"]


def split_one(rng, k):
    """k probabilities that add up to 1, built from different denominators so that
    equal rationals are reached through different floating point sums."""
    style = rng.randrange(6)
    if k == 1:
        return [rng.choice([1, 1.0, True])]
    if style == 0:
        den = rng.choice([2, 3, 4, 5, 6, 7, 8, 10, 12, 20])
        cuts = sorted(rng.randrange(0, den + 1) for _ in range(k - 1))
        parts = [b - a for a, b in zip([0] + cuts, cuts + [den])]
        return [p / den for p in parts]
    if style == 1:
        return [1 / k] * k
    if style == 2:
        base = [0.1, 0.2, 0.3, 0.4, 0.15, 0.25, 0.35, 0.05]
        xs = [rng.choice(base) for _ in range(k - 1)]
        return xs + [1 - sum(xs)]
    if style == 3:
        xs = [rng.random() for _ in range(k)]
        s = sum(xs)
        return [x / s for x in xs]
    if style == 4:
        # a zero-probability branch
        rest = split_one(rng, k - 1) if k > 1 else []
        rest.insert(rng.randrange(k), 0)
        return rest
    # tiny perturbations around the solver's tolerance
    eps = rng.choice([1e-9, 4e-7, 5e-7, 6e-7, 1e-6, 2e-6, 1e-5])
    xs = [1 / k] * k
    xs[0] += eps
    xs[-1] -= eps
    return xs


def random_game(rng, n=None, mirror=False):
    n = n or rng.randrange(2, 10)
    kinds = rng.choice([
        [PLAYER_1, PLAYER_2, PROBABILISTIC],
        [PLAYER_1, PLAYER_2, PROBABILISTIC, PROBABILISTIC],
        [PLAYER_1, PLAYER_1, PLAYER_2, PLAYER_2, PROBABILISTIC],
        [PLAYER_2, PROBABILISTIC],
        [PLAYER_1, PROBABILISTIC],
    ])
    players = [rng.choice(kinds) for _ in range(n)]
    n_final = rng.choice([1, 1, 2, 2, 3])
    finals = rng.sample(range(n), min(n_final, n))
    if rng.random() < 0.15:
        finals = finals + [finals[0]]          # a repeated final state
    absorbing = set(finals) if rng.random() < 0.8 else set()
    for s in range(n):
        if rng.random() < 0.12:
            absorbing.add(s)                    # sinks with reachability 0
    forward = rng.random() < 0.4                # mostly acyclic games converge fast
    tl = []
    for s in range(n):
        if s in absorbing:
            k = 1
            targets = [s]
        else:
            k = rng.choice([1, 2, 2, 3, 3, 4, 5])
            if forward and s < n - 1:
                targets = [rng.randrange(s + 1, n) for _ in range(k)]
            else:
                targets = [rng.randrange(n) for _ in range(k)]
            if rng.random() < 0.25 and k > 1:
                targets[1] = targets[0]        # parallel edges
        if players[s] == PROBABILISTIC:
            tl.append(list(zip(split_one(rng, k), targets)))
        else:
            if rng.random() < 0.2:
                acts = [rng.choice(ACTIONS) for _ in range(k)]   # duplicate labels
            else:
                acts = rng.sample(ACTIONS, k)
            tl.append(list(zip(acts, targets)))
    rewards = [rng.choice([0, 0, 0, 1, 2, 3, 0.5, 5 / 3, 10]) for _ in range(n)]
    if rng.random() < 0.85:
        rewards = [0 if s in absorbing else r for s, r in enumerate(rewards)]
    return {"rewards": rewards, "players": players,
            "transition_list": tl, "final_states": finals}


def tie_game(rng):
    """State 0 (P1 or P2) chooses among probabilistic gadgets whose exact values are
    equal rationals reached through different float sums, plus clearly different ones."""
    target = rng.choice([(3, 10), (1, 2), (7, 10), (1, 3), (2, 3), (1, 5), (0, 1), (1, 1), (9, 10)])
    num, den = target
    k = rng.randrange(2, 6)
    players = [rng.choice([PLAYER_1, PLAYER_2])]
    tl = [[]]
    GOAL, SINK = 1, 2
    players += [PROBABILISTIC, PROBABILISTIC]
    tl += [[(1, GOAL)], [(1, SINK)]]
    acts = rng.sample(ACTIONS, k) if rng.random() < 0.8 else [rng.choice(ACTIONS) for _ in range(k)]
    for j in range(k):
        mode = rng.randrange(5)
        idx = len(players)
        if mode == 0:
            # num/den as a single probability
            trans = [(num / den, GOAL), (1 - num / den, SINK)]
        elif mode == 1:
            # num/den as a sum of num edges of 1/den
            trans = [(1 / den, GOAL)] * num + [(1 / den, SINK)] * (den - num)
        elif mode == 2:
            # two-level gadget: half of (2*num/den capped) ...
            a = rng.choice([0.1, 0.2, 0.25, 0.5])
            p = num / den
            if a <= p:
                trans = [(a, GOAL), (p - a, GOAL), (1 - p, SINK)]
            else:
                trans = [(p, GOAL), (1 - p, SINK)]
        elif mode == 3:
            # clearly different value
            q = rng.choice([0.05, 0.35, 0.55, 0.85, 0.999, 0.001])
            trans = [(q, GOAL), (1 - q, SINK)]
        else:
            # differs by about the tolerance
            d = rng.choice([1e-8, 4e-7, 5e-7, 6e-7, 1e-6, 3e-6])
            p = min(max(num / den + rng.choice([-d, d]), 0), 1)
            trans = [(p, GOAL), (1 - p, SINK)]
        trans = [t for t in trans if True]
        if not trans:
            trans = [(1, SINK)]
        players.append(PROBABILISTIC)
        tl.append(trans)
        tl[0].append((acts[j], idx))
    if rng.random() < 0.3:
        tl[0].append((rng.choice(ACTIONS), GOAL))
    if rng.random() < 0.3:
        tl[0].append((rng.choice(ACTIONS), SINK))
    if rng.random() < 0.3:
        # an intermediate P1/P2 layer in front of one gadget
        idx = len(players)
        players.append(rng.choice([PLAYER_1, PLAYER_2]))
        tl.append([("x", 3), ("y", len(players) - 2)])
        tl[0].append(("via", idx))
    n = len(players)
    rewards = [rng.choice([0, 1, 2]) for _ in range(n)]
    rewards[GOAL] = 0
    rewards[SINK] = 0
    return {"rewards": rewards, "players": players,
            "transition_list": tl, "final_states": [GOAL]}


def solve_both(label, game, with_run_games=True):
    for prune in (True, False):
        g = copy.deepcopy(game)
        g["prune_states"] = prune
        emit("%s prune=%s solve" % (label, prune), lambda: StochasticGame(**g).solve())

        def reach_only():
            # the reachability half on its own: still observed when the reward half is cut off
            sg = StochasticGame(**copy.deepcopy(g))
            sg.check_game()
            sl = sg.init_states()
            solver = Solver(threshold=10 ** (-6), state_list=sl)
            res = solver.solve_reachability(sg.transition_list, sg.final_states, prune)
            return res, [s.reach_probability for s in sl]
        emit("%s prune=%s reach" % (label, prune), reach_only)
    if not with_run_games:
        return

    def run():
        res = conditionalrewards.run_games({label: copy.deepcopy(game)})
        for v in res.values():
            v.pop("total_time")
        return res
    emit("%s run_games" % label, run)


rng = random.Random(20260404)
for i in range(700):
    solve_both("rand%d" % i, random_game(rng), with_run_games=(i % 3 == 0))
for i in range(500):
    solve_both("tie%d" % i, tie_game(rng), with_run_games=(i % 3 == 0))

# the shipped examples
for fname in ("example_games.py", "paper_games.py", "example_17_08.py", "manual_1_game_a.py"):
    path = os.path.join(tree, "inputs", fname)
    if os.path.exists(path):
        try:
            games = conditionalrewards.read_dict_from_file(path)
        except Exception as e:
            out.append("%s\tEXC %r" % (fname, e))
            continue
        for name, game in games.items():
            solve_both("%s:%s" % (fname, name), game)

# --------------------------------------------------------------------------- #
# 2. malformed games: exception type and message

base = {"rewards": [0, 0, 0], "players": [PLAYER_1, PLAYER_2, PROBABILISTIC],
        "transition_list": [[("a", 1), ("b", 2)], [("a", 2), ("b", 0)], [(1, 2)]],
        "final_states": [2]}


def mutated(**kw):
    g = copy.deepcopy(base)
    g.update(kw)
    return g


MALFORMED = {
    "no_finals": mutated(final_states=[]),
    "final_oob": mutated(final_states=[3]),
    "final_neg": mutated(final_states=[-1]),
    "short_tl": mutated(transition_list=[[("a", 1)], [("a", 2)]]),
    "short_rewards": mutated(rewards=[0, 0]),
    "neg_reward": mutated(rewards=[0, -1, 0]),
    "bad_player": mutated(players=[PLAYER_1, "Player 3", PROBABILISTIC]),
    "empty_trans": mutated(transition_list=[[("a", 1)], [], [(1, 2)]]),
    "tuple_trans": mutated(transition_list=[(("a", 1),), [("a", 2)], [(1, 2)]]),
    "list_edge": mutated(transition_list=[[["a", 1]], [("a", 2)], [(1, 2)]]),
    "triple_edge": mutated(transition_list=[[("a", 1, 2)], [("a", 2)], [(1, 2)]]),
    "int_action": mutated(transition_list=[[(1, 1)], [("a", 2)], [(1, 2)]]),
    "str_prob": mutated(transition_list=[[("a", 1)], [("a", 2)], [("1", 2)]]),
    "float_target": mutated(transition_list=[[("a", 1.0)], [("a", 2)], [(1, 2)]]),
    "target_oob": mutated(transition_list=[[("a", 3)], [("a", 2)], [(1, 2)]]),
    "target_neg": mutated(transition_list=[[("a", -1)], [("a", 2)], [(1, 2)]]),
    "unreachable_start": mutated(transition_list=[[("a", 0)], [("a", 2)], [(1, 2)]]),
    "prob_over_one": mutated(transition_list=[[("a", 1), ("b", 2)], [("a", 2), ("b", 0)], [(1.5, 2)]],
                             final_states=[1]),
    "neg_prob": mutated(players=[PLAYER_1, PROBABILISTIC, PROBABILISTIC],
                        transition_list=[[("a", 1), ("b", 2)], [(-0.5, 2), (1.5, 1)], [(1, 2)]]),
    "nan_prob": mutated(players=[PLAYER_2, PROBABILISTIC, PROBABILISTIC],
                        transition_list=[[("a", 1), ("b", 2)], [(float("nan"), 2), (0.5, 1)], [(1, 2)]]),
    "inf_prob": mutated(players=[PLAYER_1, PROBABILISTIC, PROBABILISTIC],
                        transition_list=[[("a", 1), ("b", 2)], [(float("inf"), 2), (0.5, 0)], [(1, 2)]]),
    "bool_prob": mutated(transition_list=[[("a", 1), ("b", 2)], [("a", 2), ("b", 0)], [(True, 2)]]),
    "none_rewards": mutated(rewards=None),
    "none_finals": mutated(final_states=None),
    "str_finals": mutated(final_states="2"),
    "players_short": mutated(players=[PLAYER_1, PLAYER_2]),
}
for name, g in MALFORMED.items():
    solve_both("bad:" + name, g)

# --------------------------------------------------------------------------- #
# 3. the two strategy methods called directly on hand-made value vectors


class V:
    """a stand-in successor that only has a reach probability"""
    def __init__(self, p):
        self.reach_probability = p


SPECIAL = [0, 1, 0.0, 1.0, -0.0, True, False, 0.5, 0.1 + 0.2, 0.3, 0.1 * 3, 1 / 3, 2 / 6,
           1 - 2 / 3, 0.7, 0.1 * 7, 1 - 0.3, 0.9999995, 0.9999994, 0.99999951, 1 - 1e-7,
           1 - 5e-7, 5e-7, 4.9e-7, 5.1e-7, 1.5e-6, 2.5e-6, 3.5e-6, 0.0000025, 0.0000035,
           1e-6, 1e-7, 1e-12, -1e-7, -1e-6, -0.5, -1, 1.0000001, 1.000001, 1.5, 2, 7,
           0.1234565, 0.1234575, 0.12345650000001, 0.5000005, 0.4999995, 1e300, -1e300,
           float("nan"), float("inf"), float("-inf"), 10 ** 30, -10 ** 30]
FLOORS = [6, 6, 6, 6, 0, 1, 2, 5, 7, 12, 20, -1, -2, None, 400]


def direct_case(rng, label):
    k = rng.choice([0, 1, 1, 2, 2, 3, 3, 4, 5, 8])
    nvals = rng.randrange(1, 7)
    style = rng.randrange(4)
    if style == 0:
        vals = [rng.choice(SPECIAL) for _ in range(nvals)]
    elif style == 1:
        centre = rng.choice([0, 1, 0.3, 0.5, 0.25, 2 / 3])
        vals = [centre + rng.choice([0, 0, 1e-9, -1e-9, 4e-7, -4e-7, 5e-7, -5e-7, 6e-7, 1e-6, -1e-6, 1e-3])
                for _ in range(nvals)]
    elif style == 2:
        vals = [rng.choice([0, 0.0, False, -0.0])] * nvals          # all-zero successors
    else:
        vals = [rng.random() for _ in range(nvals)]
    state_list = [V(v) for v in vals]
    if rng.random() < 0.25:
        acts = [rng.choice(ACTIONS) for _ in range(k)]
    else:
        acts = (ACTIONS * 2)[:k]
    ns = [(a, rng.randrange(nvals)) for a in acts]
    floor = rng.choice(FLOORS)
    for cls, meth in ((PlayerOne, "get_best_strategies_reachability"),
                      (PlayerTwo, "get_worst_strategies_reachability")):
        def call(cls=cls, meth=meth):
            player = PLAYER_1 if cls is PlayerOne else PLAYER_2
            node = cls(player=player, idx=0, reward=1, next_states=list(ns),
                       num_states=nvals, is_final_node=False)
            before = (list(node.next_states), [s.reach_probability for s in state_list])
            res = getattr(node, meth)(state_list, floor)
            res2 = getattr(node, meth)(state_list, floor)      # repeatable, no hidden state
            after = (list(node.next_states), [s.reach_probability for s in state_list])
            return (res, res2, res is res2, type(res).__name__,
                    repr(before) == repr(after))
        emit("%s %s vals=%r ns=%r floor=%r" % (label, meth, vals, ns, floor), call)


rng = random.Random(44)
for i in range(2500):
    direct_case(rng, "direct%d" % i)


def node_of(cls, ns, n=4):
    player = PLAYER_1 if cls is PlayerOne else PLAYER_2
    return cls(player=player, idx=0, reward=0, next_states=ns, num_states=n, is_final_node=False)


for cls, meth in ((PlayerOne, "get_best_strategies_reachability"),
                  (PlayerTwo, "get_worst_strategies_reachability")):
    tag = "odd %s " % meth
    sl = [V(0.25), V(0.5), V(0.5), V(0)]
    emit(tag + "empty", lambda: getattr(node_of(cls, []), meth)(sl, 6))
    emit(tag + "empty state list", lambda: getattr(node_of(cls, [("a", 1)]), meth)([], 6))
    emit(tag + "short state list", lambda: getattr(node_of(cls, [("a", 0), ("b", 3)]), meth)(sl[:2], 6))
    emit(tag + "floor str", lambda: getattr(node_of(cls, [("a", 0), ("b", 3)]), meth)(sl, "6"))
    emit(tag + "floor float", lambda: getattr(node_of(cls, [("a", 0), ("b", 3)]), meth)(sl, 6.0))
    emit(tag + "floor bool", lambda: getattr(node_of(cls, [("a", 0), ("b", 1)]), meth)(sl, True))
    emit(tag + "no attribute", lambda: getattr(node_of(cls, [("a", 0), ("b", 1)]), meth)([V(0.5), object()], 6))
    emit(tag + "none value", lambda: getattr(node_of(cls, [("a", 0), ("b", 1)]), meth)([V(0.5), V(None)], 6))
    emit(tag + "str value", lambda: getattr(node_of(cls, [("a", 0), ("b", 1)]), meth)([V(0.5), V("1")], 6))
    emit(tag + "fraction", lambda: getattr(node_of(cls, [("a", 0), ("b", 1), ("c", 2)]), meth)(
        [V(fractions.Fraction(1, 3)), V(1 / 3), V(fractions.Fraction(333333, 1000000))], 6))
    emit(tag + "decimal", lambda: getattr(node_of(cls, [("a", 0), ("b", 1), ("c", 2)]), meth)(
        [V(decimal.Decimal("0.5")), V(0.5), V(decimal.Decimal("0.5000004"))], 6))

    def mutated_triple():
        node = node_of(cls, [("a", 0), ("b", 1)])
        node.next_states.append(("c", 2, 3))
        return getattr(node, meth)(sl, 6)
    emit(tag + "triple after init", mutated_triple)

    def mutated_single():
        node = node_of(cls, [("a", 0), ("b", 1)])
        node.next_states.insert(1, ("c",))
        return getattr(node, meth)(sl, 6)
    emit(tag + "single after init", mutated_single)

    def mutated_str_edge():
        node = node_of(cls, [("a", 0), ("b", 1)])
        node.next_states.append("c1")
        return getattr(node, meth)(sl, 6)
    emit(tag + "two-char string edge", mutated_str_edge)

    def neg_index():
        node = node_of(cls, [("a", 0), ("b", 1)])
        node.next_states.append(("c", -1))
        return getattr(node, meth)(sl, 6)
    emit(tag + "negative index after init", neg_index)

    def tuple_state_list():
        return getattr(node_of(cls, [("a", 0), ("b", 1), ("c", 2)]), meth)(tuple(sl), 6)
    emit(tag + "tuple state list", tuple_state_list)

    def dict_state_list():
        return getattr(node_of(cls, [("a", 0), ("b", 1), ("c", 2)]), meth)(dict(enumerate(sl)), 6)
    emit(tag + "dict state list", dict_state_list)

    def unhashable_action():
        node = node_of(cls, [("a", 0), ("b", 1)])
        node.next_states.append((["c"], 2))
        return getattr(node, meth)(sl, 6)
    emit(tag + "unhashable action after init", unhashable_action)

# --------------------------------------------------------------------------- #
# 4. rounding precision derived from the threshold, and the solver entry points


def states_of(game):
    return StochasticGame(**copy.deepcopy(game)).init_states()


THRESHOLDS = [10 ** (-6), 1e-6, 1e-3, 1e-1, 0.5, 0.05, 1e-9, 1e-12, 2e-6, 9.99e-7, 1, 10, 1000,
              10 ** 3, 0.001, 0.0001, 1e-5, 1e-7, 1e-8, 0, -1, float("inf"), float("nan"), "x", None]
rng = random.Random(7)
sample_games = [random_game(rng) for _ in range(12)] + [tie_game(rng) for _ in range(12)]
for t in THRESHOLDS:
    emit("floor threshold=%r" % (t,), lambda: Solver([], threshold=t).floor)
    if not isinstance(t, (int, float)) or not (0 < t < 1):
        continue
    for gi, g in enumerate(sample_games):
        def reach():
            sl = states_of(g)
            solver = Solver(sl, threshold=t)
            res = solver.solve_reachability(g["transition_list"], g["final_states"], True)
            return res, solver._get_reachability_strategies(), [s.reach_probability for s in sl]
        emit("solver threshold=%r game=%d" % (t, gi), reach)

# hand-made state lists whose idx differs from the position
for cls_order in range(6):
    def shuffled():
        sl = states_of(base)
        r = random.Random(cls_order)
        r.shuffle(sl)
        for s, v in zip(sl, (0.2, 0.7, 0.7000001)):
            s.reach_probability = v
        return Solver(sl)._get_reachability_strategies()
    emit("shuffled state list %d" % cls_order, shuffled)


def dup_idx():
    sl = states_of(base)
    sl[1].idx = 0
    return Solver(sl)._get_reachability_strategies()
emit("duplicate idx", dup_idx)


def oob_idx():
    sl = states_of(base)
    sl[1].idx = 7
    return Solver(sl)._get_reachability_strategies()
emit("idx out of range", oob_idx)
emit("empty solver", lambda: Solver([])._get_reachability_strategies())

# --------------------------------------------------------------------------- #
# 5. report file written by the command line, byte for byte
import tempfile, io
tmp = tempfile.mkdtemp()
os.makedirs(os.path.join(tmp, "outputs"))
os.chdir(tmp)
rng = random.Random(99)
games = {}
for i in range(25):
    games["g%d" % i] = random_game(rng) if i % 2 else tie_game(rng)


def report():
    res = conditionalrewards.run_games(copy.deepcopy(games))
    for v in res.values():
        v["total_time"] = 0
    conditionalrewards.save_results_to_file(res, "some/dir/report.v1.py")
    with open(os.path.join(tmp, "outputs", "report.txt"), "rb") as fh:
        return fh.read()
emit("report file", report)
os.chdir(tree)

sys.stdout.write("\n".join(out) + "\n")
'''


def run(tree):
    tree = os.path.abspath(tree)
    env = dict(os.environ, PYTHONDONTWRITEBYTECODE="1", PYTHONHASHSEED="0")
    proc = subprocess.run([sys.executable, "-c", DRIVER, tree], capture_output=True,
                          text=True, env=env, timeout=900)
    if proc.returncode != 0:
        print("driver failed for", tree)
        print(proc.stderr[-3000:])
        sys.exit(2)
    return proc.stdout.split("\n")


def main():
    if len(sys.argv) != 3:
        print(__doc__)
        sys.exit(2)
    from concurrent.futures import ThreadPoolExecutor
    with ThreadPoolExecutor(2) as pool:
        a, b = pool.map(run, sys.argv[1:3])
    cut = sum(1 for line in a if "EXC CutOff" in line)
    for n, (x, y) in enumerate(zip(a, b)):
        if x != y:
            print("DIFFERENCE at case %d" % n)
            print("clean  :", x[:2000])
            print("patched:", y[:2000])
            sys.exit(1)
    if len(a) != len(b):
        print("DIFFERENCE: %d vs %d cases" % (len(a), len(b)))
        sys.exit(1)
    print("%d cases compared, %d of them cut off on both sides" % (len(a) - 1, cut))
    print("SAME")
    sys.exit(0)


if __name__ == "__main__":
    main()
