#!/usr/bin/env python
"""
Equivalence test for property C05 (final strategies are reward-optimal among
reachability-optimal actions).

usage: python equiv_test.py <path-to-patched-root> <path-to-clean-root>

Both trees are loaded in separate subprocesses (same module names).  Each
subprocess runs the same deterministic battery and prints one line per
observation; the parent compares the two transcripts line by line.  The
patched transcript is additionally scanned for direct violations of the
property (final strategy of a Player 1 state not included in its
reachability strategy, a probabilistic state with a strategy).

Prints PASS / exits 0 when no difference is found, FAIL / exits 1 otherwise.
"""
import os
import subprocess
import sys
import tempfile

N_RANDOM_GAMES = 700
WORKER_TIMEOUT = 1500


# --------------------------------------------------------------------------
# worker side
# --------------------------------------------------------------------------

def _gen_game(rng, case):
    """
        A random well-formed *stopping* game.
        Player states only move to higher indices, probabilistic states keep
        a forward probability, the last states are absorbing (probabilistic
        self loops with reward 0), so every play is absorbed with
        probability 1 and both value iterations converge.  Probabilistic
        back edges create cycles.  Some absorbing states are final, the
        others are dead.
    """
    shape = case % 7
    n_absorbing = rng.randint(2, 4)
    n_inner = rng.randint(1, 10) if shape != 6 else rng.randint(10, 18)
    n = n_inner + n_absorbing
    acyclic = shape in (0, 1)
    tie_heavy = shape in (1, 2, 3)
    players, transitions, rewards = [], [], []
    names = ["a", "b", "c", "d", "e"]
    for idx in range(n_inner):
        if idx == 0 and shape == 4:
            player = "Player 1"
        elif idx == 0 and shape == 5:
            player = "Player 2"
        else:
            player = rng.choice(["Player 1", "Player 2", "Probabilistic",
                                 "Player 1", "Player 2"])
        players.append(player)
        if tie_heavy:
            rewards.append(rng.choice([0, 0, 1, 1, 2]))
        else:
            rewards.append(rng.choice([0, 1, 2, 5 / 3, 0.1, 7, rng.random() * 3]))
        forward = list(range(idx + 1, n))
        if player == "Probabilistic":
            k = rng.randint(1, 3)
            targets = [rng.choice(forward)]
            for _ in range(k - 1):
                if acyclic:
                    targets.append(rng.choice(forward))
                else:
                    targets.append(rng.randrange(0, n))
            if tie_heavy:
                weights = {1: [1], 2: [0.5, 0.5], 3: [0.5, 0.25, 0.25]}[k]
                if k == 1 and rng.random() < 0.5:
                    weights = [1.0]
            else:
                raw = [0.2 + rng.random() for _ in range(k)]
                # the forward edge keeps at least 1/3 of the mass
                raw[0] = max(raw)
                total = sum(raw)
                weights = [r / total for r in raw]
            transitions.append([(w, t) for w, t in zip(weights, targets)])
        else:
            k = rng.randint(1, min(4, len(names)))
            acts = names[:k]
            if rng.random() < 0.3:
                rng.shuffle(acts)
            transitions.append([(a, rng.choice(forward)) for a in acts])
    for idx in range(n_inner, n):
        players.append("Probabilistic")
        rewards.append(0)
        transitions.append([(rng.choice([1, 1.0]), idx)])
    absorbing = list(range(n_inner, n))
    if rng.random() < 0.5:
        n_final = len(absorbing) - 1          # a single dead sink
    elif rng.random() < 0.8:
        n_final = rng.randint(1, len(absorbing) - 1)
    else:
        n_final = len(absorbing)              # no dead sink at all
    final_states = rng.sample(absorbing, n_final)
    if rng.random() < 0.5:
        final_states.sort()
    return {"rewards": rewards, "players": players,
            "transition_list": transitions, "final_states": final_states}


def _boundary_games():
    P1, P2, PR = "Player 1", "Player 2", "Probabilistic"
    games = {}
    # smallest games
    games["single_final"] = dict(rewards=[0], players=[PR], transition_list=[[(1, 0)]], final_states=[0])
    games["p1_to_final"] = dict(rewards=[3, 0], players=[P1, PR],
                                transition_list=[[("go", 1)], [(1, 1)]], final_states=[1])
    games["initial_dead"] = dict(rewards=[3, 0, 0], players=[P1, PR, PR],
                                 transition_list=[[("go", 1)], [(1, 1)], [(1, 2)]], final_states=[2])
    # best reward action is not reachability optimal
    games["greedy_trap"] = dict(
        rewards=[0, 100, 1, 0, 0], players=[P1, PR, PR, PR, PR],
        transition_list=[[("rich", 1), ("safe", 2)], [(0.5, 3), (0.5, 4)], [(1, 3)], [(1, 3)], [(1, 4)]],
        final_states=[3])
    # same, inside a cycle
    games["greedy_trap_cycle"] = dict(
        rewards=[0, 100, 1, 0, 0, 2], players=[P1, PR, PR, PR, PR, PR],
        transition_list=[[("rich", 1), ("safe", 2), ("loop", 5)], [(0.5, 3), (0.5, 4)], [(1, 3)],
                         [(1, 3)], [(1, 4)], [(0.5, 0), (0.5, 3)]],
        final_states=[3])
    # player 2 choosing between different rewards, all successors reach with 1
    games["p2_rewards"] = dict(
        rewards=[0, 5, 2, 2, 0], players=[P2, PR, PR, PR, PR],
        transition_list=[[("x", 1), ("y", 2), ("z", 3)], [(1, 4)], [(1, 4)], [(1.0, 4)], [(1, 4)]],
        final_states=[4])
    # every successor reward zero: every permitted action listed
    games["all_zero"] = dict(
        rewards=[0, 0, 0, 0], players=[P1, P2, PR, PR],
        transition_list=[[("a", 1), ("b", 2), ("c", 3)], [("u", 2), ("v", 3)], [(1, 3)], [(1, 3)]],
        final_states=[3])
    # player 1 state with only dead successors (emptied by pruning), not initial
    games["dead_p1"] = dict(
        rewards=[1, 2, 4, 0, 0], players=[PR, P1, P2, PR, PR],
        transition_list=[[(0.5, 1), (0.5, 2)], [("a", 4), ("b", 4)], [("u", 3), ("v", 1)], [(1, 3)], [(1, 4)]],
        final_states=[3])
    # several finals, ties between int and float rewards
    games["int_float_ties"] = dict(
        rewards=[0, 2, 2.0, 1, 0, 0], players=[P1, PR, PR, PR, PR, PR],
        transition_list=[[("a", 1), ("b", 2), ("c", 3)], [(1, 4)], [(1, 5)], [(0.5, 4), (0.5, 5)], [(1, 4)], [(1, 5)]],
        final_states=[5, 4])
    # rewards separated by less / more than the tolerance
    for k, eps in enumerate([1e-9, 4e-7, 5e-7, 6e-7, 1e-6, 2e-6, 1e-3]):
        games["eps_%d" % k] = dict(
            rewards=[0, 1, 1 + eps, 0], players=[P1, PR, PR, PR],
            transition_list=[[("a", 1), ("b", 2)], [(1, 3)], [(1, 3)], [(1, 3)]], final_states=[3])
        games["eps_p2_%d" % k] = dict(
            rewards=[0, 1 + eps, 1, 0], players=[P2, PR, PR, PR],
            transition_list=[[("a", 1), ("b", 2)], [(1, 3)], [(1, 3)], [(1, 3)]], final_states=[3])
        games["eps_reach_%d" % k] = dict(
            rewards=[0, 1, 9, 0, 0], players=[P1, PR, PR, PR, PR],
            transition_list=[[("a", 1), ("b", 2)], [(1, 3)], [(1 - eps, 3), (eps, 4)], [(1, 3)], [(1, 4)]],
            final_states=[3])
    # malformed games: the same error must come out
    games["no_final"] = dict(rewards=[0, 0], players=[P1, PR],
                             transition_list=[[("go", 1)], [(1, 1)]], final_states=[])
    games["missing_transitions"] = dict(rewards=[0, 0], players=[P1, PR],
                                        transition_list=[[("go", 1)], []], final_states=[1])
    games["bad_action"] = dict(rewards=[0, 0], players=[P1, PR],
                               transition_list=[[(1, 1)], [(1, 1)]], final_states=[1])
    return games


class _Fake:
    def __init__(self, reach, rew):
        self.reach_probability = reach
        self.expected_rewards = rew
        self.expected_rewards_min_reach = rew
        self.expected_reach_min_rewards = reach


def _property_flags(players, final_strategies, reachability_strategies):
    flags = []
    for idx, player in enumerate(players):
        fin, reach = final_strategies[idx], reachability_strategies[idx]
        if player == "Probabilistic":
            if fin is not None or reach is not None:
                flags.append("PROPERTY-VIOLATION probabilistic state %d has a strategy" % idx)
        elif player == "Player 1":
            if not set(fin) <= set(reach):
                flags.append("PROPERTY-VIOLATION state %d final %r not within reach %r" % (idx, fin, reach))
            if [a for a in reach if a in fin] != fin:
                flags.append("PROPERTY-VIOLATION state %d final %r not in transition order" % (idx, fin))
    return flags


def worker(root):
    import copy
    import io
    import logging
    import random
    logging.disable(logging.CRITICAL)
    sys.path.insert(0, root)
    import tad
    import conditionalrewards
    assert os.path.dirname(os.path.abspath(tad.__file__)) == os.path.abspath(root), tad.__file__
    out = []
    emit = out.append

    def solve_stepwise(tag, game, prune):
        """ the pipeline of StochasticGame.solve, dumping every intermediate state """
        g = copy.deepcopy(game)
        try:
            sg = tad.StochasticGame(prune_states=prune, **g)
            sg.check_game()
            states = sg.init_states()
            solver = tad.Solver(threshold=10 ** (-6), state_list=states)
            reach, it_reach = solver.solve_reachability(g["transition_list"], g["final_states"], prune)
            emit("%s reach %r %r %r" % (tag, reach, it_reach, [s.reach_probability for s in states]))
            solver.prune_reachability(reach)
            emit("%s cut %r" % (tag, [s.next_states for s in states]))
            if prune:
                solver.prune_stochastich_game()
                emit("%s pruned %r" % (tag, [s.next_states for s in states]))
            fin, it_rew = solver.solve_total_rewards()
            emit("%s final %r %r %r" % (tag, fin, it_rew, [
                (s.expected_rewards, s.expected_rewards_min_reach, s.expected_reach_min_rewards) for s in states]))
            emit("%s again %r %r" % (tag, solver._get_reachability_strategies(), solver._get_total_rewards_strategies()))
        except Exception as e:  # noqa
            emit("%s stepwise-error %s %s" % (tag, type(e).__name__, e))

    def solve_whole(tag, game, prune):
        g = copy.deepcopy(game)
        before = repr(g)
        try:
            res = tad.StochasticGame(prune_states=prune, **g).solve()
            emit("%s solve %r" % (tag, res))
            for flag in _property_flags(g["players"], res[0], res[1]):
                emit("%s %s" % (tag, flag))
        except Exception as e:  # noqa
            emit("%s solve-error %s %s" % (tag, type(e).__name__, e))
        emit("%s input-untouched %r" % (tag, repr(g) == before))

    # A. boundary games + random games, both pruning modes, whole and stepwise
    all_games = dict(_boundary_games())
    rng = random.Random(20240505)
    for case in range(N_RANDOM_GAMES):
        all_games["rnd_%d" % case] = _gen_game(rng, case)
    for name, game in all_games.items():
        for prune in (True, False):
            tag = "%s/%s" % (name, "prune" if prune else "noprune")
            solve_whole(tag, game, prune)
            solve_stepwise(tag, game, prune)

    # B. the driver: run_games + report on the random games and the small shipped inputs
    def strip(results):
        return {k: {kk: vv for kk, vv in v.items() if kk != "total_time"} for k, v in results.items()}

    batches = {}
    keys = list(all_games)
    for b in range(0, 120, 3):
        batches["batch_%d" % b] = {k: copy.deepcopy(all_games[k]) for k in keys[b:b + 3]}
    inputs_dir = os.path.join(root, "inputs")
    for fname in sorted(os.listdir(inputs_dir)):
        path = os.path.join(inputs_dir, fname)
        # robot_41_w10_l5 does not converge within minutes on the clean tree
        # either (no-prune reward iteration): left out, like the large boards.
        if os.path.getsize(path) < 70000 and not fname.startswith("robot_41_"):
            batches["file_" + fname] = conditionalrewards.read_dict_from_file(path)
    os.makedirs("outputs", exist_ok=True)
    for bname, games in batches.items():
        try:
            results = conditionalrewards.run_games(games)
        except Exception as e:  # noqa
            emit("%s run_games-error %s %s" % (bname, type(e).__name__, e))
            continue
        emit("%s run_games %r" % (bname, strip(results)))
        for name, res in results.items():
            if res["final_strategies"] is None:
                continue
            base = name[:-len("_no_prune")] if name.endswith("_no_prune") and name not in games else name
            for flag in _property_flags(games[base]["players"], res["final_strategies"], res["reachability_strategies"]):
                emit("%s %s %s" % (bname, name, flag))
        conditionalrewards.save_results_to_file(results, "inputs/%s.py" % bname.replace(".", "_"))
        with io.open("outputs/%s.txt" % bname.replace(".", "_")) as fh:
            report = [line for line in fh.read().split("\n") if not line.startswith("Total time")]
        emit("%s report %r" % (bname, report))

    # C. the strategy getters on hand made successor values (boundaries of the
    #    rounding, signed zeros, values just above 1, ints against floats)
    reach_values = [0, -0.0, 0.0, 1, 1.0, 1.0000000000000002, 0.9999999, 0.99999949, 0.9999995,
                    0.5, 1e-7, 4e-7, 5e-7, 6e-7, 1.5e-6, 0.25, 0.75]
    rew_values = [0, -0.0, 0.0, 1e-7, 5e-7, 4.9e-7, 2.5, 2.5000004, 2.5000005, 2.5000006, 3, 3.0,
                  1e9, 1e9 + 1e-6, 1e-6, 2e-6, 7 / 3, 0.1 + 0.2, 0.3]
    rng = random.Random(77)
    for case in range(1500):
        k = rng.randint(1, 5)
        n = k + 1
        fakes = [_Fake(0, 0)] + [_Fake(rng.choice(reach_values), rng.choice(rew_values)) for _ in range(k)]
        if case % 5 == 0:  # forced ties
            fakes = [fakes[0]] + [fakes[1 + rng.randrange(k)] for _ in range(k)]
        succ = [rng.randint(1, k) for _ in range(k)]
        acts = ["a%d" % i for i in range(k)]
        nxt = list(zip(acts, succ))
        floor = rng.choice([6, 6, 6, 2, 0, 9])
        p1 = tad.PlayerOne(player="Player 1", idx=0, next_states=list(nxt), reward=rng.choice([0, 1, 2.5]), num_states=n)
        p2 = tad.PlayerTwo(player="Player 2", idx=0, next_states=list(nxt), reward=rng.choice([0, 1, 2.5]), num_states=n)
        tag = "getters_%d" % case
        emit("%s p1 %r %r" % (tag, p1.get_best_strategies_reachability(fakes, floor),
                              p1.get_best_strategies_total_rewards(fakes, floor)))
        emit("%s p2 %r %r" % (tag, p2.get_worst_strategies_reachability(fakes, floor),
                              p2.get_worst_strategies_total_rewards(fakes, floor)))
        emit("%s steps %r %r" % (tag, p1.value_iteration_rewards(fakes), p2.value_iteration_rewards(fakes)))
        best = p1.get_best_strategies_reachability(fakes, floor)
        p1.prune_paths_reachability(best)
        emit("%s cut %r %r" % (tag, p1.next_states, p1.get_best_strategies_total_rewards(fakes, floor)))
        emit("%s cut-steps %r" % (tag, p1.value_iteration_rewards(fakes),))
        p1.prune_paths(fakes)
        emit("%s pruned %r %r %r" % (tag, p1.next_states, p1.get_best_strategies_reachability(fakes, floor),
                                     p1.get_best_strategies_total_rewards(fakes, floor)))
        # emptied states
        p1.next_states = []
        p2.next_states = []
        emit("%s empty %r %r %r %r %r %r" % (
            tag, p1.get_best_strategies_reachability(fakes, floor), p1.get_best_strategies_total_rewards(fakes, floor),
            p2.get_worst_strategies_reachability(fakes, floor), p2.get_worst_strategies_total_rewards(fakes, floor),
            p1.value_iteration_rewards(fakes), p2.value_iteration_rewards(fakes)))

    # D. a solver reused for two successive reward solves on the same state list
    #    (nothing may be carried over from one solve to the next)
    rng = random.Random(5)
    for case in range(60):
        game = _gen_game(rng, case)
        tag = "reuse_%d" % case
        try:
            sg = tad.StochasticGame(prune_states=False, **copy.deepcopy(game))
            states = sg.init_states()
            solver = tad.Solver(state_list=states)
            reach, _ = solver.solve_reachability(game["transition_list"], game["final_states"], False)
            first = solver.solve_total_rewards()
            solver.prune_reachability(reach)
            for s in states:
                s.expected_rewards = s.reward
                s.expected_rewards_min_reach = s.reward
            second = solver.solve_total_rewards()
            solver.prune_stochastich_game()
            third = solver.solve_total_rewards()
            emit("%s %r %r %r %r" % (tag, first, second, third, [
                (s.expected_rewards, s.expected_rewards_min_reach, s.expected_reach_min_rewards) for s in states]))
        except Exception as e:  # noqa
            emit("%s error %s %s" % (tag, type(e).__name__, e))

    sys.stdout.write("\n".join(out) + "\n")


# --------------------------------------------------------------------------
# parent side
# --------------------------------------------------------------------------

def run_worker(root):
    env = dict(os.environ, PYTHONDONTWRITEBYTECODE="1", PYTHONHASHSEED="0")
    env.pop("PYTHONPATH", None)
    with tempfile.TemporaryDirectory() as cwd:
        proc = subprocess.run(
            [sys.executable, os.path.abspath(__file__), "--worker", os.path.abspath(root)],
            cwd=cwd, env=env, stdout=subprocess.PIPE, stderr=subprocess.PIPE,
            universal_newlines=True, timeout=WORKER_TIMEOUT)
    if proc.returncode != 0:
        print("worker for %s crashed:\n%s" % (root, proc.stderr[-4000:]))
        print("FAIL")
        sys.exit(1)
    return proc.stdout.split("\n")


def main():
    if len(sys.argv) == 3 and sys.argv[1] == "--worker":
        worker(sys.argv[2])
        return
    if len(sys.argv) != 3:
        print(__doc__)
        sys.exit(2)
    patched = run_worker(sys.argv[1])
    clean = run_worker(sys.argv[2])
    problems = []
    if len(patched) != len(clean):
        problems.append("transcripts differ in length: %d vs %d" % (len(patched), len(clean)))
    for a, b in zip(patched, clean):
        if a != b:
            problems.append("DIFF\n  patched: %s\n  clean  : %s" % (a[:600], b[:600]))
    violations = [line for line in patched if "PROPERTY-VIOLATION" in line]
    problems.extend(violations)
    solved = sum(1 for line in patched if " solve (" in line)
    errors = sum(1 for line in patched if " solve-error " in line)
    print("%d observations compared, %d solves, %d solve errors (identical in both trees)" % (
        len(patched), solved, errors))
    if problems:
        for p in problems[:25]:
            print(p)
        print("%d problems" % len(problems))
        print("FAIL")
        sys.exit(1)
    print("PASS")


if __name__ == "__main__":
    main()
