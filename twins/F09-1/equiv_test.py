"""
Equivalence test for property C09 (malformed games are rejected with ValueError,
never solved; the batch runner records the message instead of crashing).

usage: python equiv_test.py <path-to-patched-root> <path-to-clean-root>

The parent process builds a deterministic corpus of game descriptions:
  * several hundred random well-formed games (cycles through probabilistic
    states, several finals, dead states, ties, zero rewards, n = 1 .. 9) plus
    the small games shipped in inputs/ of the clean tree;
  * for every rule of the property, the rule broken at EVERY position it can be
    broken at (every state, every transition, both tuple slots, every element of
    the final list) with boundary values (n, -1, n+1, -n, empty containers,
    falsy / truthy non-lists, unhashable values ...);
  * pairs of faults (to pin the ORDER in which the checks fire).
The corpus is pickled; one worker subprocess per tree (same module names, so they
must not share an interpreter) replays it and records, for both pruning modes,
what StochasticGame(**game).solve(), check_game(), init_states(), direct node
construction, run_games() and save_results_to_file() do.  The parent then
  1. compares the two recordings field by field (wall-clock time removed), and
  2. checks the property itself on the patched recording: every case that was
     built by breaking a documented rule must raise ValueError from solve() and
     must come out of run_games() as a recorded message with no result.
Prints PASS / exits 0 when there is no difference, FAIL / exits 1 otherwise.
"""
import copy
import os
import pickle
import random
import subprocess
import sys
import tempfile

P1, P2, PR = "Player 1", "Player 2", "Probabilistic"
CASE_TIMEOUT = 10


# --------------------------------------------------------------------------- #
# corpus
# --------------------------------------------------------------------------- #

def random_game(rng, n=None):
    """A well-formed game on which the value iterations terminate.

    States are ordered; every edge goes forward except (a) self loops of the
    zero-reward sink states and (b) a few back edges that leave probabilistic
    states with probability <= 1/2, so every cycle loses probability mass.
    """
    if n is None:
        n = rng.choice([1, 2, 2, 3, 3, 4, 5, 6, 7, 8, 9])
    n_sinks = 1 if n < 3 else rng.randint(1, min(3, n - 1))
    first_sink = n - n_sinks
    players, rewards, transitions = [], [], []
    back_edges_left = 2
    for s in range(n):
        if s >= first_sink:
            players.append(rng.choice([PR, PR, P1, P2]))
            rewards.append(0)
            if players[-1] == PR:
                transitions.append([(1, s)])
            else:
                transitions.append([("stay", s)])
            continue
        player = rng.choice([P1, P2, PR])
        players.append(player)
        rewards.append(rng.choice([0, 0, 1, 2, 3, 5, 0.5, 5 / 3, 10]))
        k = rng.randint(1, 3)
        targets = [rng.randint(s + 1, n - 1) for _ in range(k)]
        if rng.random() < 0.3:
            targets.append(targets[0])          # parallel edges -> ties
        if player == PR:
            if back_edges_left and s > 0 and rng.random() < 0.35:
                back_edges_left -= 1
                back = rng.randint(0, s)
                denom = rng.choice([2, 4, 8])
                rest = 1 - 1 / denom
                edges = [(1 / denom, back)]
                share = rest / len(targets)
                edges += [(share, t) for t in targets]
            else:
                weights = [rng.choice([1, 1, 2, 3]) for _ in targets]
                total = sum(weights)
                edges = [(w / total, t) for w, t in zip(weights, targets)]
                if len(edges) == 1:
                    edges = [(1, targets[0])]
            transitions.append(edges)
        else:
            names = ["a", "b", "c", "d", "e"]
            if rng.random() < 0.15:
                names = ["a", "a", "b", "c", "d"]   # duplicated action names
            transitions.append([(names[i], t) for i, t in enumerate(targets)])
    sinks = list(range(first_sink, n))
    n_final = rng.randint(1, len(sinks))
    finals = rng.sample(sinks, n_final)
    if rng.random() < 0.15 and first_sink > 0:
        finals.append(rng.randint(0, first_sink - 1))     # a non-sink final
    if rng.random() < 0.1:
        finals.append(finals[0])                          # duplicated final
    if rng.random() < 0.2:
        finals = tuple(finals) if rng.random() < 0.5 else finals
    return {"rewards": rewards, "players": players,
            "transition_list": transitions, "final_states": finals}


def shipped_games(clean_root):
    games = []
    for fname in ["example_games.py", "paper_games.py", "example_17_08.py",
                  "manual_1_game_a.py"]:
        # (the tiny robot_1_* boards are left out: the pinned solver does not
        #  terminate on them without pruning)
        path = os.path.join(clean_root, "inputs", fname)
        if not os.path.exists(path):
            continue
        with open(path) as fh:
            content = eval(fh.read())
        for name, game in content.items():
            game = dict(game)
            game.pop("prune_states", None)
            if len(game["players"]) <= 14:
                games.append((f"{fname}:{name}", game))
    return games


def set_transition(game, s, t, value):
    game["transition_list"][s][t] = value


def mutations(game, rng, exhaustive):
    """Yield (tag, rule, mutated_game). rule is None when the change is NOT a
    violation of a documented rule (kept only for the patched/clean comparison)."""
    n = len(game["players"])

    def fresh():
        g = copy.deepcopy(game)
        g["final_states"] = list(g["final_states"])
        return g

    def pick(seq, k):
        seq = list(seq)
        if exhaustive or len(seq) <= k:
            return seq
        return rng.sample(seq, k)

    # ---- list lengths disagree
    for key in ("rewards", "transition_list", "players"):
        g = fresh(); g[key] = g[key][:-1]; yield f"len:{key}:droplast", "length", g
        g = fresh(); g[key] = g[key][1:]; yield f"len:{key}:dropfirst", "length", g
        g = fresh(); g[key] = g[key] + [g[key][-1]]; yield f"len:{key}:dup", "length", g
    g = fresh(); g["rewards"] = []; yield "len:rewards:empty", "length", g
    g = fresh(); g["transition_list"] = []; yield "len:transitions:empty", "length", g
    g = fresh(); g["players"] = []; yield "len:players:empty", "length", g
    g = fresh(); g["players"] = []; g["rewards"] = []; g["transition_list"] = []
    yield "len:all:empty", "length", g

    # ---- negative reward at every position
    for i in range(n):
        for val in pick([-1, -0.5, -1e-9, float("-inf")], 2):
            g = fresh(); g["rewards"][i] = val
            yield f"reward:{i}:{val}", "reward", g

    # ---- unknown player at every position
    for i in range(n):
        for val in pick(["player 1", "", None, 1, ["Player 1"], "Probabilistic ",
                         ("Player 1",), 0, {"Player 2": 1}], 3):
            g = fresh(); g["players"][i] = val
            yield f"player:{i}:{val!r}", "player", g

    # ---- final index outside 0..n-1, at every position of the final list
    finals = list(game["final_states"])
    for val in [n, -1, n + 1, -n, -n - 1, 10 ** 6]:
        for pos in range(len(finals) + 1):
            g = fresh(); g["final_states"].insert(pos, val)
            yield f"final:insert{pos}:{val}", "final", g
        for pos in range(len(finals)):
            g = fresh(); g["final_states"][pos] = val
            yield f"final:replace{pos}:{val}", "final", g
    g = fresh(); g["final_states"] = []; yield "final:none:list", "nofinal", g
    g = fresh(); g["final_states"] = (); yield "final:none:tuple", "nofinal", g

    # ---- a state without transitions, at every state
    for i in range(n):
        for val in pick([[], None, (), 0, "", {}], 3):
            g = fresh(); g["transition_list"][i] = val
            yield f"notrans:{i}:{val!r}", "notrans", g

    # ---- a transition list that is not a list (truthy non-lists)
    for i in range(n):
        tr = game["transition_list"][i]
        for val in pick([tuple(tr), {"a": 1}, "ab", 7, set(tr), range(1, 3), 3.5, b"ab"], 3):
            g = fresh(); g["transition_list"][i] = val
            yield f"notlist:{i}:{type(val).__name__}", "shape", g

    # ---- per transition faults, at every (state, transition)
    for s in range(n):
        player = game["players"][s]
        for t in range(len(game["transition_list"][s])):
            label, target = game["transition_list"][s][t]
            # not a tuple
            for val in pick([[label, target], "ab", None, 5, {label: target}], 2):
                g = fresh(); set_transition(g, s, t, val)
                yield f"nottuple:{s}:{t}:{val!r}", "shape", g
            # wrong tuple length
            for val in pick([(), (label,), (target,), (label, target, 0),
                             (label, target, target, 1)], 3):
                g = fresh(); set_transition(g, s, t, val)
                yield f"tuplelen:{s}:{t}:{len(val)}", "shape", g
            # successor outside 0..n-1
            for val in [n, -1, n + 1, -n, 10 ** 6]:
                g = fresh(); set_transition(g, s, t, (label, val))
                yield f"succ:{s}:{t}:{val}", "successor", g
            # non-integer successor
            for val in pick([float(target), str(target), None, [target], 0.5,
                             (target,)], 3):
                g = fresh(); set_transition(g, s, t, (label, val))
                yield f"succtype:{s}:{t}:{val!r}", "succtype", g
            # bool successors are ints for Python: not a violation, compare only
            # (only from state 0, where 0 -> 1 is a forward edge of the random
            #  games, so that no reward cycle is created)
            if n >= 2 and s == 0:
                g = fresh(); set_transition(g, s, t, (label, True))
                yield f"succbool:{s}:{t}", None, g
            if player in (P1, P2):
                for val in pick([1, None, 0.5, b"a", ("a",), ["a"], 0], 3):
                    g = fresh(); set_transition(g, s, t, (val, target))
                    yield f"action:{s}:{t}:{val!r}", "action", g
            else:
                for val in pick(["0.5", None, [0.5], 1j, ("1",), ""], 3):
                    g = fresh(); set_transition(g, s, t, (val, target))
                    yield f"prob:{s}:{t}:{val!r}", "probability", g


def build_corpus(clean_root):
    rng = random.Random(90909)
    cases = []            # (case_id, rule or None, game)
    bases = []
    for name, game in shipped_games(clean_root):
        bases.append((name, game, False))
    for i in range(40):
        bases.append((f"small{i}", random_game(rng, n=rng.choice([1, 2, 3, 4])), True))
    for i in range(360):
        bases.append((f"rand{i}", random_game(rng), False))
    for name, game, exhaustive in bases:
        cases.append((f"{name}|wellformed", "wellformed", game))
    mutated = []
    for name, game, exhaustive in bases:
        muts = list(mutations(game, rng, exhaustive))
        if not exhaustive:
            # every rule still hits every position over the corpus; keep the
            # per-game volume bounded
            muts = rng.sample(muts, min(len(muts), 45))
        for tag, rule, g in muts:
            mutated.append((f"{name}|{tag}", rule, g))
        # two faults at once: pins the order of the checks.  Fault b lives in
        # exactly one of the four lists; that list is copied over fault a's game,
        # so fault b is present in the result whatever fault a was (a touches one
        # list, or empties the three state lists: it can never repair b).
        all_muts = list(mutations(game, rng, False))
        faulty = [m for m in all_muts if m[1] is not None]
        base = copy.deepcopy(game)
        base["final_states"] = list(base["final_states"])
        made = 0
        while made < 6:
            tag_a, rule_a, g_a = rng.choice(all_muts)
            tag_b, rule_b, g_b = rng.choice(faulty)
            keys = [k for k in base if repr(g_b[k]) != repr(base[k])]
            if len(keys) != 1:
                continue
            g = copy.deepcopy(g_a)
            g[keys[0]] = copy.deepcopy(g_b[keys[0]])
            mutated.append((f"{name}|double{made}:{tag_a}+{tag_b}", "double", g))
            made += 1
    cases.extend(mutated)
    return cases


# --------------------------------------------------------------------------- #
# worker (runs inside one tree)
# --------------------------------------------------------------------------- #

WORKER = r'''
import copy, os, pickle, signal, sys
root, case_file, out_file, test_dir = sys.argv[1:5]
sys.path.insert(0, root)
import tad, conditionalrewards
assert os.path.dirname(os.path.abspath(tad.__file__)) == os.path.abspath(root), tad.__file__
assert os.path.dirname(os.path.abspath(conditionalrewards.__file__)) == os.path.abspath(root)

class Timeout(Exception):
    pass

def on_alarm(signum, frame):
    raise Timeout()
signal.signal(signal.SIGALRM, on_alarm)

def outcome(fn):
    try:
        return ("ok", fn())
    except Timeout:
        raise
    except BaseException as e:          # noqa
        return ("exc", type(e).__name__, str(e))

def describe_states(states):
    return [(type(s).__name__, s.player, s.idx, repr(s.reward), repr(s.next_states),
             s.is_final_node, s.num_states, repr(s.reach_probability),
             repr(s.expected_rewards)) for s in states]

NODE_CLASSES = {"Player 1": tad.PlayerOne, "Player 2": tad.PlayerTwo,
                "Probabilistic": tad.ProbabilisticNode}

def direct_nodes(game):
    """Build every node by hand (the unit tests do that): the per-state checks
    must fire from the constructor itself."""
    res = []
    n = len(game["players"])
    for idx, player in enumerate(game["players"]):
        try:
            cls = NODE_CLASSES.get(player)
        except TypeError:
            cls = None
        if cls is None or idx >= len(game["transition_list"]):
            res.append(None)
            continue
        res.append(outcome(lambda: describe_states([cls(
            player=player, idx=idx, reward=0,
            next_states=game["transition_list"][idx], num_states=n,
            is_final_node=False)])))
    return res

with open(case_file, "rb") as fh:
    cases = pickle.load(fh)
os.makedirs("outputs", exist_ok=True)
records = {}
for case_id, rule, game in cases:
    rec = {}
    signal.alarm(%(timeout)d)
    try:
        for prune in (True, False):
            g = copy.deepcopy(game)
            snapshot = repr(g)
            def solve():
                return repr(tad.StochasticGame(prune_states=prune, **g).solve())
            rec["solve", prune] = outcome(solve)
            rec["untouched", prune] = (repr(g) == snapshot)
        g = copy.deepcopy(game)
        rec["check_game"] = outcome(lambda: tad.StochasticGame(**g).check_game())
        rec["init_states"] = outcome(
            lambda: describe_states(tad.StochasticGame(**g).init_states()))
        rec["count"] = outcome(lambda: tad.StochasticGame(**g).count_transitions())
        rec["nodes"] = outcome(lambda: direct_nodes(g))
        g = copy.deepcopy(game)
        def batch():
            results = conditionalrewards.run_games({"G": g})
            for r in results.values():
                r["total_time"] = 0
            conditionalrewards.save_results_to_file(results, "some/dir/eqcase.py")
            with open("outputs/eqcase.txt") as fh:
                report = fh.read()
            return repr(results), report
        rec["batch"] = outcome(batch)
        # two games in one batch: an error in the first must not leak into the second
        g1, g2 = copy.deepcopy(game), copy.deepcopy(game)
        def batch2():
            results = conditionalrewards.run_games({"A": g1, "B": g2})
            for r in results.values():
                r["total_time"] = 0
            return repr(results)
        rec["batch2"] = outcome(batch2)
    except Timeout:
        rec["timeout"] = True
    finally:
        signal.alarm(0)
    records[case_id] = rec
with open(out_file, "wb") as fh:
    pickle.dump(records, fh)
''' % {"timeout": CASE_TIMEOUT}


def run_worker(root, case_file, workdir, label):
    out_file = os.path.join(workdir, f"{label}.out")
    script = os.path.join(workdir, f"{label}_worker.py")
    with open(script, "w") as fh:
        fh.write(WORKER)
    cwd = os.path.join(workdir, f"{label}_cwd")
    os.makedirs(cwd)
    env = dict(os.environ)
    env.pop("PYTHONPATH", None)
    env["PYTHONDONTWRITEBYTECODE"] = "1"
    proc = subprocess.run(
        [sys.executable, script, os.path.abspath(root), case_file, out_file,
         os.path.dirname(os.path.abspath(__file__))],
        cwd=cwd, env=env, stdout=subprocess.PIPE, stderr=subprocess.PIPE, text=True)
    if proc.returncode != 0:
        print(f"worker for {label} failed:\n{proc.stdout[-2000:]}\n{proc.stderr[-4000:]}")
        sys.exit(1)
    with open(out_file, "rb") as fh:
        return pickle.load(fh)


# --------------------------------------------------------------------------- #
# checks
# --------------------------------------------------------------------------- #

def property_violations(cases, patched):
    """The property itself, evaluated on the patched tree."""
    problems = []
    for case_id, rule, game in cases:
        if rule in (None, "wellformed"):
            continue
        rec = patched[case_id]
        for prune in (True, False):
            res = rec.get(("solve", prune))
            if not res or res[0] != "exc" or res[1] != "ValueError":
                problems.append((case_id, f"solve(prune={prune}) -> {res}"))
        batch = rec.get("batch")
        if not batch or batch[0] != "ok":
            # the driver must not crash
            problems.append((case_id, f"run_games -> {batch}"))
            continue
        results = eval(batch[1][0], {"inf": float("inf"), "nan": float("nan")})
        first, second = results["G"], results["G_no_prune"]
        if not first["msg"].startswith("Error while solving the game: "):
            problems.append((case_id, f"msg {first['msg']!r}"))
        if second["msg"] != "Game not solved":
            problems.append((case_id, f"second msg {second['msg']!r}"))
        for r in (first, second):
            for key in ("reachability_strategies", "final_strategies", "rewards",
                        "probabilities"):
                if r[key] is not None:
                    problems.append((case_id, f"{key} has a value: {r[key]!r}"))
            if r["n_iterations_reach"] != 0 or r["n_iterations_rew"] != 0:
                problems.append((case_id, "iterations recorded for a rejected game"))
    return problems


def extra_checks(patched_root, clean_root, cases, workdir):
    """Hook for variant specific checks; returns a list of problems."""
    return []


def main():
    if len(sys.argv) != 3:
        print(__doc__)
        sys.exit(2)
    patched_root, clean_root = sys.argv[1], sys.argv[2]
    cases = build_corpus(clean_root)
    workdir = tempfile.mkdtemp(prefix="equiv_c09_")
    case_file = os.path.join(workdir, "cases.pkl")
    with open(case_file, "wb") as fh:
        pickle.dump(cases, fh)
    clean = run_worker(clean_root, case_file, workdir, "clean")
    patched = run_worker(patched_root, case_file, workdir, "patched")

    failures = []
    n_rejected = n_solved = 0
    rules_seen = {}
    for case_id, rule, game in cases:
        a, b = clean[case_id], patched[case_id]
        if a.get("timeout") or b.get("timeout"):
            failures.append((case_id, "timeout", a.get("timeout"), b.get("timeout")))
            continue
        for key in sorted(set(a) | set(b), key=repr):
            if a.get(key) != b.get(key):
                failures.append((case_id, key, a.get(key), b.get(key)))
        res = a["solve", True]
        if res[0] == "exc" and res[1] == "ValueError":
            n_rejected += 1
        elif res[0] == "ok":
            n_solved += 1
        rules_seen[rule] = rules_seen.get(rule, 0) + 1
        if not a["untouched", True] or not a["untouched", False]:
            pass  # the clean tree's own behaviour; equality is what we compare

    prop = property_violations(cases, patched)
    extra = extra_checks(patched_root, clean_root, cases, workdir)

    print(f"cases: {len(cases)}  (by rule: {rules_seen})")
    print(f"clean tree: {n_solved} solved with pruning, {n_rejected} rejected with ValueError")
    print(f"differences patched/clean: {len(failures)}")
    for f in failures[:15]:
        print("   DIFF", f)
    print(f"property violations on the patched tree: {len(prop)}")
    for p in prop[:15]:
        print("   PROP", p)
    print(f"variant specific problems: {len(extra)}")
    for p in extra[:15]:
        print("   EXTRA", p)
    if failures or prop or extra:
        print("FAIL")
        sys.exit(1)
    print("PASS")
    sys.exit(0)


if __name__ == "__main__":
    main()
