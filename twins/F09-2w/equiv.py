#!/usr/bin/env python
"""Differential test for property C09 (malformed games are rejected with ValueError).

usage: python equiv.py <clean_repo_dir> <patched_repo_dir>

Every tree is loaded in its own subprocess (the module names collide).  Both
subprocesses build the SAME deterministic list of cases (seeded generator, no
pickling, so iterators / odd objects can be used as inputs), run them and write
one line per case.  The parent compares the two transcripts line by line.

What is exercised
  * StochasticGame(**game).solve() for well formed random games (three state
    kinds, cycles, parallel edges, ties, several finals, both pruning modes) and
    for every single-rule mutation of them at every position (state,
    transition, tuple slot), boundary values n and -1 included, plus random
    pairs of mutations (which error wins);
  * check_game / init_states / count_transitions / the node constructors called
    directly, also with values that the whole-game check would have stopped
    (unknown and unhashable players, non-container finals, ...);
  * conditionalrewards.run_games on batches mixing good and malformed games
    (result dict, mutated input dict, log stream, report file byte for byte).
Non-terminating value iterations are cut by a deterministic iteration cap
(counted through the module's own `logging.debug("iteration ...")` calls); a
cut-off is recorded as CUTOFF on both sides.
"""
import os
import subprocess
import sys
import tempfile

SEED = 20261005
ITERATION_CAP = 120


# --------------------------------------------------------------------------- #
# child: run all cases against one tree
# --------------------------------------------------------------------------- #

def child(repo, out_path):
    import collections
    import copy
    import decimal
    import fractions
    import hashlib
    import logging as real_logging
    import random
    import re

    repo = os.path.abspath(repo)
    sys.path.insert(0, repo)
    work = tempfile.mkdtemp(prefix="f09_equiv_")
    os.chdir(work)
    os.mkdir("outputs")

    import tad
    import conditionalrewards

    class Cutoff(Exception):
        pass

    class LogShim:
        """Stands in for the `logging` module inside tad / conditionalrewards."""

        def __init__(self):
            self.reset(ITERATION_CAP)

        def reset(self, cap):
            self.digest = hashlib.sha256()
            self.iterations = 0
            self.cap = cap

        def __getattr__(self, name):
            return getattr(real_logging, name)

        def _record(self, level, msg):
            msg = str(msg)
            if level != "D" and msg.startswith("Total time"):
                msg = "Total time <masked>"
            self.digest.update(("%s:%s\n" % (level, msg)).encode("utf-8", "replace"))

        def debug(self, msg, *args):
            self._record("D", msg)
            if str(msg).startswith("iteration "):
                self.iterations += 1
                if self.iterations > self.cap:
                    raise Cutoff()

        def info(self, msg, *args):
            self._record("I", msg)

        def warning(self, msg, *args):
            self._record("W", msg)

        def error(self, msg, *args):
            self._record("E", msg)

        def getLogger(self, *args):
            return self

        def getEffectiveLevel(self):
            return real_logging.DEBUG

    shim = LogShim()
    tad.logging = shim
    conditionalrewards.logging = shim

    P1, P2, PR = tad.PLAYER_1, tad.PLAYER_2, tad.PROBABILISTIC
    Edge = collections.namedtuple("Edge", "label target")
    nan = float("nan")

    out = open(out_path, "w", encoding="utf-8", errors="backslashreplace")
    counter = [0]

    address = re.compile(r" at 0x[0-9a-fA-F]+")

    def emit(tag, text):
        counter[0] += 1
        line = "%06d %s :: %s" % (counter[0], tag, text)
        out.write(address.sub(" at 0x?", line).replace("\n", "\\n") + "\n")

    def outcome(fn):
        try:
            return "OK " + repr(fn())
        except Cutoff:
            return "CUTOFF"
        except Exception as exc:  # noqa: BLE001 - type and message are the observation
            return "EXC %s: %s" % (type(exc).__name__, exc)

    def show_nodes(nodes):
        return [(type(s).__name__, sorted(vars(s).items(), key=lambda kv: kv[0])) for s in nodes]

    # ------------------------------------------------------------------ games
    PROB_SPLITS = {
        1: [[1], [1.0]],
        2: [[0.5, 0.5], [0.25, 0.75], [0.3, 0.7], [1 / 3, 2 / 3], [0.9, 0.1]],
        3: [[0.5, 0.25, 0.25], [1 / 3, 1 / 3, 1 / 3], [0.2, 0.3, 0.5]],
    }

    def gen_game(rng, n, tame=None):
        """A well formed game.  `tame` games only go back through probabilistic states that
        also have a forward edge, so both value iterations converge quickly; the others are
        arbitrary graphs (cycles everywhere) and may hit the iteration cap."""
        if tame is None:
            tame = rng.random() < 0.7
        players = [rng.choice([P1, P2, PR]) for _ in range(n)]
        if tame:
            finals = sorted(set([n - 1] + [rng.randrange(n) for _ in range(rng.choice([0, 0, 1, 2]))]))
        else:
            finals = rng.sample(range(n), rng.choice([1, 1, 2, 3]) if n >= 3 else 1)
        if rng.random() < 0.3:
            finals.append(finals[0])           # duplicate final index
        rewards = [rng.choice([0, 1, 1, 2, 3, 2.5, 5 / 3]) for _ in range(n)]
        transitions = []
        for i in range(n):
            absorbing = i in finals and (rng.random() < 0.8 or (tame and i == n - 1))
            if absorbing:
                rewards[i] = 0
                succ = [i]
            else:
                k = rng.choice([1, 2, 2, 3])
                if tame:
                    succ = [rng.randrange(i + 1, n) for _ in range(k)]
                    if players[i] == PR and k > 1 and rng.random() < 0.5:
                        succ[-1] = rng.randrange(0, i + 1)   # cycle with an exit
                else:
                    succ = [rng.randrange(n) for _ in range(k)]
                if rng.random() < 0.25 and k > 1:
                    succ[1] = succ[0]          # parallel edge
            if players[i] == PR:
                split = rng.choice(PROB_SPLITS[len(succ)])
                transitions.append([(p, s) for p, s in zip(split, succ)])
            else:
                names = [rng.choice(["a", "b", "c", " ", ""]) for _ in succ]
                transitions.append([(a, s) for a, s in zip(names, succ)])
        return {"rewards": rewards, "players": players,
                "transition_list": transitions, "final_states": finals}

    def fixed_games():
        yield "empty", {"rewards": [], "players": [], "transition_list": [], "final_states": []}
        yield "empty_final0", {"rewards": [], "players": [], "transition_list": [],
                               "final_states": [0]}
        yield "single_p1", {"rewards": [0], "players": [P1], "transition_list": [[("a", 0)]],
                            "final_states": [0]}
        yield "single_prob", {"rewards": [0], "players": [PR], "transition_list": [[(1, 0)]],
                              "final_states": [0]}
        yield "chain", {"rewards": [1, 2, 0], "players": [P1, P2, PR],
                        "transition_list": [[("a", 1), ("b", 2)], [("x", 2), ("y", 0)], [(1, 2)]],
                        "final_states": [2]}
        yield "ties", {"rewards": [1, 1, 1, 0, 0], "players": [P1, PR, PR, PR, PR],
                       "transition_list": [[("a", 1), ("b", 2), ("a", 2)], [(0.5, 3), (0.5, 4)],
                                           [(0.5, 4), (0.5, 3)], [(1, 3)], [(1, 4)]],
                       "final_states": [3]}
        yield "namedtuples", {"rewards": [0, 0], "players": [P2, PR],
                              "transition_list": [[Edge("a", 1), Edge("b", 0)], [Edge(1, 1)]],
                              "final_states": [1]}

    # -------------------------------------------------------------- mutations
    def mutations(game):
        """(label, mutated deep copy) for every rule at every position."""
        n = len(game["players"])

        def variant(label, edit):
            g = copy.deepcopy(game)
            edit(g)
            return label, g

        def setter(key, i, value):
            def edit(g):
                g[key][i] = value
            return edit

        # rewards -------------------------------------------------------------
        for i in range(n):
            for v in (-1, -0.5, -1e-300, -0.0, nan, float("-inf"), float("inf"), None, "x",
                      True, [0], -fractions.Fraction(1, 3)):
                yield variant("reward[%d]=%r" % (i, v), setter("rewards", i, v))
        yield variant("rewards-short", lambda g: g["rewards"].pop())
        yield variant("rewards-long", lambda g: g["rewards"].append(0))
        yield variant("rewards-long-neg", lambda g: g["rewards"].append(-1))
        yield variant("rewards-empty", lambda g: g.__setitem__("rewards", []))
        yield variant("rewards-tuple", lambda g: g.__setitem__("rewards", tuple(g["rewards"])))
        yield variant("rewards-none", lambda g: g.__setitem__("rewards", None))
        # players -------------------------------------------------------------
        for i in range(n):
            for v in ("Player 3", "player 1", "Player 1 ", "", None, 1, [P1], (P1,), b"Player 1",
                      {P1}, 0.0):
                yield variant("player[%d]=%r" % (i, v), setter("players", i, v))
            for v in (P1, P2, PR):
                yield variant("player[%d]->%s" % (i, v), setter("players", i, v))
        yield variant("players-short", lambda g: g["players"].pop())
        yield variant("players-long", lambda g: g["players"].append(P1))
        yield variant("players-long-bad", lambda g: g["players"].append("nobody"))
        yield variant("players-tuple", lambda g: g.__setitem__("players", tuple(g["players"])))
        # final states --------------------------------------------------------
        for v in ([], [n], [-1], [n - 1], [0, n], [n, 0], [-1, n], [n, -1], [0, -1], [-1, 0],
                  [0.5], [n - 0.5], [n - 1 + 0.5], [-0.5], [-0.0], ["0"], [None], (0,), (n,), {0},
                  {n}, [True], [n + 1], [-n], [-n - 1], (), None, 0, [[0]], [nan], [0, nan],
                  [nan, n], range(n), range(n + 1), range(-1, 1), {0: 1}, "0"):
            yield variant("finals=%r" % (v,), lambda g, v=v: g.__setitem__("final_states", v))
        yield variant("finals=iter", lambda g: g.__setitem__("final_states", iter([0])))
        for j in range(len(game["final_states"]) + 1):
            for v in (n, -1):
                yield variant("finals.insert(%d,%r)" % (j, v),
                              lambda g, j=j, v=v: g["final_states"].insert(j, v))
        # transition lists of whole states -----------------------------------
        for i in range(n):
            row = game["transition_list"][i]
            for v in ([], None, (), tuple(row), "ab", 0, 5, {"a": 1}, set(), dict(row[:1]),
                      [row], [[]], [()], [None], row + [()], [()] + row, row * 2):
                yield variant("row[%d]=%r" % (i, v), setter("transition_list", i, v))
        yield variant("rows-short", lambda g: g["transition_list"].pop())
        yield variant("rows-long", lambda g: g["transition_list"].append([("a", 0)]))
        yield variant("rows-long-empty", lambda g: g["transition_list"].append([]))
        yield variant("rows-tuple",
                      lambda g: g.__setitem__("transition_list", tuple(g["transition_list"])))
        # single transitions and tuple slots ---------------------------------
        labels = (0, 1, None, b"a", ("a",), 1.5, "0.5", "a", "", [0.5], True, 1j,
                  fractions.Fraction(1, 2), decimal.Decimal("0.5"), nan, -1)
        targets = (n, -1, n + 1, -n, n - 1, 0, 1.0, float(n), -1.0, "0", None, True, False, [0],
                   (0,), 10 ** 20, -10 ** 20, nan)
        for i in range(n):
            for j, t in enumerate(game["transition_list"][i]):
                def at(value, i=i, j=j):
                    def edit(g):
                        g["transition_list"][i][j] = value
                    return edit
                for v in (list(t), t + (0,), t + (n,), t[:1], t[1:], (), None, "ab", "a", 0,
                          [t], (t,), (t, t), {t[0]: t[1]}, Edge(*t), (t[1], t[0])):
                    yield variant("edge[%d][%d]=%r" % (i, j, v), at(v))
                for v in labels:
                    yield variant("edge[%d][%d].label=%r" % (i, j, v), at((v, t[1])))
                for v in targets:
                    yield variant("edge[%d][%d].target=%r" % (i, j, v), at((t[0], v)))
                # both slots wrong at once: which message wins
                yield variant("edge[%d][%d]=both-bad" % (i, j), at((None, n)))
                yield variant("edge[%d][%d]=both-bad2" % (i, j), at(([], "x")))

    def solve_case(tag, game, prune):
        g = copy.deepcopy(game)
        shim.reset(ITERATION_CAP)
        res = outcome(lambda: tad.StochasticGame(prune_states=prune, **g).solve())
        emit(tag, "%s | after=%r | log=%s" % (res, g, shim.digest.hexdigest()[:16]))

    def direct_case(tag, game):
        """The three mechanisms one by one, without the guard of the others."""
        g = copy.deepcopy(game)
        shim.reset(ITERATION_CAP)

        def build():
            return tad.StochasticGame(**g)
        emit(tag + " count", outcome(lambda: build().count_transitions()))
        emit(tag + " check", outcome(lambda: build().check_game()))
        emit(tag + " init", outcome(lambda: show_nodes(build().init_states())))
        emit(tag + " after", repr(g))

    rng = random.Random(SEED)
    bases = list(fixed_games())
    for k, (size, tame) in enumerate([(3, True), (4, True), (3, False)]):
        bases.append(("rand%d" % k, gen_game(rng, size, tame)))
    plain = []
    for k in range(200):
        plain.append(("plain%d" % k, gen_game(rng, rng.choice([1, 2, 3, 4, 5, 6, 7]))))

    # 1. well formed games, both modes
    for name, game in bases + plain:
        for prune in (True, False):
            solve_case("solve %s prune=%s" % (name, prune), game, prune)

    # 2. every rule at every position, both modes + the mechanisms in isolation
    mutant_pool = []
    for name, game in bases:
        if not game["players"]:
            muts = []
        else:
            muts = list(mutations(game))
        for label, mutated in muts:
            for prune in (True, False):
                solve_case("mut %s %s prune=%s" % (name, label, prune), mutated, prune)
            direct_case("direct %s %s" % (name, label), mutated)
            mutant_pool.append(("%s/%s" % (name, label), mutated))

    # 2b. two states broken at once: a missing / non-list transition list in one state and an
    #     ill-formed transition (or an unknown player) in another one, in both orders - the
    #     states are built in index order and "Missing transitions" is only reported at the end
    holes = ([], None, (), 0, "")
    for name, game in bases:
        n = len(game["players"])
        for i in range(n):
            for j in range(n):
                if i == j:
                    continue
                for hole in holes:
                    for bad in ([("a", n)], [(0.5, -1)], [(None, 0)], [("a", 0), ()], "ab",
                                [("a", 0, 0)], [["a", 0]], [(1, "0")]):
                        g = copy.deepcopy(game)
                        g["transition_list"][i] = hole
                        g["transition_list"][j] = bad
                        tag = "two-rows %s row[%d]=%r row[%d]=%r" % (name, i, hole, j, bad)
                        solve_case(tag + " prune=True", g, True)
                        direct_case("direct " + tag, g)
                    g = copy.deepcopy(game)
                    g["transition_list"][i] = hole
                    g["players"][j] = ["nobody"]
                    tag = "row+player %s row[%d]=%r player[%d]" % (name, i, hole, j)
                    solve_case(tag + " prune=False", g, False)
                    direct_case("direct " + tag, g)

    # 3. two rules broken at once: the first check in program order must win
    for name, game in bases:
        if not game["players"]:
            continue
        labels_and_games = list(mutations(game))
        for k in range(70):
            (l1, g1), (l2, g2) = rng.sample(labels_and_games, 2)
            merged = copy.deepcopy(g1)
            key = rng.choice(["rewards", "players", "transition_list", "final_states"])
            merged[key] = copy.deepcopy(g2[key])
            prune = rng.random() < 0.5
            solve_case("pair %s [%s]+[%s].%s prune=%s" % (name, l1, l2, key, prune), merged, prune)

    # 4. node constructors called directly
    node_classes = [tad.PlayerOne, tad.PlayerTwo, tad.ProbabilisticNode, tad.Node]
    odd_players = [P1, P2, PR, "nobody", None, [P1], 3, (P1, P2)]
    odd_rows = [
        [], [("a", 0)], [(0.5, 0), (0.5, 1)], [("a", 2)], [("a", 3)], [("a", -1)], [(0.5, 3)],
        [(0.5, -1)], [("a", 0), ("b", 3)], [("a", 0), (0.5, 1)], [(0.5, 0), ("a", 1)],
        [(None, 0)], [(None, 3)], [("a", 1.0)], [(1, True)], [("a", 0, 0)], [("a",)], [()],
        [["a", 0]], ["ab"], [None], None, (), (("a", 0),), "ab", {"a": 0}, 7,
        [Edge("a", 0)], [Edge(0.5, 2)], [("a", 0), ("a", 0)], [(True, 0)], [(b"a", 0)],
        [("a", "0")], [("a", None)], [(nan, 0)], [(1j, 0)], [("a", [0])],
    ]
    for cls in node_classes:
        for player in odd_players:
            for row in odd_rows:
                for num_states in (3, 1):
                    r = copy.deepcopy(row)

                    def make(cls=cls, player=player, r=r, num_states=num_states):
                        node = cls(player=player, idx=0, reward=1, next_states=r,
                                   num_states=num_states, is_final_node=False)
                        return show_nodes([node]), node.next_states is r
                    emit("node %s %r %r n=%d" % (cls.__name__, player, row, num_states),
                         outcome(make) + " | after=%r" % (r,))

    # 5. the batch runner
    def mask(results):
        for entry in results.values():
            if isinstance(entry, dict) and "total_time" in entry:
                entry["total_time"] = "<masked>"
        return results

    def batch_case(tag, batch):
        b = copy.deepcopy(batch)
        shim.reset(ITERATION_CAP * 8)
        holder = {}

        def run():
            holder["results"] = mask(conditionalrewards.run_games(b))
            return holder["results"]
        res = outcome(run)
        emit(tag, "%s | after=%r | log=%s" % (res, b, shim.digest.hexdigest()[:16]))
        if "results" in holder:
            def save():
                conditionalrewards.save_results_to_file(holder["results"], "dir.x/batch.v1.py")
                with open(os.path.join("outputs", "batch.txt"), "rb") as fh:
                    return fh.read()
            emit(tag + " file", outcome(save))

    good_pool = bases[2:] + plain
    for k in range(260):
        size = rng.choice([1, 1, 2, 3, 4])
        batch = {}
        for s in range(size):
            roll = rng.random()
            if roll < 0.55:
                label, g = rng.choice(mutant_pool)
            else:
                label, g = rng.choice(good_pool)
            key = rng.choice(["g%d" % s, "g%d" % s, "game %s" % label[:12], "g", "g_no_prune"])
            if rng.random() < 0.03:
                key = s                      # non-string name
            g = copy.deepcopy(g)
            if rng.random() < 0.04:
                g.pop(rng.choice(sorted(g)))  # missing constructor argument
            if rng.random() < 0.05:
                g["prune_states"] = "stale"
            batch[key] = g
        batch_case("batch %d" % k, batch)
    batch_case("batch empty", {})
    batch_case("batch not-a-dict-game", {"g": [1, 2]})

    out.close()


# --------------------------------------------------------------------------- #
# parent
# --------------------------------------------------------------------------- #

def main():
    if len(sys.argv) == 4 and sys.argv[1] == "--child":
        child(sys.argv[2], sys.argv[3])
        return 0
    if len(sys.argv) != 3:
        print(__doc__)
        return 2
    trees = [os.path.abspath(p) for p in sys.argv[1:3]]
    env = dict(os.environ, PYTHONHASHSEED="0", PYTHONDONTWRITEBYTECODE="1")
    with tempfile.TemporaryDirectory(prefix="f09_equiv_out_") as tmp:
        outs = [os.path.join(tmp, "a.txt"), os.path.join(tmp, "b.txt")]
        procs = [subprocess.Popen([sys.executable, os.path.abspath(__file__), "--child", t, o],
                                  env=env, stdout=subprocess.PIPE, stderr=subprocess.STDOUT)
                 for t, o in zip(trees, outs)]
        for tree, proc in zip(trees, procs):
            try:
                text, _ = proc.communicate(timeout=110)
            except subprocess.TimeoutExpired:
                for p in procs:
                    p.kill()
                print("TIMEOUT while running %s" % tree)
                return 1
            if proc.returncode != 0:
                print("child for %s failed (exit %s):\n%s"
                      % (tree, proc.returncode, text.decode("utf-8", "replace")[-3000:]))
                return 1
        with open(outs[0], encoding="utf-8") as fa, open(outs[1], encoding="utf-8") as fb:
            a_lines = fa.read().split("\n")
            b_lines = fb.read().split("\n")
    for idx, (la, lb) in enumerate(zip(a_lines, b_lines)):
        if la != lb:
            print("DIFFERENT at case line %d\n clean  : %s\n patched: %s"
                  % (idx + 1, la[:1500], lb[:1500]))
            return 1
    if len(a_lines) != len(b_lines):
        print("DIFFERENT number of cases: %d vs %d" % (len(a_lines), len(b_lines)))
        return 1
    print("%d cases compared" % (len(a_lines) - 1))
    print("SAME")
    return 0


if __name__ == "__main__":
    sys.exit(main())
