#!/usr/bin/env python
"""Differential test for property C10 (solving leaves the description intact, solves are repeatable).

usage: python equiv.py <clean_repo_dir> <patched_repo_dir>

The same deterministic stream of cases is run against both trees, each in its own
subprocess (module names collide).  Every case prints one line made of reprs; the two
transcripts are compared line by line.  Prints SAME / exit 0 when nothing differs,
otherwise the first difference / exit 1.

Cases
  A  random well-formed games (all three state kinds, cycles, parallel edges, exact ties,
     several finals, duplicate action names) x random histories of solves
     (pruned / unpruned, same object / fresh object); after every solve: result, description,
     identity of the caller's inner lists, digest of the log stream
  B  malformed descriptions: count_transitions, solve in both modes, init_states directly;
     exception type + message, description afterwards
  C  node level: constructor aliasing, remove_path (present / absent / duplicate / p == 1),
     prune_paths, prune_paths_reachability, and what a holder of the old list sees
  D  solver level pruning on hand-set reach probabilities
  E  run_games on random dictionaries (odd names, missing / extra keys, shared game objects),
     the caller's dictionary afterwards, the report file byte for byte; shipped input files

Value iterations that may not terminate are cut deterministically: after CAP iterations of
one solve a CutOff is raised from the iteration's logging.debug call; "both cut" is the same.
"""
import os
import subprocess
import sys
import tempfile

CAP = 100
SEED = 20261005


# ----------------------------------------------------------------------------- worker
def worker(tree):
    import copy
    import hashlib
    import logging
    import random

    tree = os.path.abspath(tree)
    sys.path.insert(0, tree)
    workdir = tempfile.mkdtemp(prefix="f10_equiv_")
    os.chdir(workdir)
    os.makedirs("outputs")

    import tad
    import conditionalrewards as cr
    assert os.path.dirname(os.path.abspath(tad.__file__)) == tree, tad.__file__
    assert os.path.dirname(os.path.abspath(cr.__file__)) == tree, cr.__file__

    P1, P2, PR = tad.PLAYER_1, tad.PLAYER_2, tad.PROBABILISTIC
    KINDS = [P1, P2, PR]
    lines = []

    import time as _time
    clock = {"t": _time.time(), "sec": ""}

    def out(tag, *parts):
        if tag[0] != clock["sec"]:
            now = _time.time()
            if os.environ.get("F10_VERBOSE"):
                sys.stderr.write("section %s after %.1fs (%d lines)\n" % (tag[0], now - clock["t"], len(lines)))
            clock["sec"] = tag[0]
        lines.append(tag + " | " + " | ".join(p if isinstance(p, str) else repr(p) for p in parts))

    # -- deterministic cut-off and log digest ------------------------------------------
    class CutOff(BaseException):
        pass

    counter = {"n": 0, "cap": CAP}
    real_debug = logging.debug

    def counting_debug(msg, *args, **kwargs):
        if isinstance(msg, str) and msg.startswith("iteration "):
            counter["n"] += 1
            if counter["n"] > counter["cap"]:
                raise CutOff()
        return real_debug(msg, *args, **kwargs)

    logging.debug = counting_debug

    class Digest(logging.Handler):
        def __init__(self):
            super().__init__(level=logging.DEBUG)
            self.reset()

        def reset(self):
            self.h = hashlib.sha256()
            self.n = 0

        def emit(self, record):
            msg = record.getMessage()
            if msg.startswith("Total time"):
                msg = "Total time"
            self.h.update((record.levelname + ":" + msg + "\n").encode())
            self.n += 1

        def take(self):
            res = (self.n, self.h.hexdigest()[:16])
            self.reset()
            return res

    digest = Digest()
    root = logging.getLogger()
    root.addHandler(digest)

    def guarded(fn, *args, **kwargs):
        counter["n"] = 0
        try:
            return ("ok", repr(fn(*args, **kwargs)))
        except CutOff:
            return ("cut",)
        except BaseException as exc:  # noqa: BLE001 - type and message are the observation
            return ("exc", type(exc).__name__, str(exc))

    # -- generators ---------------------------------------------------------------------
    rng = random.Random(SEED)
    PROB_SPLITS = [[1.0], [1], [0.5, 0.5], [0.25, 0.75], [0.5, 0.25, 0.25], [0.01, 0.99],
                   [0.3, 0.7], [0.35, 0.65], [1 / 3, 1 / 3, 1 / 3], [0.2, 0.3, 0.5], [0.1, 0.9]]
    REWARDS = [0, 0, 1, 1, 1, 2, 3, 5, 0.5, 2.5, 10]

    def gen_game(forward):
        n = rng.randint(1, 8)
        players = [rng.choice(KINDS) for _ in range(n)]
        finals = rng.sample(range(n), k=rng.randint(1, min(3, n)))
        if forward and (n - 1) not in finals:
            finals.append(n - 1)
        if rng.random() < 0.1:
            finals.append(finals[0])
        # cyclic games: sparse rewards, otherwise nearly every unpruned solve diverges
        rewards = [rng.choice(REWARDS) if forward or rng.random() < 0.25 else 0 for _ in range(n)]
        transition_list = []
        for i in range(n):
            if i in finals and rng.random() < 0.85:
                players[i] = PR
                rewards[i] = 0 if rng.random() < 0.9 else rewards[i]
                transition_list.append([(rng.choice([1, 1.0]), i)])
                continue
            pool = list(range(i + 1, n)) if forward else list(range(n))
            if forward and rng.random() < 0.15:
                pool = list(range(n))
            if not pool:
                pool = [i]
            if players[i] == PR:
                split = rng.choice(PROB_SPLITS)
                transition_list.append([(p, rng.choice(pool)) for p in split])
            else:
                k = rng.randint(1, 3)
                names = rng.sample(["a", "b", "c", "d"], k)
                if k > 1 and rng.random() < 0.15:
                    names[1] = names[0]
                transition_list.append([(name, rng.choice(pool)) for name in names])
        return {"rewards": rewards, "players": players,
                "transition_list": transition_list, "final_states": finals}

    def inner_ids(desc):
        tl = desc["transition_list"]
        ids = [id(desc["rewards"]), id(desc["players"]), id(tl), id(desc["final_states"])]
        if isinstance(tl, list):
            ids += [id(x) for x in tl]
        return ids

    def node_view(state):
        return (type(state).__name__, state.player, state.idx, state.reward, state.next_states,
                state.is_final_node, state.reach_probability, state.expected_rewards,
                state.expected_rewards_min_reach, state.expected_reach_min_rewards, state.num_states)

    def make(desc, mode):
        return tad.StochasticGame(desc["rewards"], desc["players"], desc["transition_list"],
                                  desc["final_states"], prune_states=mode)

    # -- A: well-formed games x histories ------------------------------------------------
    well_formed = []
    calm = []      # games whose whole history was solved without error or cut-off
    for case in range(400):
        desc = gen_game(forward=case % 2 == 0)
        well_formed.append(copy.deepcopy(desc))
        snapshot = copy.deepcopy(desc)
        ids = inner_ids(desc)
        root.setLevel(logging.DEBUG if case % 3 == 0 else logging.WARNING)
        history = [(rng.random() < 0.5, rng.random() < 0.5) for _ in range(rng.randint(2, 4))]
        out("A%d desc" % case, desc)
        game = None
        quiet = True
        for step, (mode, fresh) in enumerate(history):
            if game is None or fresh:
                game = make(desc, mode)
            else:
                game.prune_states = mode
            n_before = guarded(game.count_transitions)
            res = guarded(game.solve)
            quiet = quiet and res[0] == "ok"
            out("A%d.%d" % (case, step), mode, fresh, n_before, res,
                desc == snapshot, inner_ids(desc) == ids, desc,
                game.transition_list is desc["transition_list"], game.num_states, digest.take())
        if quiet:
            calm.append(case)

    # the paper's figure 5.5 game, the case named in the property
    fig = {"rewards": [0, 0, 0, 0, 0, 0, 0, 0][:8],
           "players": [P1, P2, P2, PR, PR, PR, PR, PR],
           "transition_list": [[("alfa", 1), ("beta", 2)], [("x", 3), ("y", 5)], [("x", 4), ("y", 7)],
                               [(0.5, 6), (0.5, 5)], [(0.75, 6), (0.25, 7)], [(1, 5)], [(1, 6)], [(1, 7)]],
           "final_states": [6]}
    for rewards in ([0, 1, 2, 3, 4, 5, 0, 7], [1, 1, 1, 1, 1, 0, 0, 0], [0] * 8):
        desc = copy.deepcopy(fig)
        desc["rewards"] = rewards
        snapshot = copy.deepcopy(desc)
        game = make(desc, True)
        for step, mode in enumerate([True, True, False, True, False]):
            game.prune_states = mode
            out("A-fig.%d" % step, guarded(game.solve), desc == snapshot, desc,
                guarded(make(desc, mode).solve), desc == snapshot)

    # -- B: malformed descriptions -----------------------------------------------------------
    class Odd:
        def __repr__(self):
            return "Odd()"

    def first_player_state(d, kinds):
        for i, p in enumerate(d["players"]):
            if p in kinds and d["transition_list"][i]:
                return i
        return None

    def mut_entry(kinds, value_of):
        def mutate(d):
            i = first_player_state(d, kinds)
            if i is None:
                i = 0
            row = d["transition_list"][i]
            row[rng.randrange(len(row))] = value_of(row[0], len(d["players"]))
        return mutate

    def set_key(key, value):
        def mutate(d):
            d[key] = value(d) if callable(value) else value
        return mutate

    def set_row(value):
        def mutate(d):
            d["transition_list"][rng.randrange(len(d["transition_list"]))] = value
        return mutate

    def set_player(value):
        def mutate(d):
            d["players"][rng.randrange(len(d["players"]))] = value
        return mutate

    mutators = [
        ("row-empty", set_row([])), ("row-tuple", set_row((("a", 0),))), ("row-none", set_row(None)),
        ("row-dict", set_row({"a": 0})), ("row-str", set_row("ab")), ("row-int", set_row(3)),
        ("row-zero", set_row(0)), ("row-set", set_row({("a", 0)})), ("row-odd", set_row(Odd())),
        ("player-bad", set_player("player 1")), ("player-none", set_player(None)),
        ("player-list", set_player(["Player 1"])), ("player-dict", set_player({})),
        ("player-int", set_player(1)), ("player-bytes", set_player(b"Player 1")),
        ("entry-list", mut_entry(KINDS, lambda e, n: list(e))),
        ("entry-long", mut_entry(KINDS, lambda e, n: e + (0,))),
        ("entry-short", mut_entry(KINDS, lambda e, n: e[:1])),
        ("entry-empty", mut_entry(KINDS, lambda e, n: ())),
        ("entry-none", mut_entry(KINDS, lambda e, n: None)),
        ("action-int", mut_entry([P1, P2], lambda e, n: (1, e[1]))),
        ("action-none", mut_entry([P1, P2], lambda e, n: (None, e[1]))),
        ("action-list", mut_entry([P1, P2], lambda e, n: (["a"], e[1]))),
        ("prob-str", mut_entry([PR], lambda e, n: ("0.5", e[1]))),
        ("prob-none", mut_entry([PR], lambda e, n: (None, e[1]))),
        ("prob-bool", mut_entry([PR], lambda e, n: (True, e[1]))),
        ("prob-complex", mut_entry([PR], lambda e, n: (1j, e[1]))),
        ("prob-two", mut_entry([PR], lambda e, n: (2, e[1]))),
        ("prob-neg", mut_entry([PR], lambda e, n: (-0.5, e[1]))),
        ("next-float", mut_entry(KINDS, lambda e, n: (e[0], 1.0))),
        ("next-str", mut_entry(KINDS, lambda e, n: (e[0], "1"))),
        ("next-bool", mut_entry(KINDS, lambda e, n: (e[0], True))),
        ("next-none", mut_entry(KINDS, lambda e, n: (e[0], None))),
        ("next-high", mut_entry(KINDS, lambda e, n: (e[0], n))),
        ("next-neg", mut_entry(KINDS, lambda e, n: (e[0], -1))),
        ("next-far", mut_entry(KINDS, lambda e, n: (e[0], 10 ** 30))),
        ("rewards-short", set_key("rewards", lambda d: d["rewards"][:-1])),
        ("rewards-long", set_key("rewards", lambda d: d["rewards"] + [1])),
        ("rewards-neg", set_key("rewards", lambda d: [-1] + d["rewards"][1:])),
        ("rewards-negzero", set_key("rewards", lambda d: [-0.0] + d["rewards"][1:])),
        ("rewards-nan", set_key("rewards", lambda d: [float("nan")] + d["rewards"][1:])),
        ("rewards-str", set_key("rewards", lambda d: ["1"] + d["rewards"][1:])),
        ("rewards-none", set_key("rewards", None)), ("rewards-empty", set_key("rewards", [])),
        ("rewards-tuple", set_key("rewards", lambda d: tuple(d["rewards"]))),
        ("players-short", set_key("players", lambda d: d["players"][:-1])),
        ("players-long", set_key("players", lambda d: d["players"] + [P1])),
        ("players-empty", set_key("players", [])),
        ("players-tuple", set_key("players", lambda d: tuple(d["players"]))),
        ("tl-short", set_key("transition_list", lambda d: d["transition_list"][:-1])),
        ("tl-long", set_key("transition_list", lambda d: d["transition_list"] + [[("a", 0)]])),
        ("tl-none", set_key("transition_list", None)), ("tl-empty", set_key("transition_list", [])),
        ("tl-tuple", set_key("transition_list", lambda d: tuple(d["transition_list"]))),
        ("finals-empty", set_key("final_states", [])), ("finals-none", set_key("final_states", None)),
        ("finals-high", set_key("final_states", lambda d: d["final_states"] + [len(d["players"])])),
        ("finals-neg", set_key("final_states", lambda d: [-1] + d["final_states"])),
        ("finals-float", set_key("final_states", lambda d: [float(f) for f in d["final_states"]])),
        ("finals-str", set_key("final_states", ["0"])), ("finals-int", set_key("final_states", 0)),
        ("finals-tuple", set_key("final_states", lambda d: tuple(d["final_states"]))),
        ("finals-set", set_key("final_states", lambda d: set(d["final_states"]))),
    ]
    root.setLevel(logging.WARNING)
    case = 0
    for name, mutate in mutators:
        for rep in range(6):
            case += 1
            desc = copy.deepcopy(well_formed[(case * 7) % len(well_formed)])
            second = None
            try:
                mutate(desc)
                if rep >= 4:
                    second = mutators[(case * 5) % len(mutators)]
                    second[1](desc)
            except Exception as exc:  # the mutation itself does not apply: same on both sides
                out("B%d %s mutation" % (case, name), type(exc).__name__)
            snapshot = copy.deepcopy(desc)
            ids = inner_ids(desc)
            tag = "B%d %s+%s" % (case, name, second[0] if second else "")
            out(tag + " desc", desc)
            for mode in (True, False):
                game = guarded(make, desc, mode)
                if game[0] != "ok":
                    out(tag, mode, game)
                    continue
                game = make(desc, mode)
                out(tag + " count", mode, guarded(game.count_transitions))
                out(tag + " solve", mode, guarded(game.solve), repr(desc) == repr(snapshot),
                    inner_ids(desc) == ids, digest.take())
                out(tag + " again", mode, guarded(game.solve), repr(desc) == repr(snapshot))
                out(tag + " check", mode, guarded(game.check_game))
                counter["n"] = 0
                try:
                    states = game.init_states()
                    tl = desc["transition_list"]
                    out(tag + " init", mode, [node_view(s) for s in states],
                        [s.next_states is tl[s.idx] for s in states], desc)
                except BaseException as exc:  # noqa: BLE001
                    out(tag + " init", mode, type(exc).__name__, str(exc), desc)

    # -- C: node level ---------------------------------------------------------------------
    def rand_row(kind, n):
        if kind == PR:
            split = rng.choice(PROB_SPLITS)
            return [(p, rng.randrange(n)) for p in split]
        k = rng.randint(1, 4)
        return [(rng.choice("abc"), rng.randrange(n)) for _ in range(k)]

    NODE_CLS = {P1: tad.PlayerOne, P2: tad.PlayerTwo, PR: tad.ProbabilisticNode}
    for case in range(700):
        n = rng.randint(1, 5)
        kind = rng.choice([P1, PR, PR])
        row = rand_row(kind, n)
        if rng.random() < 0.2:
            row.append(row[0])
        caller_row = list(row)
        node = guarded(NODE_CLS[kind], player=kind, idx=0, reward=rng.choice(REWARDS),
                       next_states=row, num_states=n, is_final_node=rng.random() < 0.3)
        if node[0] != "ok":
            out("C%d ctor" % case, node)
            continue
        node = NODE_CLS[kind](player=kind, idx=0, reward=1, next_states=row, num_states=n,
                              is_final_node=False)
        held = node.next_states
        out("C%d ctor" % case, node_view(node), held is row, row == caller_row)
        for step in range(rng.randint(1, 3)):
            choice = rng.random()
            if choice < 0.6 and node.next_states:
                victim = rng.choice(node.next_states)
            elif choice < 0.75:
                victim = (0.5 if kind == PR else "zz", 0)
            elif choice < 0.85 and node.next_states:
                victim = list(rng.choice(node.next_states))
            elif choice < 0.95 and node.next_states:
                first = rng.choice(node.next_states)
                victim = (first[0], float(first[1])) if kind != PR else (float(first[0]), first[1])
            else:
                victim = rng.choice([None, (), (1,), "ab", 3])
            before = node.next_states
            res = guarded(node.remove_path, victim)
            out("C%d.%d remove" % (case, step), victim, res, node.next_states, before,
                before is node.next_states, held, held is node.next_states, row, row == caller_row)
        others = [tad.ProbabilisticNode(player=PR, idx=j, reward=0, next_states=[(1, j)],
                                        num_states=n, is_final_node=False) for j in range(n)]
        for other in others:
            other.reach_probability = rng.choice([0, 0, 0.0, 0.5, 1, 1e-9, -0.0])
        others[0] = node
        before = node.next_states
        if kind == P1 and rng.random() < 0.5:
            strategies = rng.choice([["a"], ["a", "b"], [], ["c", "a"], "ab", ("b",), None])
            res = guarded(node.prune_paths_reachability, strategies)
            out("C%d strat" % case, strategies, res, node.next_states, before, row == caller_row)
            before = node.next_states
        res = guarded(node.prune_paths, others)
        out("C%d prune" % case, [o.reach_probability for o in others], res, node.next_states, before,
            before is node.next_states, row, row == caller_row)

    # -- D: solver level pruning on hand-set reach probabilities --------------------------------
    for case in range(250):
        desc = copy.deepcopy(well_formed[(case * 11) % len(well_formed)])
        snapshot = copy.deepcopy(desc)
        ids = inner_ids(desc)
        game = make(desc, True)
        states = guarded(game.init_states)
        if states[0] != "ok":
            out("D%d init" % case, states)
            continue
        states = game.init_states()
        for state in states:
            state.reach_probability = rng.choice([0, 0, 0.0, 0.25, 0.5, 0.5, 1, 1.0, 0.4999996, 0.5000004])
        solver = tad.Solver(states)
        strategies = guarded(solver._get_reachability_strategies)
        out("D%d strategies" % case, strategies)
        res1 = guarded(solver.prune_reachability, solver._get_reachability_strategies())
        after1 = [s.next_states for s in states]
        out("D%d reach" % case, res1, after1)
        which = rng.random()
        if which < 0.4:
            res2 = guarded(solver.prune_stochastich_game)
        elif which < 0.7:
            res2 = guarded(solver.prune_states)
        else:
            res2 = guarded(solver.prune_paths)
        out("D%d prune" % case, which < 0.4, which < 0.7, res2, [node_view(s) for s in states],
            desc == snapshot, inner_ids(desc) == ids)
        out("D%d rewards" % case, guarded(solver.solve_total_rewards), [node_view(s) for s in states],
            desc == snapshot, inner_ids(desc) == ids)

    # -- E: run_games ---------------------------------------------------------------------------
    def strip_time(results):
        cleaned = {}
        for key, value in results.items():
            value = dict(value)
            if "total_time" in value:
                value["total_time"] = 0.25
            cleaned[key] = value
        return cleaned

    def run_and_report(tag, games, file_name):
        root.setLevel(logging.INFO)
        digest.take()
        counter["n"] = 0
        try:
            results = cr.run_games(games)
        except CutOff:
            out(tag, "cut", games, digest.take())
            return
        except BaseException as exc:  # noqa: BLE001
            out(tag, "exc", type(exc).__name__, str(exc), games, digest.take())
            return
        results = strip_time(results)
        out(tag, "ok", results, list(results), games, digest.take())
        for stale in os.listdir("outputs"):
            os.remove(os.path.join("outputs", stale))
        try:
            cr.save_results_to_file(results, file_name)
        except BaseException as exc:  # noqa: BLE001
            out(tag + " save", "exc", type(exc).__name__, str(exc), sorted(os.listdir("outputs")))
            return
        written = {}
        for produced in sorted(os.listdir("outputs")):
            with open(os.path.join("outputs", produced), "rb") as handle:
                written[produced] = handle.read()
        out(tag + " save", "ok", written)

    NAMES = ["g", "game one", "x_no_prune", "", "a.b", 7, ("t", 1), None, 2.5, b"n", True]
    FILES = ["inputs/na.me.py", "plain", "a/b/c.d.e", ".hidden.py", "dir.x/file", "x.txt", "inputs/.py"]
    for case in range(260):
        games = {}
        shared = None
        for _ in range(rng.randint(1, 3)):
            roll = rng.random()
            if roll < 0.55:
                game = copy.deepcopy(well_formed[rng.choice(calm)])
            elif roll < 0.8:
                game = copy.deepcopy(well_formed[rng.randrange(len(well_formed))])
                try:
                    mutators[rng.randrange(len(mutators))][1](game)
                except Exception:
                    pass
            elif roll < 0.85 and shared is not None:
                game = shared
            elif roll < 0.9:
                game = copy.deepcopy(well_formed[rng.randrange(len(well_formed))])
                del game[rng.choice(sorted(game))]
            elif roll < 0.94:
                game = copy.deepcopy(well_formed[rng.randrange(len(well_formed))])
                game[rng.choice(["extra", "prune_states", "threshold"])] = rng.choice([True, False, 0, None])
            elif roll < 0.97:
                game = rng.choice([None, [], "game", 3, {}])
            else:
                game = copy.deepcopy(well_formed[rng.randrange(len(well_formed))])
                game["transition_list"] = [tuple(row) for row in game["transition_list"]]
            shared = game
            name = rng.choice(NAMES) if rng.random() < 0.35 else "game_%d" % rng.randrange(4)
            games[name] = game
        if rng.random() < 0.05:
            games = rng.choice([{}, [], None, 3])
        run_and_report("E%d" % case, games, rng.choice(FILES))

    for shipped in ["paper_games.py", "example_games.py", "example_17_08.py", "manual_1_game_a.py",
                    "manual_arrow_bottom.py", "robot_1_w2_l1_r6_rb10_lb5_tb10_lt0.py",
                    "robot_1_w1_l2_r6_rb10_lb5_tb10_lt0.py", "robot_1_w2_l2_r6_rb10_lb5_tb10_lt0.py"]:
        path = os.path.join(tree, "inputs", shipped)
        counter["cap"] = 20 * CAP
        try:
            games = cr.read_dict_from_file(path)
        except BaseException as exc:  # noqa: BLE001
            out("E-file " + shipped, "read", type(exc).__name__, str(exc))
            continue
        before = copy.deepcopy(games)
        run_and_report("E-file " + shipped, games, path)
        for game in games.values():
            game.pop("prune_states", None)
        out("E-file %s intact" % shipped, games == before)
        # the same description solved directly, repeatedly, in both orders
        for name, game in games.items():
            snapshot = copy.deepcopy(game)
            root.setLevel(logging.WARNING)
            for mode in (True, False, False, True):
                out("E-direct %s %s" % (shipped, name), mode, guarded(make(game, mode).solve),
                    game == snapshot)

    sys.stdout.write("\n".join(lines) + "\n")
    sys.stdout.flush()
    import shutil
    shutil.rmtree(workdir, ignore_errors=True)


# ----------------------------------------------------------------------------- driver
def main():
    if len(sys.argv) == 3 and sys.argv[1] == "--worker":
        worker(sys.argv[2])
        return 0
    if len(sys.argv) != 3:
        print("usage: python equiv.py <clean_repo_dir> <patched_repo_dir>")
        return 2
    env = dict(os.environ, PYTHONHASHSEED="0", PYTHONDONTWRITEBYTECODE="1")
    procs = [subprocess.Popen([sys.executable, os.path.abspath(__file__), "--worker", tree],
                              stdout=subprocess.PIPE, stderr=subprocess.PIPE, env=env)
             for tree in sys.argv[1:3]]
    outputs = []
    for proc, tree in zip(procs, sys.argv[1:3]):
        try:
            stdout, stderr = proc.communicate(timeout=110)
        except subprocess.TimeoutExpired:
            for other in procs:
                other.kill()
            print("TIMEOUT in worker for %s" % tree)
            return 1
        if proc.returncode != 0:
            print("worker for %s failed (exit %s):\n%s" % (tree, proc.returncode, stderr.decode()[-3000:]))
            return 1
        outputs.append(stdout.decode("utf-8", "backslashreplace").splitlines())
    clean, patched = outputs
    for number, (left, right) in enumerate(zip(clean, patched)):
        if left != right:
            print("DIFFERENT at line %d" % number)
            print("clean  : %s" % left[:3000])
            print("patched: %s" % right[:3000])
            return 1
    if len(clean) != len(patched):
        print("DIFFERENT number of lines: %d vs %d" % (len(clean), len(patched)))
        return 1
    kinds = {}
    for line in clean:
        kinds[line[0]] = kinds.get(line[0], 0) + 1
    cut = sum(1 for line in clean if "('cut',)" in line or "| cut |" in line)
    errors = sum(1 for line in clean if "('exc'," in line or "| exc |" in line)
    sys.stderr.write("%d observations %s; %d with an exception, %d cut off on both sides\n"
                     % (len(clean), sorted(kinds.items()), errors, cut))
    print("SAME")
    return 0


if __name__ == "__main__":
    sys.exit(main())
