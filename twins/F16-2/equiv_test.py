#!/usr/bin/env python
"""
Equivalence test for property C16 ("the saved report states exactly what was computed").

usage: python equiv_test.py <path-to-patched-root> <path-to-clean-root>

The two trees are loaded in separate subprocesses (same module names).  Three
layers are compared, all of them aimed at the quantifier of the property (all
input files, any number of games, solvable or not, names with underscores and
digits; all result values including None, empty lists, long float vectors):

 A. save_results_to_file on synthetic result dictionaries and many input file
    names: the set of files produced in outputs/ and their bytes.
 B. read_dict_from_file + run_games + save_results_to_file on several hundred
    generated input files (0..4 games each, cycles, several finals, dead states,
    ties, unsolvable and malformed games, non-dictionary / broken files):
    the dictionary read, the results computed and the bytes of the report.
 C. the command line (python conditionalrewards.py -f X [-s] [-l ..]) run through
    runpy as __main__: exit status, which report files exist, their bytes.

The wall clock is replaced by a deterministic counter inside the subprocesses so
that the "Total time" line can be compared byte for byte as well.

Besides patched == clean, an independent oracle re-reads every report of the
patched tree and checks it against the results the batch run produced (name of
the file, number and order of the blocks, every line reads back to the value),
and checks that every generated input file was read into the games its text
denotes.

This variant ADDS things on purpose: every entry of the results carries the new key
"prune_states", every block of the report carries the new line "Pruned states", and
the report folder is configurable / created on demand.  So the comparison with the clean
tree is made after removing exactly those additions (the key from the results, the
line from the report); everything else has to be identical byte for byte.  The
additions themselves are checked by the oracle (the line is there once per block,
right after the message, and reads back to the pruning mode of that entry) and by
a fourth layer D that exists only in the patched tree: save_results_to_file /
the command line with output_dir = default, None, "", nested, trailing slash,
absolute -> same bytes as the default report, at <output_dir>/<stem>.txt.

Prints PASS and exits 0 when no difference is found, FAIL (exit 1) otherwise.
"""
import math
import os
import pickle
import random
import shutil
import subprocess
import sys
import tempfile

PY = sys.executable
SEP = "=" * 160

# --------------------------------------------------------------------------- #
# worker executed under each root
# --------------------------------------------------------------------------- #
WORKER = r'''
import itertools, os, pickle, signal, sys, types
root, corpus_path, out_path, workdir = sys.argv[1:5]
sys.path.insert(0, root)
os.chdir(workdir)
import conditionalrewards as cr
assert os.path.dirname(os.path.abspath(cr.__file__)) == os.path.abspath(root), cr.__file__

def fake_time_module():
    counter = itertools.count()
    return types.SimpleNamespace(time=lambda: next(counter) * 0.125 + 0.1)

def snapshot(skip=None):
    found = {}
    for base, _dirs, files in os.walk("."):
        for f in files:
            p = os.path.relpath(os.path.join(base, f), ".")
            if p.startswith("inputs" + os.sep) or p == skip:
                continue
            with open(p, "rb") as fh:
                found[p] = fh.read()
    return found

def reset():
    for name in os.listdir("."):
        if name == "inputs":
            continue
        if os.path.isdir(name):
            import shutil
            shutil.rmtree(name)
        else:
            os.remove(name)
    os.mkdir("outputs")

class Timeout(Exception):
    pass

def on_alarm(signum, frame):
    raise Timeout()
signal.signal(signal.SIGALRM, on_alarm)

def outcome(fn):
    try:
        return ("ok", fn())
    except Timeout:
        return ("timeout", None)
    except BaseException as e:
        return ("exc", type(e).__name__, str(e))

corpus = pickle.load(open(corpus_path, "rb"))
out = {"A": [], "B": []}

# layer A
for results, file_name in corpus["A"]:
    reset()
    r = outcome(lambda: cr.save_results_to_file(results, file_name))
    if r[0] == "ok":
        r = ("ok", None)
    out["A"].append((r, snapshot()))

# layer B
os.makedirs("inputs", exist_ok=True)
for rel_path, text in corpus["B"]:
    reset()
    os.makedirs(os.path.dirname(rel_path) or ".", exist_ok=True)
    with open(rel_path, "w") as fh:
        fh.write(text)
    rec = {}
    read = outcome(lambda: cr.read_dict_from_file(rel_path))
    rec["read"] = read if read[0] != "ok" else ("ok", repr(read[1]))
    if read[0] == "ok":
        games = read[1]
        cr.time = fake_time_module()
        signal.alarm(5)
        run = outcome(lambda: cr.run_games(games))
        signal.alarm(0)
        rec["run_repr"] = run if run[0] != "ok" else ("ok", None)
        if run[0] == "ok":
            rec["results"] = run[1]
            rec["order"] = list(run[1].keys())
            sv = outcome(lambda: cr.save_results_to_file(run[1], rel_path))
            rec["save"] = sv if sv[0] != "ok" else ("ok", None)
    rec["files"] = snapshot(os.path.normpath(rel_path))
    out["B"].append(rec)
    os.remove(rel_path)

# layer D (only when the tree knows the output_dir parameter)
import inspect
out["D"] = []
if "output_dir" in inspect.signature(cr.save_results_to_file).parameters:
    for results, file_name, output_dir in corpus["D"]:
        reset()
        os.rmdir("outputs")
        if output_dir == "<abs>":
            output_dir = os.path.join(os.getcwd(), "abs_target", "x")
        if output_dir == "<default>":
            r = outcome(lambda: cr.save_results_to_file(results, file_name))
        else:
            r = outcome(lambda: cr.save_results_to_file(results, file_name, output_dir=output_dir))
        out["D"].append((r, snapshot()))  # r = ("ok", returned path)

pickle.dump(out, open(out_path, "wb"))
'''

CLI_WRAPPER = r'''
import itertools, os, sys, types, runpy
root = sys.argv[1]
argv = sys.argv[2:]
sys.path.insert(0, root)
import time
_c = itertools.count()
time.time = lambda: next(_c) * 0.125 + 0.1
sys.argv = [os.path.join(root, "conditionalrewards.py")] + argv
runpy.run_path(os.path.join(root, "conditionalrewards.py"), run_name="__main__")
'''

# --------------------------------------------------------------------------- #
# corpus
# --------------------------------------------------------------------------- #
P1, P2, PR = "Player 1", "Player 2", "Probabilistic"
ACTIONS = ["alfa", "beta", "gamma", "delta", " ", "a_1", "go", "x"]
PROB_SPLITS = [
    [("1", 1.0)],
    [("1/2", 1 / 2), ("1/2", 1 / 2)],
    [("0.5", 0.5), ("0.5", 0.5)],
    [("1/4", 1 / 4), ("3/4", 3 / 4)],
    [("0.75", 0.75), ("0.25", 0.25)],
    [("1/3", 1 / 3), ("2/3", 2 / 3)],
    [("1/3", 1 / 3), ("1/3", 1 / 3), ("1/3", 1 / 3)],
    [("0.1", 0.1), ("0.2", 0.2), ("0.7", 0.7)],
    [("1e-3", 1e-3), ("0.999", 0.999)],
    [("0.999999", 0.999999), ("0.000001", 0.000001)],
]
REWARDS = [("0", 0), ("1", 1), ("2", 2), ("5", 5), ("100", 100), ("5/3", 5 / 3),
           ("0.5", 0.5), ("2.0", 2.0), ("1e-3", 1e-3), ("7", 7)]


def gen_game(rng):
    """returns (source text of the game dict, the value it denotes)"""
    n = rng.choice([1, 2, 3, 3, 4, 5, 6, 7, 8, 9, 12])
    n_sinks = rng.randint(1, max(1, min(3, n)))
    m = n - n_sinks  # non sink states 0..m-1
    players, trans_src, trans_val, rew_src, rew_val = [], [], [], [], []
    for i in range(n):
        if i >= m:
            kind = rng.choice([PR, PR, PR, P1, P2])
            players.append(kind)
            if kind == PR:
                t = rng.choice(["1", "1.0"])
                trans_src.append(f"[({t}, {i})]")
                trans_val.append([(eval(t), i)])
            else:
                a = rng.choice(ACTIONS)
                trans_src.append(f"[({a!r}, {i})]")
                trans_val.append([(a, i)])
            rew_src.append("0")
            rew_val.append(0)
            continue
        kind = rng.choice([P1, P2, PR])
        players.append(kind)
        r = rng.choice(REWARDS)
        rew_src.append(r[0])
        rew_val.append(eval(r[0]))
        forward = list(range(i + 1, n))
        if kind == PR:
            split = rng.choice(PROB_SPLITS)
            targets = [rng.choice(forward) for _ in split]
            # a back edge or self loop that keeps at most half of the mass
            if len(split) > 1 and rng.random() < 0.35:
                j = min(range(len(split)), key=lambda k: split[k][1])
                if split[j][1] <= 0.5:
                    targets[j] = rng.randint(0, i)
            trans_src.append("[" + ", ".join(f"({s[0]}, {t})" for s, t in zip(split, targets)) + "]")
            trans_val.append([(eval(s[0]), t) for s, t in zip(split, targets)])
        else:
            k = rng.randint(1, 3)
            acts = rng.sample(ACTIONS, k)
            targets = [rng.choice(forward) for _ in range(k)]
            trans_src.append("[" + ", ".join(f"({a!r}, {t})" for a, t in zip(acts, targets)) + "]")
            trans_val.append([(a, t) for a, t in zip(acts, targets)])
    # final states
    mode = rng.random()
    sinks = list(range(m, n))
    if mode < 0.6:
        finals = sorted(rng.sample(sinks, rng.randint(1, len(sinks))))
    elif mode < 0.8:
        finals = sorted(rng.sample(range(n), rng.randint(1, min(3, n))))
    elif mode < 0.87:
        finals = [n - 1]
    elif mode < 0.92:
        finals = []
    elif mode < 0.96:
        finals = [n + rng.randint(0, 2)]
    else:
        finals = [-1]
    # malformations
    mal = rng.random()
    if mal < 0.03:
        rew_src[0], rew_val[0] = "-1", -1
    elif mal < 0.06:
        players[rng.randrange(n)] = "Player 3"
    elif mal < 0.09:
        k = rng.randrange(n)
        trans_src[k], trans_val[k] = "[]", []
    elif mal < 0.12:
        trans_src.append("[(1, 0)]")
        trans_val.append([(1, 0)])
    elif mal < 0.14:
        rew_src.pop()
        rew_val.pop()
    elif mal < 0.16:
        k = rng.randrange(n)
        trans_src[k], trans_val[k] = "None", None
    text = ("{\n        \"rewards\": [" + ", ".join(rew_src) + "],\n"
            "        \"players\": [" + ", ".join(repr(p) for p in players) + "],\n"
            "        \"transition_list\": [\n            " + ",\n            ".join(trans_src) + "\n        ],\n"
            "        \"final_states\": " + repr(finals) + "\n    }")
    value = {"rewards": rew_val, "players": players, "transition_list": trans_val,
             "final_states": finals}
    return text, value


NAME_PARTS = ["game", "g", "robot", "paper", "x", "w4", "l10", "rb10", "5", "47", "a", "no", "prune_x"]


def gen_name(rng, used):
    while True:
        name = "_".join(rng.choice(NAME_PARTS) for _ in range(rng.randint(1, 4)))
        if rng.random() < 0.2:
            name += "_" + str(rng.randint(0, 99))
        if name in used or name + "_no_prune" in used or (
                name.endswith("_no_prune") and name[:-len("_no_prune")] in used):
            continue
        used.add(name)
        return name


FILE_STEMS = ["example_games", "robot_47_w10_l5_r6_rb10_lb10_tb10_lt30_force_down", "a", "g_1",
              "manual_1_game_a", "x9", "paper_games_2", "_", "a_b_c_1_2_3", "UPPER_lower_7"]


def gen_input_path(rng, idx):
    stem = rng.choice(FILE_STEMS) + f"_{idx}"
    form = rng.random()
    if form < 0.6:
        return f"inputs/{stem}.py", stem
    if form < 0.7:
        return f"{stem}.py", stem
    if form < 0.8:
        return f"./inputs/{stem}.py", stem
    if form < 0.85:
        return f"inputs/{stem}.v2.py", stem
    if form < 0.9:
        return f"inputs/{stem}", stem
    if form < 0.95:
        return f"inputs/sub.dir/{stem}.txt", stem
    return f"inputs//{stem}.games.py.bak", stem


def gen_corpus_B(rng, count):
    items, expected = [], []
    for idx in range(count):
        path, stem = gen_input_path(rng, idx)
        n_games = rng.choice([0, 1, 1, 2, 3, 3, 4])
        used = set()
        srcs, val = [], {}
        for _ in range(n_games):
            name = gen_name(rng, used)
            s, v = gen_game(rng)
            srcs.append(f"    {name!r}: {s}")
            val[name] = v
        text = "{\n" + ",\n".join(srcs) + ("," if srcs and rng.random() < 0.5 else "") + "\n}\n"
        items.append((path, text))
        expected.append((stem, val))
    # files that are not a dictionary / not readable as one
    for k, text in enumerate(["[1, 2, 3]", "5", "'a string'", "None", "{1, 2}", "{'a': 1",
                              "", "x = {}", "dict()", "dict(a=1)", "{}", "{ }\n\n"]):
        items.append((f"inputs/odd_{k}.py", text))
        expected.append((f"odd_{k}", None))
    return items, expected


def rand_float_vector(rng, n):
    pool = [0, 1, 0.0, 1.0, 0.5, 1 / 3, 2 / 3, 1e-7, 1e-17, 5e-324, 1e300, 123456789.123456789,
            0.1 + 0.2, 100.0, 1.6666666666666667, 0.9999999999999999, -0.0, 3, 10**20, 1e16, 1e-5]
    return [rng.choice(pool) if rng.random() < 0.5 else rng.random() * 10 ** rng.randint(-8, 8)
            for _ in range(n)]


def rand_strategies(rng, n):
    out = []
    for _ in range(n):
        r = rng.random()
        if r < 0.4:
            out.append(None)
        elif r < 0.5:
            out.append([])
        else:
            out.append(rng.sample(ACTIONS + ["it's", 'say "hi"', "back\\slash", "{brace}", "%s"],
                                  rng.randint(1, 3)))
    return out


def gen_entry(rng):
    entry = gen_entry_core(rng)
    if rng.random() < 0.7:
        entry["prune_states"] = rng.choice([True, False])
    return entry


def gen_entry_core(rng):
    n = rng.choice([0, 1, 2, 5, 9, 40, 400])
    r = rng.random()
    if r < 0.25:  # a failed entry, as run_games leaves it
        return {
            "n_states": n, "n_transitions": rng.randint(0, 50),
            "n_iterations_reach": 0, "n_iterations_rew": 0,
            "reachability_strategies": None, "final_strategies": None,
            "total_time": rng.random() / 100,
            "msg": rng.choice([
                "Game not solved",
                "Error while solving the game: The game has no solution. The initial state has a reach probability of 0.",
                "Error while solving the game: max() arg is an empty sequence",
                "Error while solving the game: Player must be Player 1, Player 2 or Probabilistic.",
                "Error while solving the game: {weird} %s %d {0} : = \\ ' \"",
                "Error while solving the game: ",
                "",
            ]),
            "rewards": None, "rew_min_reach": 0, "probabilities": None, "prob_min_rew": 0,
        }
    rs = rand_strategies(rng, n)
    same = rng.random() < 0.5
    fs = [None if x is None else list(x) for x in rs] if same else rand_strategies(rng, n)
    return {
        "n_states": n, "n_transitions": rng.randint(0, 5000),
        "n_iterations_reach": rng.randint(1, 10 ** 6), "n_iterations_rew": rng.randint(1, 10 ** 6),
        "reachability_strategies": rs, "final_strategies": fs,
        "total_time": rng.choice([0.0, 1e-5, 0.0002548694610595703, 12.5, 3600.000001]),
        "msg": "Game solved",
        "rewards": rand_float_vector(rng, n), "rew_min_reach": rand_float_vector(rng, n),
        "probabilities": rand_float_vector(rng, n), "prob_min_rew": rand_float_vector(rng, n),
    }


FILE_NAMES_A = [
    "inputs/example_games.py", "example_games.py", "./inputs/a_1_b2.py", "inputs/a.b.c.py",
    "/abs/path/robot_47_w10_l5_r6_rb10_lb10_tb10_lt30_force_down.py", "inputs/noext",
    "dir.with.dots/name_3.py", "inputs/.hidden.py", "inputs/sub/", "", "a/b/c/d_0_1_2.txt",
    "..//x_1.py", "inputs/trailing_.py", "inputs/_leading.py", "inputs/007.py", "inputs/x.py.py",
    "inputs/with space_1.py", "inputs\\back_slash.py", "inputs/ünï_1.py", "../up_9.py",
    "inputs/sub/../x.y/deep_name_12.tar.gz",
]


def expected_stem(file_name):
    return file_name.split("/")[-1].split(".")[0]


def gen_corpus_A(rng):
    items = []
    for fn in FILE_NAMES_A:
        used = set()
        results = {}
        for _ in range(rng.choice([0, 1, 2, 3, 6])):
            name = gen_name(rng, used)
            results[name] = gen_entry(rng)
            if rng.random() < 0.6:
                results[name + "_no_prune"] = gen_entry(rng)
        items.append((results, fn))
    for _ in range(120):
        used = set()
        results = {}
        for _ in range(rng.choice([1, 2, 3])):
            name = gen_name(rng, used)
            results[name] = gen_entry(rng)
            results[name + "_no_prune"] = gen_entry(rng)
        items.append((results, rng.choice(FILE_NAMES_A[:8])))
    # entries missing a key, names that are not strings: compared only between the trees
    bad = gen_entry(rng)
    del bad["rewards"]
    items.append(({"ok_1": gen_entry(rng), "bad_2": bad}, "inputs/partial.py"))
    items.append(({5: gen_entry(rng), ("t", 1): gen_entry(rng), None: gen_entry(rng)}, "inputs/odd_names.py"))
    return items


# --------------------------------------------------------------------------- #
# oracle
# --------------------------------------------------------------------------- #
LABELS = [
    ("Running example         : ", None),
    ("Message                 : ", "msg"),
    ("number of states        : ", "n_states"),
    ("number of transitions   : ", "n_transitions"),
    ("n iterations reach      : ", "n_iterations_reach"),
    ("n iterations rew        : ", "n_iterations_rew"),
    ("Reachability strategies : ", "reachability_strategies"),
    ("Final strategies        : ", "final_strategies"),
    ("Are equal               : ", "=="),
    ("Probabilities           : ", "probabilities"),
    ("Probabilities min rew   : ", "prob_min_rew"),
    ("Rewards                 : ", "rewards"),
    ("Rewards min reach       : ", "rew_min_reach"),
    ("Total time              : ", "total_time"),
]
EXTRA_LABELS = {"Pruned states           : ": "prune_states"}  # lines this variant adds
EXTRA_AFTER = "Message                 : "   # ... right after this line of the block


def strip_additions_report(files):
    """the report files without the lines this variant adds"""
    out = {}
    for path, data in files.items():
        lines = data.split(b"\n")
        out[path] = b"\n".join(
            l for l in lines if not any(l.startswith(x.encode()) for x in EXTRA_LABELS))
    return out


def strip_additions_results(results):
    return repr({name: {k: v for k, v in game.items() if k != "prune_states"}
                 for name, game in results.items()})


def same_value(a, b):
    if isinstance(a, float) and isinstance(b, float):
        return (a == b and math.copysign(1, a) == math.copysign(1, b)) or (a != a and b != b)
    if type(a) is not type(b):
        return False
    if isinstance(a, (list, tuple)):
        return len(a) == len(b) and all(same_value(x, y) for x, y in zip(a, b))
    return a == b


def check_report(data, results, problems, where):
    """the report `data` (bytes) states exactly `results` (str keyed, single-line messages)"""
    text = data.decode()
    if not results:
        if text != "":
            problems.append(f"{where}: report of an empty run is not empty")
        return
    if not text.endswith("\n"):
        problems.append(f"{where}: report does not end with a newline")
        return
    lines = text[:-1].split("\n")
    blocks = []
    for line in lines:
        if line == SEP:
            blocks.append([])
        elif not blocks:
            problems.append(f"{where}: text before the first separator")
            return
        else:
            blocks[-1].append(line)
    if len(blocks) != len(results):
        problems.append(f"{where}: {len(blocks)} blocks for {len(results)} entries")
        return
    for block, (name, game) in zip(blocks, results.items()):
        core = [l for l in block if not any(l.startswith(x) for x in EXTRA_LABELS)]
        extra = [l for l in block if any(l.startswith(x) for x in EXTRA_LABELS)]
        if len(core) != len(LABELS):
            problems.append(f"{where}/{name}: {len(core)} lines in the block")
            continue
        for line, (label, key) in zip(core, LABELS):
            if not line.startswith(label):
                problems.append(f"{where}/{name}: expected label {label!r}, got {line!r}")
                continue
            shown = line[len(label):]
            if key is None:
                ok = shown == name
            elif key == "msg":
                ok = shown == game["msg"]
            elif key == "==":
                ok = shown == str(game["reachability_strategies"] == game["final_strategies"])
            else:
                try:
                    ok = same_value(eval(shown, {"inf": math.inf, "nan": math.nan}), game[key])
                except Exception as e:  # noqa
                    ok = False
            if not ok:
                problems.append(f"{where}/{name}: line {label.strip()!r} does not read back: {shown[:80]!r}")
        if len(extra) != sum(1 for key in EXTRA_LABELS.values() if key in game):
            problems.append(f"{where}/{name}: {len(extra)} added lines in the block")
        if extra and not block[block.index(extra[0]) - 1].startswith(EXTRA_AFTER):
            problems.append(f"{where}/{name}: added line is not right after the message")
        for line in extra:
            label = next(x for x in EXTRA_LABELS if line.startswith(x))
            key = EXTRA_LABELS[label]
            try:
                ok = key in game and same_value(eval(line[len(label):]), game[key])
            except Exception:
                ok = False
            if not ok:
                problems.append(f"{where}/{name}: extra line {line!r} does not read back")


# --------------------------------------------------------------------------- #
# driver
# --------------------------------------------------------------------------- #
def run_worker(root, tmp, tag, corpus_path):
    workdir = os.path.join(tmp, f"work_{tag}")
    os.makedirs(os.path.join(workdir, "outputs"))
    worker = os.path.join(tmp, "worker.py")
    out_path = os.path.join(tmp, f"out_{tag}.pkl")
    env = dict(os.environ, PYTHONDONTWRITEBYTECODE="1", PYTHONHASHSEED="0")
    p = subprocess.run([PY, worker, root, corpus_path, out_path, workdir],
                       env=env, stdout=subprocess.PIPE, stderr=subprocess.PIPE, timeout=3600)
    if p.returncode != 0:
        raise RuntimeError(f"worker for {tag} failed:\n{p.stderr.decode()[-3000:]}")
    with open(out_path, "rb") as fh:
        return pickle.load(fh)


def run_cli(root, tmp, tag, cases):
    """cases: list of (rel input path, text, extra argv, make_outputs_dir)"""
    wrapper = os.path.join(tmp, "cli_wrapper.py")
    results = []
    env = dict(os.environ, PYTHONDONTWRITEBYTECODE="1", PYTHONHASHSEED="0")
    for k, (rel, text, extra, make_out) in enumerate(cases):
        workdir = os.path.join(tmp, f"cli_{tag}_{k}")
        os.makedirs(workdir)
        if make_out:
            os.mkdir(os.path.join(workdir, "outputs"))
        full = os.path.join(workdir, rel)
        os.makedirs(os.path.dirname(full), exist_ok=True)
        with open(full, "w") as fh:
            fh.write(text)
        before = text
        p = subprocess.run([PY, wrapper, root, "-f", rel] + extra, cwd=workdir, env=env,
                           stdout=subprocess.PIPE, stderr=subprocess.PIPE, timeout=120)
        files = {}
        for base, _d, fs in os.walk(workdir):
            for f in fs:
                path = os.path.join(base, f)
                with open(path, "rb") as fh:
                    files[os.path.relpath(path, workdir)] = fh.read()
        err_tail = p.stderr.decode().strip().split("\n")[-1] if p.returncode else ""
        results.append({"rc": p.returncode, "files": files, "stdout": p.stdout, "err": err_tail,
                        "input_untouched": files.get(os.path.normpath(rel), b"").decode() == before})
        shutil.rmtree(workdir)
    return results


def main():
    if len(sys.argv) != 3:
        print(__doc__)
        return 2
    patched, clean = (os.path.abspath(p) for p in sys.argv[1:3])
    rng = random.Random(160016)
    tmp = tempfile.mkdtemp(prefix="c16_equiv_")
    problems = []
    try:
        with open(os.path.join(tmp, "worker.py"), "w") as fh:
            fh.write(WORKER)
        with open(os.path.join(tmp, "cli_wrapper.py"), "w") as fh:
            fh.write(CLI_WRAPPER)
        corpus_a = gen_corpus_A(rng)
        corpus_b, expected_b = gen_corpus_B(rng, 420)
        # the small input files shipped with the repository as well
        for fn in sorted(os.listdir(os.path.join(clean, "inputs"))):
            full = os.path.join(clean, "inputs", fn)
            if os.path.getsize(full) < 30000:
                with open(full) as fh:
                    corpus_b.append((f"inputs/{fn}", fh.read()))
                expected_b.append((fn.split(".")[0], "unknown"))
        # layer D: the same results saved into different folders (patched tree only)
        corpus_d, expected_d = [], []
        for results, fn in corpus_a[:12] + corpus_a[21:29]:
            if not all(isinstance(nm, str) for nm in results):
                continue
            stem_txt = expected_stem(fn) + ".txt"
            for output_dir, want in [
                    ("<default>", os.path.join("outputs", stem_txt)),
                    (None, os.path.join("outputs", stem_txt)),
                    ("outputs", os.path.join("outputs", stem_txt)),
                    ("", stem_txt),
                    ("out/", os.path.join("out", stem_txt)),
                    ("outputs//", os.path.join("outputs", stem_txt)),
                    ("a/b/c_1", os.path.join("a", "b", "c_1", stem_txt)),
                    ("./rel.dir", os.path.join("rel.dir", stem_txt)),
                    ("<abs>", os.path.join("abs_target", "x", stem_txt))]:
                corpus_d.append((results, fn, output_dir))
                expected_d.append(want)
        corpus_path = os.path.join(tmp, "corpus.pkl")
        with open(corpus_path, "wb") as fh:
            pickle.dump({"A": corpus_a, "B": corpus_b, "D": corpus_d}, fh)

        out_p = run_worker(patched, tmp, "patched", corpus_path)
        out_c = run_worker(clean, tmp, "clean", corpus_path)

        # ---- layer A
        n_a_ok = 0
        for k, ((results, fn), rp, rc) in enumerate(zip(corpus_a, out_p["A"], out_c["A"])):
            where = f"A[{k}] {fn!r}"
            (res_p, files_p), (res_c, files_c) = rp, rc
            if res_p[0] != res_c[0] or (res_p[0] == "exc" and res_p[1] != res_c[1]):
                problems.append(f"{where}: outcome differs: {res_p} vs {res_c}")
                continue
            if res_p[0] != "ok":
                # both failed the same way (missing key / unwritable name); the partially
                # written file is not something the property talks about
                if sorted(files_p) != sorted(files_c):
                    problems.append(f"{where}: files differ after failure")
                continue
            if strip_additions_report(files_p) != files_c:
                problems.append(f"{where}: report files differ: {sorted(files_p)} vs {sorted(files_c)}")
                continue
            want = os.path.join("outputs", expected_stem(fn) + ".txt")
            if list(files_p) != [want]:
                problems.append(f"{where}: files {sorted(files_p)}, expected only {want}")
                continue
            if all(isinstance(nm, str) for nm in results):
                check_report(files_p[want], results, problems, where)
            n_a_ok += 1

        # ---- layer B
        n_b_saved = n_solved = n_err = n_timeout = 0
        for k, ((path, text), (stem, val), rp, rc) in enumerate(
                zip(corpus_b, expected_b, out_p["B"], out_c["B"])):
            where = f"B[{k}] {path!r}"
            if rp["read"] != rc["read"]:
                problems.append(f"{where}: read differs: {str(rp['read'])[:200]} vs {str(rc['read'])[:200]}")
                continue
            if val is None:
                pass  # odd files: same outcome in both trees is all we ask ...
            elif val != "unknown":
                if rp["read"] != ("ok", repr(val)):
                    problems.append(f"{where}: file not read into the games it denotes")
            if rp["read"][0] != "ok":
                if rp["files"] != rc["files"]:
                    problems.append(f"{where}: files differ")
                continue
            if rp["run_repr"] != rc["run_repr"] or (
                    rp["run_repr"][0] == "ok" and
                    strip_additions_results(rp["results"]) != repr(rc["results"])):
                problems.append(f"{where}: results differ")
                continue
            if rp["run_repr"][0] == "timeout":
                n_timeout += 1
            if rp["run_repr"][0] != "ok":
                if rp["files"] != rc["files"]:
                    problems.append(f"{where}: files differ")
                continue
            if rp.get("save") != rc.get("save") or strip_additions_report(rp["files"]) != rc["files"]:
                problems.append(f"{where}: reports differ: {rp.get('save')} {sorted(rp['files'])} "
                                f"vs {rc.get('save')} {sorted(rc['files'])}")
                continue
            if rp["save"][0] != "ok":
                continue
            want = os.path.join("outputs", stem + ".txt")
            if list(rp["files"]) != [want]:
                problems.append(f"{where}: files {sorted(rp['files'])}, expected only {want}")
                continue
            results = rp["results"]
            games = eval(text)
            want_order = [nm + suffix for nm in games for suffix in ("", "_no_prune")]
            if rp["order"] != want_order:
                problems.append(f"{where}: run order {rp['order']} != {want_order}")
            check_report(rp["files"][want], results, problems, where)
            modes = [g.get("prune_states", "missing") for g in results.values()]
            if modes != [True, False] * len(games):
                problems.append(f"{where}: recorded pruning modes {modes}")
            n_b_saved += 1
            for g in results.values():
                if g["msg"] == "Game solved":
                    n_solved += 1
                else:
                    n_err += 1

        # ---- layer D
        n_d = 0
        if len(out_p["D"]) != len(corpus_d) or out_c["D"]:
            problems.append("layer D did not run in the patched tree only")
        default_bytes = None
        for k, ((results, fn, output_dir), want, (res, files)) in enumerate(
                zip(corpus_d, expected_d, out_p["D"])):
            where = f"D[{k}] {fn!r} -> {output_dir!r}"
            if res[0] != "ok":
                problems.append(f"{where}: {res}")
                continue
            if list(files) != [want]:
                problems.append(f"{where}: files {sorted(files)}, expected only {want}")
                continue
            if os.path.normpath(res[1] if output_dir != "<abs>" else os.path.relpath(
                    res[1], os.path.join(tmp, "work_patched"))) != want:
                problems.append(f"{where}: returned path {res[1]!r}")
            if output_dir == "<default>":
                default_bytes = files[want]
                check_report(default_bytes, results, problems, where)
            elif files[want] != default_bytes:
                problems.append(f"{where}: bytes differ from the report in the default folder")
            n_d += 1

        # ---- layer C: the command line
        cli_cases = []
        for k in range(0, 60):
            path, text = corpus_b[k * 7]
            cli_cases.append((path, text, ["-s"], True))
        path, text = corpus_b[3]
        cli_cases.append((path, text, [], True))                 # nothing is saved without -s
        cli_cases.append((path, text, ["--save_results"], True))
        cli_cases.append((path, text, ["-s", "-l", "i"], True))
        cli_cases.append((path, text, ["-s", "-l", "d"], True))
        cli_cases.append((path, text, ["-s", "--log_level", "dd"], True))
        cli_cases.append((path, text, ["-s", "-l", "nonsense"], True))
        cli_cases.append((path, text, ["-s"], True))
        k_with_folder = len(cli_cases) - 1
        cli_cases.append((path, text, ["-s"], False))            # no outputs folder
        k_no_folder = len(cli_cases) - 1
        cli_cases.append(("inputs/odd.py", "[1, 2]", ["-s"], True))
        cli_cases.append(("inputs/broken.py", "{'a': ", ["-s"], True))
        cli_cases.append(("inputs/empty.py", "{}", ["-s"], True))
        cli_cases.append(("inputs/a.b_1.py", corpus_b[10][1], ["-s"], True))
        cli_p = run_cli(patched, tmp, "patched", cli_cases)
        cli_c = run_cli(clean, tmp, "clean", cli_cases)
        n_cli_reports = 0
        for k, (case, a, b) in enumerate(zip(cli_cases, cli_p, cli_c)):
            where = f"C[{k}] {case[0]!r} {case[2]}"
            if k == k_no_folder:
                # the clean tree cannot save without the folder, the patched one creates it:
                # the report has to be the one that is written when the folder exists
                if b["rc"] == 0 or not b["err"].startswith("FileNotFoundError"):
                    problems.append(f"{where}: clean tree was expected to fail: {b['rc']} {b['err']}")
                if a["rc"] != 0 or a["files"] != cli_p[k_with_folder]["files"]:
                    problems.append(f"{where}: patched tree: rc {a['rc']} {a['err']}, files {sorted(a['files'])}")
                continue
            if (a["rc"] == 0) != (b["rc"] == 0):
                problems.append(f"{where}: exit status {a['rc']} vs {b['rc']}: {a['err']} | {b['err']}")
                continue
            if strip_additions_report(a["files"]) != b["files"]:
                problems.append(f"{where}: files differ: {sorted(a['files'])} vs {sorted(b['files'])}")
                continue
            if a["rc"] != 0 and a["err"].split(":")[0] != b["err"].split(":")[0]:
                problems.append(f"{where}: different failure: {a['err']} | {b['err']}")
            if not a["input_untouched"]:
                problems.append(f"{where}: the input file was modified")
            reports = [f for f in a["files"] if f.startswith("outputs" + os.sep)]
            saved = a["rc"] == 0 and any(x in case[2] for x in ("-s", "--save_results")) and case[3]
            want = os.path.join("outputs", expected_stem(case[0]) + ".txt")
            if saved and reports != [want]:
                problems.append(f"{where}: reports {reports}, expected {want}")
            if not saved and a["rc"] == 0 and reports:
                problems.append(f"{where}: reports {reports} although nothing was to be saved")
            n_cli_reports += len(reports)

        # the new option on the command line (patched tree only)
        path, text = corpus_b[3]
        base = cli_p[k_with_folder]["files"]
        default_report = os.path.join("outputs", expected_stem(path) + ".txt")
        o_cases = [
            (["-s", "-o", "outputs"], default_report),
            (["-s", "--output_dir", "results_2/run.1"], os.path.join("results_2", "run.1", expected_stem(path) + ".txt")),
            (["-o", "elsewhere", "-s"], os.path.join("elsewhere", expected_stem(path) + ".txt")),
            (["-s", "-o", ""], expected_stem(path) + ".txt"),
            (["-s", "-o", "trail/"], os.path.join("trail", expected_stem(path) + ".txt")),
            (["-o", "unused"], None),
        ]
        cli_o = run_cli(patched, tmp, "patched_o", [(path, text, argv, False) for argv, _ in o_cases])
        n_o = 0
        for (argv, want), a in zip(o_cases, cli_o):
            where = f"C-o {argv}"
            others = {f: d for f, d in a["files"].items() if f != os.path.normpath(path)}
            if a["rc"] != 0:
                problems.append(f"{where}: rc {a['rc']} {a['err']}")
            elif want is None:
                if others:
                    problems.append(f"{where}: files {sorted(others)} although nothing was to be saved")
            elif list(others) != [want] or others[want] != base[default_report]:
                problems.append(f"{where}: files {sorted(others)}, expected {want} with the default bytes")
            n_o += 1

        print(f"layer D: {n_d} saves into other folders, {n_o} command lines with -o")
        if n_d < 100:
            problems.append("layer D too weak")
        print(f"layer A: {len(corpus_a)} synthetic result sets, {n_a_ok} reports checked")
        print(f"layer B: {len(corpus_b)} input files, {n_b_saved} reports checked "
              f"({n_solved} solved entries, {n_err} failed entries, {n_timeout} timeouts)")
        print(f"layer C: {len(cli_cases)} command lines, {n_cli_reports} reports compared")
        if n_timeout > 5 or n_solved < 300 or n_err < 100 or n_a_ok < 100 or n_cli_reports < 50:
            problems.append("corpus too weak (see the counts above)")
    finally:
        shutil.rmtree(tmp, ignore_errors=True)
    if problems:
        for p in problems[:40]:
            print("DIFF:", p)
        print(f"FAIL ({len(problems)} differences)")
        return 1
    print("PASS")
    return 0


if __name__ == "__main__":
    sys.exit(main())
