#!/usr/bin/env python
"""Differential test for the Roborta board generator (property C08).

usage: python equiv.py <clean_repo_dir> <patched_repo_dir>

Both trees are loaded in their own subprocess (the module names collide).  Each
subprocess runs the SAME deterministic list of cases and prints one line per
case (case id, TAB, repr / digest of the observable outcome).  The parent compares
the two transcripts line by line; it prints SAME and exits 0 when nothing
differs, otherwise it prints the first difference and exits 1.

Observables compared
  * files written by write_robots / create_sg_from_board / main(): byte for byte
    (sha1 + length; also after an exception: the partially written file)
  * text written by write_preamble / write_robot_A/B/C into a StringIO
  * return values (repr) of every transition builder, gen_rnd_board,
    get_random_moves, prob_to_str, check_input
  * exceptions: type and message (SystemExit of argparse: code and stderr)

Inputs
  * ALL boards with up to 4 tiles (every shape, every arrow layout 0..3, every
    loose-tile layout), break probabilities rotated through a list
  * hundreds of random larger boards (force-down or not), one-column and one-row
    boards, via gen_rnd_board, write_robots, create_sg_from_board and main()
  * every builder directly with random sizes (also 0 / negative), offsets,
    winning states (None, 0, ints), out-of-range arrow codes
  * malformed boards / parameters (wrong sizes, ragged rows, floats, None,
    strings, Fractions, nan/inf)
"""
import os
import subprocess
import sys
import tempfile

WORKER = r'''
import contextlib, gc, hashlib, io, itertools, os, random, sys
from fractions import Fraction

tree, work = sys.argv[1], sys.argv[2]
sys.path.insert(0, tree)
os.chdir(work)
os.makedirs("inputs", exist_ok=True)

import roberta_generator as rg
import stochastic_game_from_roborta_board as sb
import conditionalrewards as cr

for m in (rg, sb, cr):
    assert os.path.dirname(os.path.abspath(m.__file__)) == os.path.abspath(tree), m.__file__

OUT = sys.stdout


def emit(cid, val):
    OUT.write(cid + "\t" + val.replace("\n", "\\n") + "\n")


def digest(data):
    if data is None:
        return "nofile"
    if isinstance(data, str):
        data = data.encode("utf-8")
    return hashlib.sha1(data).hexdigest() + ":" + str(len(data))


def call(fn, *a, **k):
    try:
        return "ok " + repr(fn(*a, **k))
    except BaseException as e:      # SystemExit of argparse included
        return "exc %s: %s" % (type(e).__name__, e)


def slurp(path):
    if not os.path.exists(path):
        return None
    with open(path, "rb") as f:
        return f.read()


def file_case(cid, path, fn, *a, **k):
    if os.path.exists(path):
        os.remove(path)
    res = call(fn, *a, **k)
    if res.startswith("exc"):
        gc.collect()                # a file left open by an exception is flushed now
    emit(cid, res + " | " + digest(slurp(path)))


def stream_case(cid, fn, *a, **k):
    buf = io.StringIO()
    res = call(fn, buf, *a, **k)
    emit(cid, res + " | " + digest(buf.getvalue()))


PROBS = [(0.1, 0.1, 0.1), (0.5, 0.25, 0.75), (0.3, 0.2, 0.05), (0.999, 0.001, 0.5),
         (1e-9, 0.123456789, 0.987654321), (Fraction(1, 3), Fraction(2, 7), Fraction(1, 2)),
         (0.7, 0.3, 0.1), (0.01, 0.99, 0.6)]

rnd = random.Random(20240508)

# ---------------------------------------------------------------------------
# 1. exhaustive: every board with at most 4 tiles
# ---------------------------------------------------------------------------
shapes = [(l, w) for l in range(1, 5) for w in range(1, 5) if l * w <= 4]
n = 0
for (length, width) in shapes:
    tiles = length * width
    for mv in itertools.product(range(4), repeat=tiles):
        moves = [list(mv[r * width:(r + 1) * width]) for r in range(length)]
        for ls in itertools.product(range(2), repeat=tiles):
            loose = [list(ls[r * width:(r + 1) * width]) for r in range(length)]
            rewards = [[rnd.randrange(0, 7) for _ in range(width)] for _ in range(length)]
            pt, pr, pl = PROBS[n % len(PROBS)]
            n += 1
            cid = "exh l%d w%d m%s t%s" % (length, width, "".join(map(str, mv)),
                                           "".join(map(str, ls)))
            file_case(cid, "inputs/exh.py", rg.write_robots, "inputs/exh.py", length, width,
                      moves, rewards, loose, pt, pr, pl)
            if n % 97 == 0:
                # the file must read back as the dictionary of three games
                emit(cid + " readback", call(cr.read_dict_from_file, "inputs/exh.py"))

# ---------------------------------------------------------------------------
# 2. random larger boards: gen_rnd_board, write_robots, writers, create_sg
# ---------------------------------------------------------------------------
def rnd_prob():
    return rnd.choice([rnd.random() * 0.998 + 0.001, round(rnd.random() * 0.98 + 0.01, 2),
                       0.1, 0.5])

for k in range(500):
    if k % 5 == 0:
        length, width = rnd.randrange(1, 9), 1            # one-column boards
    elif k % 5 == 1:
        length, width = 1, rnd.randrange(1, 9)            # one-row boards
    else:
        length, width = rnd.randrange(1, 8), rnd.randrange(1, 8)
    force_down = bool(k % 2)
    seed = rnd.randrange(0, 10 ** 6)
    ploose = rnd_prob()
    maxrew = rnd.choice([1, 2, 6, 6, 10, 60, 2000])
    cid = "rnd%d l%d w%d fd%d" % (k, length, width, force_down)
    board = None
    try:
        board = rg.gen_rnd_board(seed, length, width, ploose, maxrew, force_down)
        emit(cid + " board", "ok " + repr(board))
    except BaseException as e:
        emit(cid + " board", "exc %s: %s" % (type(e).__name__, e))
        continue
    emit(cid + " rndstate", repr(random.random()))
    moves, rewards, loose = board
    pt, pr, pl = rnd_prob(), rnd_prob(), rnd_prob()
    file_case(cid + " write_robots", "inputs/rnd.py", rg.write_robots, "inputs/rnd.py",
              length, width, moves, rewards, loose, pt, pr, pl)
    if k % 25 == 0:
        emit(cid + " readback", call(cr.read_dict_from_file, "inputs/rnd.py"))
    stream_case(cid + " preamble", rg.write_preamble, length, width, moves, rewards, loose)
    stream_case(cid + " A", rg.write_robot_A, length, width, moves, rewards, loose, pt)
    stream_case(cid + " B", rg.write_robot_B, length, width, moves, rewards, loose, pt, pr)
    stream_case(cid + " C", rg.write_robot_C, length, width, moves, rewards, loose, pt, pr, pl)
    # the manual front end (derives sizes and the file name from the board)
    for f in os.listdir("inputs"):
        os.remove(os.path.join("inputs", f))
    res = call(sb.create_sg_from_board, moves, rewards, loose, pr, pl, pt)
    gc.collect()
    names = sorted(os.listdir("inputs"))
    emit(cid + " create_sg", res + " | " +
         " ".join(f + "=" + digest(slurp(os.path.join("inputs", f))) for f in names))
    for f in names:
        os.remove(os.path.join("inputs", f))

for k in range(200):
    random.seed(k)
    length, width = rnd.randrange(0, 6), rnd.randrange(0, 6)
    emit("get_random_moves %d" % k, call(rg.get_random_moves, length, width, bool(k % 2)))

# ---------------------------------------------------------------------------
# 3. every builder directly
# ---------------------------------------------------------------------------
def rnd_board(length, width, codes):
    L, W = max(length, 0), max(width, 0)
    return ([[rnd.choice(codes) for _ in range(W)] for _ in range(L)],
            [[rnd.choice([0, 1, 1, 0, 2, True, False]) for _ in range(W)] for _ in range(L)])

SIZES = [-1, 0, 1, 1, 2, 2, 3, 4, 5]
for k in range(2500):
    length, width = rnd.choice(SIZES), rnd.choice(SIZES)
    codes = [0, 1, 2, 3] if k % 4 else [0, 1, 2, 3, 4, -1, True]
    moves, loose = rnd_board(length, width, codes)
    o = [rnd.randrange(0, 200) for _ in range(4)]
    win = rnd.choice([None, 0, 1, 7, 1000, -3])
    p = rnd.choice([0.1, 0.25, 0.3, rnd.random(), Fraction(1, 3), 0, 1])
    cid = "bld%d l%d w%d" % (k, length, width)
    emit(cid + " p2", call(rg.player_two_transitions, length, width, moves, o[0], o[1]))
    emit(cid + " p1down", call(rg.player_one_down_transitions, length, width, o[0], win))
    emit(cid + " p1down/default", call(rg.player_one_down_transitions, length, width, o[0]))
    emit(cid + " p1lr", call(rg.player_one_left_right_transitions, length, width, moves,
                             o[0], o[1]))
    emit(cid + " p1lr/shared", call(rg.player_one_left_right_transitions, length, width, moves,
                                    o[2], o[2]))
    emit(cid + " tile", call(rg.prob_tile_break_transitions, length, width, p, loose,
                             o[0], o[3]))
    emit(cid + " rdown", call(rg.prob_robot_down_break_transitions, length, width, p, o[1], win))
    emit(cid + " rleft", call(rg.prob_robot_left_break_transitions, length, width, p, o[1]))
    emit(cid + " rright", call(rg.prob_robot_right_break_transitions, length, width, p, o[1]))
    emit(cid + " p1dlr", call(rg.player_one_down_left_right_transitions, length, width, moves,
                              o[0], o[1], o[2]))
    emit(cid + " light", call(rg.prob_light_break_transitions, length, width, p, o[0], o[1]))

# ---------------------------------------------------------------------------
# 4. malformed boards and parameters (exception type + message + partial file)
# ---------------------------------------------------------------------------
GOOD = ([[1, 0], [2, 3]], [[3, 0], [1, 2]], [[0, 1], [1, 0]])
BAD_SIZES = [0, -1, 1, 2, 3, True, 2.0, None, "2"]
for length in BAD_SIZES:
    for width in BAD_SIZES:
        cid = "mal size l=%r w=%r" % (length, width)
        file_case(cid, "inputs/mal.py", rg.write_robots, "inputs/mal.py", length, width,
                  GOOD[0], GOOD[1], GOOD[2], 0.1, 0.2, 0.3)
        for name in ("player_one_down_transitions", "prob_robot_down_break_transitions"):
            fn = getattr(rg, name)
            args = (length, width, 5, 99) if name.startswith("player") else \
                   (length, width, 0.5, 5, 99)
            emit(cid + " " + name, call(fn, *args))
        emit(cid + " p1lr", call(rg.player_one_left_right_transitions, length, width, GOOD[0],
                                 4, 4))
        emit(cid + " rleft", call(rg.prob_robot_left_break_transitions, length, width, 0.5, 4))
        emit(cid + " rright", call(rg.prob_robot_right_break_transitions, length, width, 0.5, 4))
        emit(cid + " light", call(rg.prob_light_break_transitions, length, width, 0.5, 4, 8))
        emit(cid + " tile", call(rg.prob_tile_break_transitions, length, width, 0.5, GOOD[2],
                                 0, 77))
        emit(cid + " p2", call(rg.player_two_transitions, length, width, GOOD[0], 4, 8))
        emit(cid + " p1dlr", call(rg.player_one_down_left_right_transitions, length, width,
                                  GOOD[0], 4, 8, 12))

BAD_MOVES = [[[1, 0]], [[1], [2, 3]], [[1, 0], [2]], [], [[]], [[1, 0], [2, 4]], [[1, 0], [-1, 3]],
             [[1, 0], [2.0, 3]], [[1, 0], [None, 3]], [[1, 0], ["1", 3]], ((1, 0), (2, 3)),
             [[True, False], [2, 3]], [[1, 0], [2, 7]], [[3, 3], [3, 3]], None]
BAD_LOOSE = [[[0, 1]], [[0], [1, 0]], [], [[0, 1], [1, 2]], [[0, 1], [1, -1]],
             [[True, False], [False, True]], [[0, 1], [1, None]], [[0.0, 1.0], [1, 0]], None]
BAD_REWARDS = [[[3, 0]], [], [[3, 0], [1]], [[2.7, 0], [1, 2]], [["3", 0], [1, 2]],
               [[None, 0], [1, 2]], [[3, 0, 9], [1, 2, 9]], [[-1, 0], [1, 2]], None]
BAD_PROBS = [0, 1, None, "x", Fraction(1, 4), float("nan"), float("inf"), -0.5, 2, True]
for a, mv in enumerate(BAD_MOVES):
    file_case("mal moves %d" % a, "inputs/mal.py", rg.write_robots, "inputs/mal.py", 2, 2,
              mv, GOOD[1], GOOD[2], 0.1, 0.2, 0.3)
    stream_case("mal moves %d A" % a, rg.write_robot_A, 2, 2, mv, GOOD[1], GOOD[2], 0.1)
    stream_case("mal moves %d B" % a, rg.write_robot_B, 2, 2, mv, GOOD[1], GOOD[2], 0.1, 0.2)
    stream_case("mal moves %d C" % a, rg.write_robot_C, 2, 2, mv, GOOD[1], GOOD[2], 0.1, 0.2, 0.3)
    emit("mal moves %d create_sg" % a, call(sb.create_sg_from_board, mv, GOOD[1], GOOD[2],
                                            0.1, 0.2, 0.3))
    emit("mal moves %d p1lr" % a, call(rg.player_one_left_right_transitions, 2, 2, mv, 4, 4))
    emit("mal moves %d p1lr2" % a, call(rg.player_one_left_right_transitions, 2, 2, mv, 4, 8))
    emit("mal moves %d p1dlr" % a, call(rg.player_one_down_left_right_transitions, 2, 2, mv,
                                        4, 8, 12))
    emit("mal moves %d p2" % a, call(rg.player_two_transitions, 2, 2, mv, 4, 8))
for a, ls in enumerate(BAD_LOOSE):
    file_case("mal loose %d" % a, "inputs/mal.py", rg.write_robots, "inputs/mal.py", 2, 2,
              GOOD[0], GOOD[1], ls, 0.1, 0.2, 0.3)
    stream_case("mal loose %d A" % a, rg.write_robot_A, 2, 2, GOOD[0], GOOD[1], ls, 0.1)
    stream_case("mal loose %d C" % a, rg.write_robot_C, 2, 2, GOOD[0], GOOD[1], ls, 0.1, 0.2, 0.3)
    emit("mal loose %d tile" % a, call(rg.prob_tile_break_transitions, 2, 2, 0.5, ls, 0, 9))
for a, rw in enumerate(BAD_REWARDS):
    file_case("mal rewards %d" % a, "inputs/mal.py", rg.write_robots, "inputs/mal.py", 2, 2,
              GOOD[0], rw, GOOD[2], 0.1, 0.2, 0.3)
    stream_case("mal rewards %d B" % a, rg.write_robot_B, 2, 2, GOOD[0], rw, GOOD[2], 0.1, 0.2)
    emit("mal rewards %d create_sg" % a, call(sb.create_sg_from_board, GOOD[0], rw, GOOD[2],
                                              0.1, 0.2, 0.3))
NOLOOSE = [[0, 0], [0, 0]]
for pt in BAD_PROBS:
    for pr in BAD_PROBS:
        for pl in (0.3, None, "x", Fraction(2, 3)):
            for ls in (GOOD[2], NOLOOSE):
                cid = "mal probs %r %r %r %d" % (pt, pr, pl, ls is NOLOOSE)
                file_case(cid, "inputs/mal.py", rg.write_robots, "inputs/mal.py", 2, 2,
                          GOOD[0], GOOD[1], ls, pt, pr, pl)
    for length, width in ((0, 0), (0, 2), (2, 0), (1, 1)):
        emit("mal probs empty %r %d %d" % (pt, length, width), " ".join([
            call(rg.prob_tile_break_transitions, length, width, pt, GOOD[2], 0, 9),
            call(rg.prob_robot_down_break_transitions, length, width, pt, 0, 9),
            call(rg.prob_robot_left_break_transitions, length, width, pt, 0),
            call(rg.prob_robot_right_break_transitions, length, width, pt, 0),
            call(rg.prob_light_break_transitions, length, width, pt, 0, 4)]))
for off in (None, "s", 1.5, [1], (2,)):
    cid = "mal offset %r" % (off,)
    for length, width in ((2, 2), (0, 2), (2, 0), (1, 1)):
        emit(cid + " %d %d" % (length, width), " ".join([
            call(rg.player_two_transitions, length, width, GOOD[0], off, 4),
            call(rg.player_two_transitions, length, width, GOOD[0], 4, off),
            call(rg.player_one_down_transitions, length, width, off, 9),
            call(rg.player_one_down_transitions, length, width, off),
            call(rg.player_one_left_right_transitions, length, width, GOOD[0], off, 4),
            call(rg.player_one_left_right_transitions, length, width, GOOD[0], 4, off),
            call(rg.player_one_left_right_transitions, length, width, GOOD[0], off, off),
            call(rg.prob_tile_break_transitions, length, width, 0.5, GOOD[2], off, 9),
            call(rg.prob_robot_down_break_transitions, length, width, 0.5, off, 9),
            call(rg.prob_robot_left_break_transitions, length, width, 0.5, off),
            call(rg.prob_robot_right_break_transitions, length, width, 0.5, off),
            call(rg.player_one_down_left_right_transitions, length, width, GOOD[0], off, 4, 8),
            call(rg.player_one_down_left_right_transitions, length, width, GOOD[0], 0, off, 8),
            call(rg.player_one_down_left_right_transitions, length, width, GOOD[0], 0, 4, off),
            call(rg.prob_light_break_transitions, length, width, 0.5, off, 4),
            call(rg.prob_light_break_transitions, length, width, 0.5, 0, off)]))

# write_robots on an unwritable path: nothing is built, same exception
emit("mal path", call(rg.write_robots, "no_such_dir/x.py", 2, 2, GOOD[0], GOOD[1], GOOD[2],
                      0.1, 0.2, 0.3))

# ---------------------------------------------------------------------------
# 5. check_input, prob_to_str, main()
# ---------------------------------------------------------------------------
INTS = [-1, 0, 1, 3]
PR = [-0.1, 0, 0.0, 1e-300, 0.1, 0.5, 0.999999, 1, 1.0, 1.5, float("nan"), float("inf"),
      float("-inf"), True, False, Fraction(1, 2)]
base = dict(seed=0, width=3, length=3, prob_robot_break=0.1, prob_light_break=0.1,
            prob_loose_tile=0.3, prob_tile_break=0.1, max_reward=6)
for key in base:
    for v in (INTS + [None, "3", 2.5] if key in ("seed", "width", "length", "max_reward")
              else PR + [None, "0.5"]):
        kw = dict(base)
        kw[key] = v
        emit("check_input %s=%r" % (key, v), call(rg.check_input, **kw))
for k in range(1500):
    kw = dict(seed=rnd.choice(INTS), width=rnd.choice(INTS), length=rnd.choice(INTS),
              prob_robot_break=rnd.choice(PR), prob_light_break=rnd.choice(PR),
              prob_loose_tile=rnd.choice(PR), prob_tile_break=rnd.choice(PR),
              max_reward=rnd.choice(INTS))
    emit("check_input rnd%d %r" % (k, sorted(kw.items())), call(rg.check_input, **kw))
for v in PR + [0.005, 0.015, 0.025, 0.125, 0.994999, 0.995, 0.33, 0.05, None, "x"]:
    emit("prob_to_str %r" % (v,), call(rg.prob_to_str, v))


def run_main(argv):
    for f in os.listdir("inputs"):
        os.remove(os.path.join("inputs", f))
    old = sys.argv
    sys.argv = ["roberta_generator.py"] + argv
    err, outp = io.StringIO(), io.StringIO()
    try:
        with contextlib.redirect_stderr(err), contextlib.redirect_stdout(outp):
            res = call(rg.main)
    finally:
        sys.argv = old
    gc.collect()
    names = sorted(os.listdir("inputs"))
    return (res + " | " + " ".join(f + "=" + digest(slurp(os.path.join("inputs", f)))
                                   for f in names) +
            " | out=" + digest(outp.getvalue()) + " err=" + digest(err.getvalue()))


MAIN_FIXED = [[], ["-h"], ["-f"], ["-w", "1"], ["-l", "1"], ["-w", "1", "-l", "1"],
              ["-w", "1", "-l", "5", "-f"], ["-w", "0"], ["-l", "0"], ["-s", "-1"], ["-m", "0"],
              ["-p", "0"], ["-p", "1"], ["-q", "0"], ["-q", "1.0"], ["-r", "0"], ["-r", "1"],
              ["-t", "0"], ["-t", "1"], ["-t", "nan"], ["-r", "nan"], ["-p", "nan"],
              ["-q", "inf"], ["-w", "x"], ["--bogus"], ["-p", "abc"], ["-m", "2000", "-w", "2"],
              ["-s", "47", "-w", "5", "-l", "5", "-f"], ["-s", "47", "-w", "5", "-l", "5"],
              ["-s", "999132423", "-p", "0.01", "-q", "0.02"],
              ["-p", "0.005"], ["-p", "0.015"], ["-r", "0.994999"], ["-t", "0.999"]]
for argv in MAIN_FIXED:
    emit("main %r" % (argv,), run_main(argv))
for k in range(250):
    argv = ["-s", str(rnd.randrange(0, 10 ** 5)),
            "-w", str(rnd.choice([1, 1, 2, 3, 4, 6])), "-l", str(rnd.choice([1, 1, 2, 3, 4, 6])),
            "-p", repr(rnd_prob()), "-q", repr(rnd_prob()), "-r", repr(rnd_prob()),
            "-t", repr(rnd_prob()), "-m", str(rnd.choice([1, 3, 6, 12]))]
    if k % 2:
        argv.append("-f")
    emit("main rnd%d %r" % (k, argv), run_main(argv))

emit("END", "done")
'''


def run_worker(script, tree, workdir):
    env = dict(os.environ)
    env["PYTHONHASHSEED"] = "0"
    env["PYTHONDONTWRITEBYTECODE"] = "1"
    env.pop("PYTHONPATH", None)
    return subprocess.Popen([sys.executable, "-B", script, os.path.abspath(tree), workdir],
                            stdout=subprocess.PIPE, stderr=subprocess.PIPE, env=env,
                            cwd=workdir)


def main():
    if len(sys.argv) != 3:
        print("usage: python equiv.py <clean_repo_dir> <patched_repo_dir>")
        return 2
    with tempfile.TemporaryDirectory(prefix="equiv_F08_") as tmp:
        script = os.path.join(tmp, "worker.py")
        with open(script, "w") as f:
            f.write(WORKER)
        procs = []
        for tag, tree in (("clean", sys.argv[1]), ("patched", sys.argv[2])):
            work = os.path.join(tmp, tag)
            os.makedirs(work)
            procs.append((tag, run_worker(script, tree, work)))
        results = {}
        for tag, p in procs:
            try:
                out, err = p.communicate(timeout=110)
            except subprocess.TimeoutExpired:
                p.kill()
                print("DIFFERENT: worker for the %s tree timed out" % tag)
                return 1
            results[tag] = (p.returncode, out.decode("utf-8", "replace").splitlines(),
                            err.decode("utf-8", "replace"))
    for tag in ("clean", "patched"):
        rc, lines, err = results[tag]
        if rc != 0 or not lines or lines[-1] != "END\tdone":
            print("DIFFERENT: worker for the %s tree did not finish (exit %s)" % (tag, rc))
            print(err[-3000:])
            return 1
    a, b = results["clean"][1], results["patched"][1]
    for k, (x, y) in enumerate(zip(a, b)):
        if x != y:
            print("DIFFERENT at case #%d" % k)
            print("  clean  : " + x[:2000])
            print("  patched: " + y[:2000])
            return 1
    if len(a) != len(b):
        print("DIFFERENT: number of cases %d vs %d" % (len(a), len(b)))
        return 1
    sys.stderr.write("%d cases compared\n" % len(a))
    print("SAME")
    return 0


if __name__ == "__main__":
    sys.exit(main())
