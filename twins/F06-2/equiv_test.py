#!/usr/bin/env python
"""
Equivalence test for property C06 ("every well-formed stopping game is solved
or declared unsolvable").

usage: python equiv_test.py <path-to-patched-root> <path-to-clean-root>

The same deterministic corpus of games is solved by the two trees, each tree in
its own subprocess (the module names are the same, so they cannot share an
interpreter).  For every game and both pruning modes the worker records

  * the outcome of StochasticGame.solve(): the full returned tuple, value by
    value with repr() (so 1 and 1.0 or a last-bit float difference count), or
    the exception type and message, or TIMEOUT when a wall-clock bound hits;
  * that solve() left the caller's transition_list untouched;
  * lower-level observations on the anchored code: reverse_dfs, the solver
    steps run one by one on a hand-built state list (iteration counts, reach
    probabilities, next_states after every pruning step), Solver with unusual
    thresholds (including >= 1: zero iterations), node level prune_paths;
  * the DEBUG log stream of complete solves (order of the messages);
  * run_games() results (msg for every entry, everything but total_time) and
    the report written by save_results_to_file (minus the 'Total time' lines),
    also for twenty of the repository's own input files;
  * one Solver object reused for several total-rewards iterations with the reach
    probabilities and Player 2's transitions changed in between (nothing may be
    remembered from one call to the next).

The parent compares the two record lists entry by entry; PASS / exit 0 when
they are identical, FAIL / exit 1 otherwise.
"""
import json
import os
import pickle
import random
import subprocess
import sys
import tempfile

P1, P2, PR = "Player 1", "Player 2", "Probabilistic"
SOLVE_TIMEOUT = 5          # seconds, per solve
N_RANDOM = 700             # random well-formed stopping games
REPO_INPUTS = [
    "example_17_08.py", "example_games.py", "paper_games.py", "manual_1_game_a.py",
    "manual_arrow_bottom.py", "manual_robot_Roborta_1_w4_l4_r5_rb10_lb10_tb10_.py",
    "manual_robot_arrow_down_w4_l4_r5_rb10_lb10_tb10_force_down.py",
    "robot_1_w1_l2_r6_rb10_lb5_tb10_lt0.py", "robot_1_w2_l1_r6_rb10_lb5_tb10_lt0.py",
    "robot_1_w2_l2_r6_rb10_lb5_tb10_lt0.py", "robot_40_w5_l5_r6_rb10_lb10_tb10_lt30_force_down.py",
    "robot_47_w5_l5_r6_rb10_lb10_tb10_lt30.py", "robot_47_w5_l5_r6_rb10_lb10_tb10_lt30_force_down.py",
    "robot_47_w10_l5_r6_rb10_lb10_tb10_lt30.py", "robot_47_w10_l5_r6_rb10_lb10_tb10_lt30_force_down.py",
    "robot_999132423_w3_l3_r6_rb1_lb2_tb10_lt30.py",
    "robot_999132423_w3_l3_r6_rb1_lb2_tb10_lt30_force_down.py",
    "robot_manual_0_w4_l4_r6_rb10_lb5_tb10_lt30.py", "robot_manual_1_w4_l4_r6_rb10_lb5_tb10_lt30.py",
    "robot_manual_2_w4_l4_r6_rb10_lb5_tb10_lt30.py",
]


# --------------------------------------------------------------------------- corpus

def _probabilities(rng, k):
    style = rng.random()
    if k == 1:
        return [rng.choice([1, 1.0])]
    if style < 0.35:                       # dyadic, exact
        cuts = sorted(rng.sample(range(1, 16), k - 1))
        parts = [b - a for a, b in zip([0] + cuts, cuts + [16])]
        return [p / 16 for p in parts]
    if style < 0.5:                        # uniform thirds etc (inexact sums)
        return [1 / k] * k
    if style < 0.65:                       # tiny / near-1
        eps = rng.choice([1e-9, 1e-6, 1e-3])
        rest = [eps] * (k - 1)
        return [1 - sum(rest)] + rest
    raw = [rng.random() + 1e-3 for _ in range(k)]
    total = sum(raw)
    return [r / total for r in raw]


def random_game(rng):
    """
    A well-formed stopping game.  The last `n_term` states are absorbing with
    reward 0.  Player states only move to higher indexes; probabilistic states
    may move anywhere (self loops, back edges) but keep at least one transition
    to a higher index, so under every pair of strategies an absorbing state is
    reached with probability one.  Only some absorbing states are final, hence
    dead states, dead branches and possibly a dead initial state.
    """
    n_term = rng.randint(1, 3)
    n_inner = rng.choice([0, 1, 1, 2, 3, 4, 5, 6, 8, 10, 14])
    n = n_inner + n_term
    players, transitions, rewards = [], [], []
    p_weights = rng.choice([(1, 1, 1), (1, 1, 3), (3, 1, 1), (1, 3, 1), (0, 0, 1), (1, 1, 0)])
    for i in range(n_inner):
        player = rng.choices([P1, P2, PR], weights=p_weights)[0]
        higher = list(range(i + 1, n))
        if player == PR:
            k = rng.randint(1, 4)
            targets = [rng.choice(higher)]
            pool = list(range(n)) if rng.random() < 0.7 else higher
            if rng.random() < 0.3:
                pool = pool + [i, i]           # favour self loops
            while len(targets) < k:
                targets.append(rng.choice(pool))
            probabilities = _probabilities(rng, k)
            if max(probabilities) < 0.99:
                rng.shuffle(targets)
            # else: the near-1 branch is the one to a higher index (probabilities[0]),
            # otherwise convergence needs ~1e9 sweeps: legitimate, but not testable
            trans = list(zip(probabilities, targets))
        else:
            k = rng.randint(1, 3)
            names = rng.sample(["alfa", "beta", "gamma", "delta", " "], k)
            trans = [(name, rng.choice(higher)) for name in names]
        players.append(player)
        transitions.append(trans)
        r = rng.random()
        rewards.append(0 if r < 0.3 else rng.randint(1, 10) if r < 0.8
                       else rng.choice([0.5, 5 / 3, 11 / 6, 10 ** 6, 10 ** 25, 1e-7]))
    for t in range(n_inner, n):
        player = rng.choice([P1, P2, PR, PR])
        players.append(player)
        transitions.append([(rng.choice([1, 1.0]), t)] if player == PR else [("stay", t)])
        rewards.append(0)
    terminals = list(range(n_inner, n))
    finals = rng.sample(terminals, rng.randint(1, len(terminals)))
    if rng.random() < 0.1:
        finals = finals + [finals[0]]          # duplicated final state
    return {"rewards": rewards, "players": players,
            "transition_list": transitions, "final_states": finals}


def handmade_games():
    games = {}
    # single state, final
    games["one_final"] = dict(rewards=[0], players=[PR], transition_list=[[(1, 0)]], final_states=[0])
    games["one_final_p1"] = dict(rewards=[0], players=[P1], transition_list=[[("a", 0)]], final_states=[0])
    # initial state is an absorbing non-final state: no solution when pruning
    games["init_dead_terminal"] = dict(rewards=[0, 0], players=[PR, PR],
                                       transition_list=[[(1, 0)], [(1, 1)]], final_states=[1])
    # initial state cannot reach the final state
    games["init_cannot_reach"] = dict(
        rewards=[3, 2, 0, 0], players=[P1, PR, PR, PR],
        transition_list=[[("a", 1)], [(0.5, 1), (0.5, 2)], [(1, 2)], [(1, 3)]], final_states=[3])
    # Player 2 forces the play away from the final state
    games["p2_forces_away"] = dict(
        rewards=[1, 4, 0, 0], players=[P2, PR, PR, PR],
        transition_list=[[("good", 1), ("bad", 2)], [(0.5, 3), (0.5, 2)], [(1, 2)], [(1, 3)]],
        final_states=[3])
    games["p2_forces_away_deep"] = dict(
        rewards=[1, 1, 4, 0, 0], players=[P1, P2, PR, PR, PR],
        transition_list=[[("x", 1)], [("good", 2), ("bad", 3)], [(0.5, 4), (0.5, 3)], [(1, 3)], [(1, 4)]],
        final_states=[4])
    # two separated dead successors of a probabilistic state
    games["two_separated_dead"] = dict(
        rewards=[2, 0, 0, 0, 0], players=[PR, PR, PR, PR, PR],
        transition_list=[[(0.25, 1), (0.25, 2), (0.25, 3), (0.25, 4)],
                         [(1, 1)], [(1, 2)], [(1, 3)], [(1, 4)]],
        final_states=[2, 4])
    # two adjacent dead successors on a rewarded self loop
    games["two_adjacent_dead_self_loop"] = dict(
        rewards=[5, 0, 0, 0], players=[PR, PR, PR, PR],
        transition_list=[[(0.25, 0), (0.25, 1), (0.25, 2), (0.25, 3)],
                         [(1, 1)], [(1, 2)], [(1, 3)]],
        final_states=[3])
    games["three_dead_mixed_self_loop"] = dict(
        rewards=[5, 7, 0, 0, 0, 0], players=[P1, PR, PR, PR, PR, PR],
        transition_list=[[("go", 1)],
                         [(0.1, 2), (0.2, 1), (0.1, 3), (0.3, 5), (0.2, 4), (0.1, 2)],
                         [(1, 2)], [(1, 3)], [(1, 4)], [(1, 5)]],
        final_states=[5])
    # every successor of an inner probabilistic state is dead
    games["inner_all_dead"] = dict(
        rewards=[1, 9, 0, 0, 0], players=[PR, PR, PR, PR, PR],
        transition_list=[[(0.5, 1), (0.5, 4)], [(0.5, 1), (0.25, 2), (0.25, 3)],
                         [(1, 2)], [(1, 3)], [(1, 4)]],
        final_states=[4])
    # dead cycle with rewards between probabilistic states
    games["dead_rewarded_cycle"] = dict(
        rewards=[1, 3, 4, 0, 0], players=[PR, PR, PR, PR, PR],
        transition_list=[[(0.5, 1), (0.5, 4)], [(0.5, 2), (0.5, 3)], [(0.5, 1), (0.5, 3)],
                         [(1, 3)], [(1, 4)]],
        final_states=[4])
    # Player 1 with dead and live actions, ties between actions
    games["p1_ties_and_dead"] = dict(
        rewards=[0, 2, 2, 7, 0, 0], players=[P1, PR, PR, PR, PR, PR],
        transition_list=[[("a", 1), ("b", 2), ("c", 3)],
                         [(0.5, 4), (0.5, 5)], [(0.5, 5), (0.5, 4)], [(1, 4)],
                         [(1, 4)], [(1, 5)]],
        final_states=[5])
    # Player 2 with ties
    games["p2_ties"] = dict(
        rewards=[0, 2, 3, 0, 0], players=[P2, PR, PR, PR, PR],
        transition_list=[[("a", 1), ("b", 2)], [(0.5, 3), (0.5, 4)], [(0.5, 4), (0.5, 3)],
                         [(1, 3)], [(1, 4)]],
        final_states=[4])
    # several finals, all terminals final: nothing is dead
    games["nothing_dead"] = dict(
        rewards=[1, 1, 0, 0], players=[P1, PR, PR, PR],
        transition_list=[[("a", 1), ("b", 2)], [(0.5, 0 + 1), (0.25, 2), (0.25, 3)], [(1, 2)], [(1, 3)]],
        final_states=[2, 3])
    # long chain (search depth, many iterations)
    n = 400
    games["long_chain"] = dict(
        rewards=[1] * (n - 1) + [0], players=[PR] * n,
        transition_list=[[(1, i + 1)] for i in range(n - 1)] + [[(1, n - 1)]],
        final_states=[n - 1])
    games["long_chain_dead_tail"] = dict(
        rewards=[1] * (n - 2) + [0, 0], players=[PR] * n,
        transition_list=[[(0.5, i + 1), (0.5, n - 2)] for i in range(n - 2)] + [[(1, n - 2)], [(1, n - 1)]],
        final_states=[n - 1])
    # slow geometric convergence
    games["slow_self_loop"] = dict(
        rewards=[1, 0, 0], players=[PR, PR, PR],
        transition_list=[[(0.99, 0), (0.005, 1), (0.005, 2)], [(1, 1)], [(1, 2)]],
        final_states=[2])
    # unreachable Player 1 / Player 2 states (prune_states loop)
    games["unreachable_states"] = dict(
        rewards=[1, 2, 3, 4, 0, 0], players=[PR, P2, P1, PR, PR, PR],
        transition_list=[[(0.5, 4), (0.5, 5)], [("a", 2), ("b", 4)], [("c", 3), ("d", 4)],
                         [(0.5, 4), (0.5, 5)], [(1, 4)], [(1, 5)]],
        final_states=[5])
    # malformed / borderline descriptions: both trees must fail the same way
    games["bad_no_finals"] = dict(rewards=[0, 0], players=[PR, PR],
                                  transition_list=[[(1, 1)], [(1, 1)]], final_states=[])
    games["bad_missing_transitions"] = dict(rewards=[0, 0], players=[PR, PR],
                                            transition_list=[[(1, 1)], []], final_states=[1])
    games["bad_final_out_of_range"] = dict(rewards=[0, 0], players=[PR, PR],
                                           transition_list=[[(1, 1)], [(1, 1)]], final_states=[2])
    games["bad_negative_reward"] = dict(rewards=[-1, 0], players=[PR, PR],
                                        transition_list=[[(1, 1)], [(1, 1)]], final_states=[1])
    games["bad_player"] = dict(rewards=[0, 0], players=[PR, "Player 3"],
                               transition_list=[[(1, 1)], [(1, 1)]], final_states=[1])
    games["bad_target"] = dict(rewards=[0, 0], players=[PR, PR],
                               transition_list=[[(1, 2)], [(1, 1)]], final_states=[1])
    games["empty"] = dict(rewards=[], players=[], transition_list=[], final_states=[0])
    return games


def build_corpus():
    rng = random.Random(60606)
    games = handmade_games()
    for k in range(N_RANDOM):
        games[f"rnd_{k:04d}"] = random_game(rng)
    return games


# --------------------------------------------------------------------------- worker

def worker(root, corpus_file, out_file):
    import copy
    import io
    import logging
    import signal

    root = os.path.abspath(root)
    sys.path.insert(0, root)
    workdir = tempfile.mkdtemp(prefix="c06_work_")
    os.makedirs(os.path.join(workdir, "outputs"))
    os.chdir(workdir)

    import tad
    import reverse_dfs as rdfs
    import conditionalrewards as cr
    for module in (tad, rdfs, cr):
        assert os.path.abspath(module.__file__).startswith(root + os.sep), module.__file__

    with open(corpus_file, "rb") as f:
        games = pickle.load(f)

    class Timeout(BaseException):
        pass

    def on_alarm(signum, frame):
        raise Timeout()
    signal.signal(signal.SIGALRM, on_alarm)

    def guarded(fn, seconds=SOLVE_TIMEOUT):
        signal.alarm(seconds)
        try:
            return "OK", fn()
        except Timeout:
            return "TIMEOUT", None
        except BaseException as e:          # noqa: any stray error is an observation
            return "EXC", f"{type(e).__name__}: {e}"
        finally:
            signal.alarm(0)

    def nodes_state(state_list):
        return [(type(s).__name__, s.idx, repr(s.next_states), repr(s.reach_probability),
                 repr(s.expected_rewards), repr(s.expected_rewards_min_reach),
                 repr(s.expected_reach_min_rewards)) for s in state_list]

    records = []

    def rec(key, value):
        records.append([key, repr(value)])

    # 1. full solves, both pruning modes
    for name, game in games.items():
        for prune in (True, False):
            desc = copy.deepcopy(game)
            before = repr(desc)
            sgame = tad.StochasticGame(prune_states=prune, **desc)
            status, value = guarded(sgame.solve)
            if status == "OK":
                value = [repr(v) for v in value]
            rec(f"solve/{name}/prune={prune}", (status, value))
            rec(f"untouched/{name}/prune={prune}", repr(desc) == before)

    # 2. the solver, step by step, and with unusual thresholds
    well_formed = [n for n in games if not n.startswith(("bad_", "empty"))]
    for name in well_formed:
        game = games[name]
        for threshold in (10 ** (-6), 1e-3, 1e-12, 0.5, 1, 7):
            if threshold != 10 ** (-6) and not name.endswith(("0", "5", "dead", "loop")):
                continue

            def stepwise():
                out = []
                sgame = tad.StochasticGame(prune_states=True, **copy.deepcopy(game))
                sgame.check_game()
                state_list = sgame.init_states()
                solver = tad.Solver(threshold=threshold, state_list=state_list)
                reaching = rdfs.reverse_dfs(game["transition_list"], game["final_states"])
                out.append(("reverse_dfs", repr(reaching)))
                try:
                    n_it = solver.value_iteration_reachability(reaching, True)
                    out.append(("reach_iterations", n_it))
                except ValueError as e:
                    out.append(("reach_error", str(e)))
                out.append(("after_reach", nodes_state(state_list)))
                out.append(("no_prune_check", solver.value_iteration_reachability(reaching, False)))
                strategies = solver._get_reachability_strategies()
                out.append(("strategies", repr(strategies)))
                solver.prune_reachability(strategies)
                out.append(("after_prune_reachability", nodes_state(state_list)))
                solver.prune_paths()
                out.append(("after_prune_paths", nodes_state(state_list)))
                solver.prune_states()
                out.append(("after_prune_states", nodes_state(state_list)))
                out.append(("rewards_iterations", solver.value_iteration_total_rewards()))
                out.append(("after_rewards", nodes_state(state_list)))
                out.append(("final_strategies", repr(solver._get_total_rewards_strategies())))
                return out
            rec(f"stepwise/{name}/thr={threshold}", guarded(stepwise))

    # 3. node level pruning on explicit reach probabilities (zeros everywhere / nowhere / mixed)
    rng = random.Random(777)
    for case in range(300):
        n = rng.randint(1, 7)
        k = rng.randint(1, 6)
        targets = [rng.randrange(n) for _ in range(k)]
        reach = [rng.choice([0, 0, 0.0, 0.25, 1, 1e-300, -0.0]) for _ in range(n)]
        holders = [tad.ProbabilisticNode(PR, i, 0, [(1, i)], n, False) for i in range(n)]
        for h, r in zip(holders, reach):
            h.reach_probability = r
        prob_node = tad.ProbabilisticNode(PR, 0, 1, list(zip(_probabilities(rng, k), targets)), n, False)
        p1_node = tad.PlayerOne(P1, 0, 1, [(f"a{j}", t) for j, t in enumerate(targets)], n)
        for node in (prob_node, p1_node):
            given = node.next_states
            status = guarded(lambda: node.prune_paths(holders))
            rec(f"node_prune/{case}/{type(node).__name__}",
                (status, repr(node.next_states), node.next_states is given))

    # 4. reverse_dfs on its own (also shapes the solver never sends: unsorted / duplicated finals)
    for name in well_formed:
        game = games[name]
        tl, finals = game["transition_list"], game["final_states"]
        variants = [finals, list(reversed(finals)), finals + finals, list(range(len(tl)))]
        for j, f in enumerate(variants):
            rec(f"reverse_dfs/{name}/{j}", guarded(lambda: rdfs.reverse_dfs(copy.deepcopy(tl), list(f))))
        rec(f"reverse_transition_list/{name}",
            guarded(lambda: sorted(rdfs.reverse_transition_list(tl).items())))

    # 5. DEBUG log stream of complete solves
    stream = io.StringIO()
    handler = logging.StreamHandler(stream)
    handler.setFormatter(logging.Formatter("%(levelname)s|%(message)s"))
    root_logger = logging.getLogger()
    old_level = root_logger.level
    root_logger.addHandler(handler)
    root_logger.setLevel(logging.DEBUG)
    for name in [n for n in well_formed if n.startswith("rnd_00") or not n.startswith("rnd_")]:
        if name.startswith("long_chain"):
            continue
        for prune in (True, False):
            stream.seek(0)
            stream.truncate()
            sgame = tad.StochasticGame(prune_states=prune, **copy.deepcopy(games[name]))
            status, _ = guarded(sgame.solve)
            rec(f"debuglog/{name}/prune={prune}", (status, stream.getvalue()))
    root_logger.removeHandler(handler)
    root_logger.setLevel(old_level)

    # 6. the driver: run_games + report file
    names = list(games)
    for start in range(0, len(names), 40):
        batch = {n: copy.deepcopy(games[n]) for n in names[start:start + 40]
                 if not n.startswith(("bad_target", "bad_missing", "empty"))}

        def drive():
            results = cr.run_games(batch)
            for entry in results.values():
                entry.pop("total_time")
            return results
        status, results = guarded(drive)
        if status == "OK":
            for rname, entry in results.items():
                rec(f"run_games/{rname}", sorted((k, repr(v)) for k, v in entry.items()))
            for entry in results.values():
                entry["total_time"] = 0
            status2 = guarded(lambda: cr.save_results_to_file(results, f"inputs/batch_{start}.py"))
            with open(os.path.join("outputs", f"batch_{start}.txt")) as f:
                text = "".join(line for line in f if not line.startswith("Total time"))
            rec(f"report/{start}", (status2, text))
        else:
            rec(f"run_games_batch/{start}", (status, results))

    # 7. one Solver object used several times: nothing computed in one call to
    #    value_iteration_total_rewards may leak into the next one
    rng = random.Random(4242)
    for name in well_formed:
        if name.startswith("long_chain"):
            continue
        game = games[name]
        reach_choices = [0, 0, 0.5, 1, 0.25, 1.0000004, 1.000002, 0.4999996, 0.5000004]
        new_reach = [rng.choice(reach_choices) for _ in game["players"]]

        def reuse():
            out = []
            sgame = tad.StochasticGame(prune_states=False, **copy.deepcopy(game))
            state_list = sgame.init_states()
            solver = tad.Solver(state_list)
            out.append((solver.value_iteration_total_rewards(), nodes_state(state_list)))
            for state, r in zip(state_list, new_reach):      # other reach values, same solver
                state.reach_probability = r
                state.expected_reach_min_rewards = r
            out.append((solver.value_iteration_total_rewards(), nodes_state(state_list)))
            for state in state_list:                         # other transitions, same solver
                if isinstance(state, tad.PlayerTwo) and len(state.next_states) > 1:
                    state.next_states = state.next_states[1:]
            out.append((solver.value_iteration_total_rewards(), nodes_state(state_list)))
            out.append(repr(solver.solve_total_rewards()))
            # single steps of Player 2 states, called the old way
            for state in state_list:
                if isinstance(state, tad.PlayerTwo):
                    out.append(repr(state.value_iteration_rewards(state_list)))
            return out
        rec(f"solver_reuse/{name}", guarded(reuse))

    # 8. the repository's own input files (those that finish within seconds on HEAD)
    for fname in REPO_INPUTS:
        path = os.path.join(root, "inputs", fname)

        def drive_file():
            results = cr.run_games(cr.read_dict_from_file(path))
            for entry in results.values():
                entry.pop("total_time")
            return sorted((n, sorted((k, repr(v)) for k, v in e.items())) for n, e in results.items())
        rec(f"repo_input/{fname}", guarded(drive_file, seconds=120))

    with open(out_file, "w") as f:
        json.dump(records, f)


# --------------------------------------------------------------------------- parent

def run_tree(root, corpus_file, tmp, tag):
    out_file = os.path.join(tmp, f"records_{tag}.json")
    env = dict(os.environ, PYTHONDONTWRITEBYTECODE="1", PYTHONHASHSEED="0")
    proc = subprocess.run(
        [sys.executable, os.path.abspath(__file__), "--worker", root, corpus_file, out_file],
        env=env, stdout=subprocess.PIPE, stderr=subprocess.PIPE, text=True)
    if proc.returncode != 0:
        print(f"worker for {tag} tree failed:\n{proc.stderr[-4000:]}")
        return None
    with open(out_file) as f:
        return json.load(f)


def main():
    if len(sys.argv) == 5 and sys.argv[1] == "--worker":
        worker(sys.argv[2], sys.argv[3], sys.argv[4])
        return 0
    if len(sys.argv) != 3:
        print(__doc__)
        return 2
    patched_root, clean_root = sys.argv[1], sys.argv[2]
    tmp = tempfile.mkdtemp(prefix="c06_equiv_")
    corpus_file = os.path.join(tmp, "corpus.pkl")
    with open(corpus_file, "wb") as f:
        pickle.dump(build_corpus(), f)

    patched = run_tree(patched_root, corpus_file, tmp, "patched")
    clean = run_tree(clean_root, corpus_file, tmp, "clean")
    if patched is None or clean is None:
        print("FAIL")
        return 1

    differences = []
    if [k for k, _ in patched] != [k for k, _ in clean]:
        differences.append(("<record keys>", "differ", ""))
    for (key_p, val_p), (key_c, val_c) in zip(patched, clean):
        if key_p != key_c or val_p != val_c:
            differences.append((key_p, val_p[:600], val_c[:600]))

    solves = [(k, v) for k, v in clean if k.startswith("solve/")]
    summary = {
        "records": len(clean),
        "solves": len(solves),
        "solved": sum(1 for _, v in solves if v.startswith("('OK'")),
        "no_solution": sum(1 for _, v in solves if "The game has no solution" in v),
        "other_errors": sum(1 for _, v in solves if v.startswith("('EXC'") and "no solution" not in v),
        "timeouts": sum(1 for _, v in solves if v.startswith("('TIMEOUT'")),
    }
    print("clean tree summary:", summary)
    if differences:
        for key, val_p, val_c in differences[:15]:
            print(f"DIFF at {key}\n  patched: {val_p}\n  clean  : {val_c}")
        print(f"{len(differences)} differing records")
        print("FAIL")
        return 1
    print("PASS")
    return 0


if __name__ == "__main__":
    sys.exit(main())
