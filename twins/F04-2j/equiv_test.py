#!/usr/bin/env python
"""Behavioural equivalence check for property C04 (reachability strategies).

usage: python equiv_test.py <path-to-patched-root> <path-to-clean-root>

Each tree is loaded in its own subprocess (worker mode).  The worker builds a
deterministic battery of cases, evaluates them against the tree it was given
and prints one line per case: "<case id>\t<repr of the outcome>".  The parent
compares the two transcripts line by line; PASS / exit 0 when identical.

What is exercised
 * a few hundred random well-formed games (cycles through probabilistic
   states, several finals, dead states, duplicated targets and action names,
   ties), both pruning modes, observed at StochasticGame.solve() and at
   Solver.solve_reachability() for three thresholds (so that the reachability
   strategies are observed even if the total-rewards phase does not converge);
 * structured "tie" games: Player 1 / Player 2 states (1..6 actions) whose
   successors are gadgets with values equal as rationals but obtained through
   different float sums, values closer / further apart than the tolerance,
   all-zero successors;
 * direct calls of PlayerOne.get_best_strategies_reachability and
   PlayerTwo.get_worst_strategies_reachability on crafted value vectors
   (0, -0.0, ints, bools, nan, inf, negatives, >1, values straddling the
   rounding boundary) with several rounding precisions, empty successor lists,
   bad precisions (exception type + message are compared);
 * Solver.__init__ precision for many thresholds (and invalid ones);
 * Solver._get_reachability_strategies on hand made state lists (idx not equal
   to position, unknown player strings);
 * malformed games through solve();
 * conditionalrewards.run_games result dicts (minus wall clock time) and the
   report written by save_results_to_file for the small shipped inputs and
   for random games.

Every solve has a deterministic budget (a bound on the number of node
updates, identical for both trees) plus a wall clock back-stop.
"""
import math
import os
import random
import signal
import subprocess
import sys
import tempfile
import types

NODE_UPDATE_BUDGET = 12000
WORKER_WALL_CLOCK = 85


# --------------------------------------------------------------------------
# worker side
# --------------------------------------------------------------------------
class Budget(Exception):
    pass


class Counter:
    def __init__(self):
        self.left = 0

    def reset(self, n=NODE_UPDATE_BUDGET):
        self.left = n

    def tick(self):
        self.left -= 1
        if self.left < 0:
            raise Budget("node update budget exhausted")


COUNTER = Counter()


def install_budget(tad):
    """Count node updates; the count does not depend on the code under study."""
    for cls_name in ("ProbabilisticNode", "PlayerOne", "PlayerTwo"):
        cls = getattr(tad, cls_name)
        for meth in ("value_iteration_reach", "value_iteration_rewards"):
            if meth in cls.__dict__:
                original = cls.__dict__[meth]

                def wrapped(self, state_list, _original=original):
                    COUNTER.tick()
                    return _original(self, state_list)
                setattr(cls, meth, wrapped)


def outcome(fn):
    try:
        return repr(fn())
    except Budget:
        return "BUDGET"
    except Exception as e:  # noqa: BLE001 - type and message are the observation
        return f"EXC {type(e).__name__}: {e}"


P1, P2, PR = "Player 1", "Player 2", "Probabilistic"

PARTITIONS = [
    [1], [1.0], [0.5, 0.5], [0.25, 0.75], [0.1, 0.9], [0.3, 0.7], [0.6, 0.4],
    [0.1, 0.2, 0.7], [0.3, 0.3, 0.4], [1 / 3, 1 / 3, 1 / 3], [0.2, 0.2, 0.6],
    [0.25, 0.25, 0.25, 0.25], [0.1, 0.2, 0.3, 0.4], [0.125, 0.375, 0.5],
    [1 / 7, 2 / 7, 4 / 7], [0.01, 0.99], [0.999999, 0.000001], [0.05, 0.15, 0.8],
]


def random_game(rng):
    n = rng.randint(2, 10)
    n_final = rng.randint(1, min(3, n - 1))
    finals = rng.sample(range(1, n), n_final) if rng.random() < 0.9 else \
        rng.sample(range(n), n_final)
    n_dead = rng.randint(0, 2)
    dead = [s for s in rng.sample(range(1, n), min(n_dead, n - 1)) if s not in finals]
    weights = rng.choice([(1, 1, 1), (3, 1, 1), (1, 3, 1), (1, 1, 3), (2, 2, 1)])
    players, transitions, rewards = [], [], []
    for s in range(n):
        if (s in finals and rng.random() < 0.8) or s in dead:
            players.append(PR)
            transitions.append([(rng.choice([1, 1.0]), s)])
            rewards.append(0 if rng.random() < 0.8 else rng.randint(0, 3))
            continue
        player = rng.choices([P1, P2, PR], weights)[0]
        players.append(player)
        rewards.append(rng.choice([0, 0, 1, 2, 5]))
        if player == PR:
            part = list(rng.choice(PARTITIONS))
            rng.shuffle(part)
            transitions.append([(p, rng.randrange(n)) for p in part])
        else:
            k = rng.choice([1, 2, 2, 3, 3, 4, 5])
            names = [f"a{j}" for j in range(k)]
            if rng.random() < 0.1 and k > 1:
                names[-1] = names[0]  # duplicated action name
            transitions.append([(nm, rng.randrange(n)) for nm in names])
    return {"rewards": rewards, "players": players,
            "transition_list": transitions, "final_states": finals}


EPS = [0.0, 1e-7, 4e-7, 6e-7, 1e-6, 2e-6, 1e-5, -1e-7, -6e-7, -2e-6]


def tie_game(rng):
    """State 0 (and maybe state 1) are player states choosing between gadgets
    whose values come from a small pool: many exact and near ties."""
    good, bad = 1, 2
    players = [None, PR, PR]
    trans = [None, [(1, good)], [(1, bad)]]

    def add(player, tl):
        players.append(player)
        trans.append(tl)
        return len(players) - 1

    def gadget():
        kind = rng.randrange(12)
        if kind == 0:
            return add(PR, [(0.1, good), (0.2, good), (0.3, good), (0.4, bad)])
        if kind == 1:
            return add(PR, [(0.6, good), (0.4, bad)])
        if kind == 2:
            return add(PR, [(0.3, good), (0.4, bad), (0.3, good)])
        if kind == 3:
            return add(PR, [(0.4, bad), (0.2, good), (0.2, good), (0.2, good)])
        if kind == 4:  # cycle: value 0.3/0.5 = 0.6 in the limit
            idx = add(PR, None)
            trans[idx] = [(0.3, good), (0.5, idx), (0.2, bad)]
            return idx
        if kind == 5:  # two step: 0.75 * 0.8 = 0.6
            inner = add(PR, [(0.8, good), (0.2, bad)])
            return add(PR, [(0.75, inner), (0.25, bad)])
        if kind == 6:
            e = rng.choice(EPS)
            return add(PR, [(0.6 + e, good), (0.4 - e, bad)])
        if kind == 7:
            return bad
        if kind == 8:
            return good
        if kind == 9:  # dead through a chain
            return add(PR, [(0.5, bad), (0.5, bad)])
        if kind == 10:
            e = rng.choice(EPS)
            return add(PR, [(1 / 3 + e, good), (2 / 3 - e, bad)])
        idx = add(PR, None)  # cycle with value 1/3: 0.2 / 0.6
        trans[idx] = [(0.2, good), (0.4, idx), (0.4, bad)]
        return idx

    def chooser(player, allow_nested=True):
        k = rng.choice([1, 2, 3, 3, 4, 5, 6])
        idx = add(player, None)
        targets = []
        for _ in range(k):
            if allow_nested and rng.random() < 0.2:
                targets.append(chooser(rng.choice([P1, P2]), False))
            else:
                targets.append(gadget())
        trans[idx] = [(f"act{j}", t) for j, t in enumerate(targets)]
        return idx

    first = rng.choice([P1, P2, PR])
    if first == PR:
        a = chooser(rng.choice([P1, P2]))
        b = chooser(rng.choice([P1, P2]))
        players[0], trans[0] = PR, [(0.5, a), (0.5, b)]
    else:
        k = rng.choice([1, 2, 3, 4, 5])
        targets = [chooser(rng.choice([P1, P2])) if rng.random() < 0.3 else gadget()
                   for _ in range(k)]
        players[0], trans[0] = first, [(f"top{j}", t) for j, t in enumerate(targets)]
    n = len(players)
    rewards = [0] * n
    if rng.random() < 0.5:
        for s in range(3, n):
            rewards[s] = rng.choice([0, 1, 2])
    return {"rewards": rewards, "players": players,
            "transition_list": trans, "final_states": [good]}


def solve_case(tad, game, prune):
    import copy
    g = copy.deepcopy(game)
    COUNTER.reset()
    return tad.StochasticGame(prune_states=prune, **g).solve()


def reach_case(tad, game, prune, threshold):
    import copy
    g = copy.deepcopy(game)
    sg = tad.StochasticGame(prune_states=prune, **g)
    sg.check_game()
    state_list = sg.init_states()
    solver = tad.Solver(state_list=state_list, threshold=threshold)
    COUNTER.reset()
    strategies, iters = solver.solve_reachability(
        sg.transition_list, sg.final_states, sg.prune_states)
    return (solver.floor, strategies, iters,
            [s.reach_probability for s in state_list])


VALUES = [0, 0.0, -0.0, 1, 1.0, True, False, 0.6, 0.6000000000000001, 0.1 + 0.2, 0.3,
          0.30000004, 0.3000004, 0.3000005, 0.3000015, 0.29999951, 0.9999995,
          0.9999996, 0.99999949, 1.0000004, 1.0000006, 1.2, -0.1, -1e-9, 1e-9,
          4e-7, 5e-7, 5.000001e-7, 6e-7, float("nan"), float("inf"), float("-inf"),
          2, 10 ** 20, 0.5, 0.25, 2 / 3, 0.6666666666666666, 0.6666667, 0.66666674]
FLOORS = [6, 6, 6, 0, 1, 3, 7, 12, -1, None]


def direct_cases(tad, rng, emit):
    def run(cls_name, meth, values, floor, names=None):
        n = len(values)
        cls = getattr(tad, cls_name)
        player = P1 if cls_name == "PlayerOne" else P2
        names = names or [f"a{j}" for j in range(n)]
        node = cls(player=player, idx=0, reward=0,
                   next_states=[(names[j], j + 1) for j in range(n)],
                   num_states=n + 1, is_final_node=False)
        states = [node] + [types.SimpleNamespace(reach_probability=v) for v in values]
        before = list(node.next_states)
        res = getattr(node, meth)(states, floor)
        assert node.next_states == before
        return res, type(res).__name__

    pairs = [("PlayerOne", "get_best_strategies_reachability"),
             ("PlayerTwo", "get_worst_strategies_reachability")]
    i = 0
    for cls_name, meth in pairs:
        emit(f"direct/{cls_name}/empty", outcome(lambda: run(cls_name, meth, [], 6)))
        for v in VALUES:
            emit(f"direct/{cls_name}/single/{v!r}",
                 outcome(lambda: run(cls_name, meth, [v], 6)))
        for bad_floor in ("x", 2.5, [1]):
            emit(f"direct/{cls_name}/badfloor/{bad_floor!r}",
                 outcome(lambda: run(cls_name, meth, [0.5, 0.25], bad_floor)))
        emit(f"direct/{cls_name}/badfloor-empty",
             outcome(lambda: run(cls_name, meth, [], "x")))
        emit(f"direct/{cls_name}/dupnames",
             outcome(lambda: run(cls_name, meth, [0.5, 0.5, 0.2, 0.5], 6,
                                 ["a", "a", "b", "a"])))
    for _ in range(1500):
        k = rng.choice([1, 2, 2, 3, 3, 4, 5, 6, 8])
        pool = rng.choice([VALUES, VALUES[:12], [0, 0.0, -0.0, 1e-9, 4e-7, 6e-7],
                           [1, 1.0, 0.9999996, 0.9999995, 1.0000004, True],
                           [0.6, 0.6000000000000001, 0.1 + 0.2 + 0.3, 0.5, 0.7]])
        values = [rng.choice(pool) for _ in range(k)]
        floor = rng.choice(FLOORS)
        for cls_name, meth in pairs:
            i += 1
            emit(f"direct/rand/{i}/{cls_name}/{values!r}/{floor!r}",
                 outcome(lambda: run(cls_name, meth, values, floor)))
    # an out-of-range successor index / an object without a value
    for cls_name, meth in pairs:
        cls = getattr(tad, cls_name)
        node = cls(player=P1 if cls_name == "PlayerOne" else P2, idx=0, reward=0,
                   next_states=[("a", 1), ("b", 2)], num_states=3, is_final_node=False)
        short = [node, types.SimpleNamespace(reach_probability=0.5)]
        emit(f"direct/{cls_name}/short", outcome(lambda: getattr(node, meth)(short, 6)))
        novalue = [node, types.SimpleNamespace(reach_probability=0.5), object()]
        emit(f"direct/{cls_name}/novalue", outcome(lambda: getattr(node, meth)(novalue, 6)))
        strval = [node, types.SimpleNamespace(reach_probability=0.5),
                  types.SimpleNamespace(reach_probability="0.5")]
        emit(f"direct/{cls_name}/strvalue", outcome(lambda: getattr(node, meth)(strval, 6)))


THRESHOLDS = [10 ** (-6), 1e-6, 1e-3, 0.001, 1e-9, 10 ** -9, 1e-1, 0.5, 0.05, 1, 1.0, 2,
              10, 100, 1000, 1e-12, 1e-15, 3e-7, 9.99e-7, 1.01e-6, 1e-300, 1e300,
              0, 0.0, -1, -1e-6, float("nan"), float("inf"), "1e-6", None, True,
              10 ** -2, 10 ** -3, 10 ** -4, 10 ** -5, 10 ** -7, 10 ** -8]


def solver_init_cases(tad, emit):
    for t in THRESHOLDS:
        def build():
            s = tad.Solver(state_list=[], threshold=t)
            return s.floor, type(s.floor).__name__, s.threshold, s.state_list
        emit(f"solver-init/{t!r}", outcome(build))

    def default():
        s = tad.Solver([])
        return s.floor, type(s.floor).__name__, s.threshold
    emit("solver-init/default", outcome(default))

    def positional():
        s = tad.Solver([], 1e-4)
        return s.floor, s.threshold
    emit("solver-init/positional", outcome(positional))


def strategies_table_cases(tad, emit):
    def mk(cls, player, idx, nxt, n, final=False):
        return cls(player=player, idx=idx, reward=0, next_states=nxt, num_states=n,
                   is_final_node=final)

    def table(permute, odd_player, floor_threshold):
        n = 6
        nodes = [
            mk(tad.PlayerOne, P1, 0, [("a", 1), ("b", 2), ("c", 3)], n),
            mk(tad.PlayerTwo, P2, 1, [("x", 4), ("y", 5), ("z", 3)], n),
            mk(tad.ProbabilisticNode, PR, 2, [(0.5, 4), (0.5, 5)], n),
            mk(tad.PlayerOne, odd_player, 3, [("u", 4), ("v", 5)], n),
            mk(tad.ProbabilisticNode, PR, 4, [(1, 4)], n, True),
            mk(tad.ProbabilisticNode, PR, 5, [(1, 5)], n),
        ]
        for node, v in zip(nodes, [0.3, 0.6000000000000001, 0.6, 0.6, 1, 0]):
            node.reach_probability = v
        solver = tad.Solver(state_list=nodes, threshold=floor_threshold)
        if permute:
            # idx differs from position: the table is written by idx, successors
            # are looked up by position
            nodes[0].idx, nodes[3].idx, nodes[1].idx = 3, 0, 5
        return solver._get_reachability_strategies()

    for permute in (False, True):
        for odd in (P1, "Someone", PR, None):
            for thr in (1e-6, 1e-3, 0.5):
                emit(f"table/{permute}/{odd!r}/{thr!r}",
                     outcome(lambda: table(permute, odd, thr)))
    emit("table/empty", outcome(lambda: tad.Solver([])._get_reachability_strategies()))


def malformed_games():
    base = {"rewards": [0, 0, 0], "players": [P1, PR, PR],
            "transition_list": [[("a", 1), ("b", 2)], [(1, 1)], [(1, 2)]],
            "final_states": [1]}

    def variant(**kw):
        g = {k: (list(v) if isinstance(v, list) else v) for k, v in base.items()}
        g.update(kw)
        return g
    nan = float("nan")
    return {
        "ok": variant(),
        "short-rewards": variant(rewards=[0, 0]),
        "short-transitions": variant(transition_list=[[("a", 1)], [(1, 1)]]),
        "negative-reward": variant(rewards=[0, -1, 0]),
        "bad-player": variant(players=[P1, "Nature", PR]),
        "final-out-of-range": variant(final_states=[3]),
        "final-negative": variant(final_states=[-1]),
        "no-finals": variant(final_states=[]),
        "missing-transitions": variant(transition_list=[[("a", 1)], [], [(1, 2)]]),
        "not-a-list": variant(transition_list=[(("a", 1),), [(1, 1)], [(1, 2)]]),
        "not-a-tuple": variant(transition_list=[[["a", 1]], [(1, 1)], [(1, 2)]]),
        "triple": variant(transition_list=[[("a", 1, 2)], [(1, 1)], [(1, 2)]]),
        "action-not-str": variant(transition_list=[[(1, 1)], [(1, 1)], [(1, 2)]]),
        "prob-not-number": variant(transition_list=[[("a", 1)], [("1", 1)], [(1, 2)]]),
        "next-not-int": variant(transition_list=[[("a", 1.0)], [(1, 1)], [(1, 2)]]),
        "next-out-of-range": variant(transition_list=[[("a", 3)], [(1, 1)], [(1, 2)]]),
        "initial-dead": variant(transition_list=[[("a", 2), ("b", 2)], [(1, 1)], [(1, 2)]]),
        "all-final": variant(final_states=[0, 1, 2]),
        "initial-final": variant(final_states=[0]),
        "nan-probability": {
            "rewards": [0, 0, 0, 0], "players": [P1, PR, PR, PR],
            "transition_list": [[("a", 1), ("b", 3)], [(nan, 2), (0.5, 3)], [(1, 2)], [(1, 3)]],
            "final_states": [2]},
        "negative-probability": {
            "rewards": [0, 0, 0, 0], "players": [P2, PR, PR, PR],
            "transition_list": [[("a", 1), ("b", 3)], [(-0.5, 2), (1.5, 3)], [(1, 2)], [(1, 3)]],
            "final_states": [2]},
        "over-one": {
            "rewards": [0, 0, 0, 0, 0], "players": [P2, PR, PR, PR, P1],
            "transition_list": [[("a", 1), ("b", 2), ("c", 4)], [(0.9, 2), (0.9, 2)], [(1, 2)],
                                [(1, 3)], [("d", 1), ("e", 2), ("f", 3)]],
            "final_states": [2]},
        "p2-two-actions": {
            "rewards": [0, 0, 0, 0, 0], "players": [P2, PR, PR, PR, PR],
            "transition_list": [[("a", 1), ("b", 2)], [(0.5, 3), (0.5, 4)],
                                [(0.25, 3), (0.75, 4)], [(1, 3)], [(1, 4)]],
            "final_states": [3]},
        "p2-all-zero": {
            "rewards": [0, 0, 0, 0], "players": [P1, P2, PR, PR],
            "transition_list": [[("a", 1), ("b", 2)], [("x", 3), ("y", 3), ("z", 3)],
                                [(1, 2)], [(1, 3)]],
            "final_states": [2]},
        "p1-all-zero": {
            "rewards": [0, 0, 0, 0], "players": [P2, P1, PR, PR],
            "transition_list": [[("a", 1), ("b", 2)], [("x", 3), ("y", 3), ("z", 3)],
                                [(1, 2)], [(1, 3)]],
            "final_states": [2]},
    }


def strip_time(results):
    return {name: {k: v for k, v in r.items() if k != "total_time"}
            for name, r in results.items()}


def driver_cases(tad, cr, root, rng, emit):
    import copy

    def run_one(tag, name, game, budget):
        def go():
            COUNTER.reset(budget)
            return strip_time(cr.run_games({name: copy.deepcopy(game)}))
        emit(f"driver/{tag}/{name}", outcome(go))

    small_inputs = ["example_17_08.py", "example_games.py", "paper_games.py",
                    "manual_1_game_a.py", "robot_1_w1_l2_r6_rb10_lb5_tb10_lt0.py",
                    "robot_1_w2_l1_r6_rb10_lb5_tb10_lt0.py",
                    "robot_1_w2_l2_r6_rb10_lb5_tb10_lt0.py", "manual_arrow_bottom.py"]
    for fname in small_inputs:
        path = os.path.join(root, "inputs", fname)
        if not os.path.exists(path):
            emit(f"driver/{fname}", "MISSING")
            continue
        games = cr.read_dict_from_file(path)
        for name, game in games.items():
            run_one(fname, name, game, 400000)

    # a batch with several games + the report file
    os.makedirs("outputs", exist_ok=True)
    batch = {}
    for i in range(12):
        batch[f"tie{i}"] = tie_game(rng)

    def report():
        COUNTER.reset(400000)
        results = cr.run_games(copy.deepcopy(batch))
        cr.save_results_to_file(results, "inputs/batch_report.py")
        with open("outputs/batch_report.txt") as fh:
            lines = [ln for ln in fh.read().split("\n") if not ln.startswith("Total time")]
        return strip_time(results), lines
    emit("driver/batch-report", outcome(report))

    for i in range(40):
        run_one("rand", f"g{i}", random_game(rng) if i % 2 else tie_game(rng), 30000)
    for name, game in malformed_games().items():
        run_one("malformed", name, game, 30000)


def worker(root):
    root = os.path.abspath(root)
    sys.path.insert(0, root)
    import tad
    import conditionalrewards as cr
    assert os.path.abspath(tad.__file__).startswith(root), tad.__file__
    assert os.path.abspath(cr.__file__).startswith(root), cr.__file__
    install_budget(tad)

    def on_alarm(signum, frame):
        print("WALL-CLOCK\tworker exceeded its wall clock allowance", flush=True)
        os._exit(3)
    signal.signal(signal.SIGALRM, on_alarm)
    signal.alarm(WORKER_WALL_CLOCK)

    out = []

    def emit(case_id, text):
        out.append(f"{case_id}\t{text}".replace("\n", "\\n"))

    rng = random.Random(20240404)
    solver_init_cases(tad, emit)
    strategies_table_cases(tad, emit)
    direct_cases(tad, rng, emit)

    games = []
    for i in range(260):
        games.append((f"rand{i}", random_game(rng)))
    for i in range(260):
        games.append((f"tie{i}", tie_game(rng)))
    for name, game in malformed_games().items():
        games.append((f"malformed-{name}", game))
    for name, game in games:
        for prune in (True, False):
            emit(f"solve/{name}/{prune}", outcome(lambda: solve_case(tad, game, prune)))
            emit(f"reach/{name}/{prune}/1e-6",
                 outcome(lambda: reach_case(tad, game, prune, 10 ** (-6))))
        emit(f"reach/{name}/True/1e-3", outcome(lambda: reach_case(tad, game, True, 1e-3)))
        emit(f"reach/{name}/False/1e-8", outcome(lambda: reach_case(tad, game, False, 1e-8)))

    driver_cases(tad, cr, root, rng, emit)
    signal.alarm(0)
    sys.stdout.write("\n".join(out) + "\n")


# --------------------------------------------------------------------------
# parent side
# --------------------------------------------------------------------------
def main():
    if len(sys.argv) == 3 and sys.argv[1] == "--worker":
        worker(sys.argv[2])
        return 0
    if len(sys.argv) != 3:
        print(__doc__)
        return 2
    patched, clean = (os.path.abspath(p) for p in sys.argv[1:3])
    procs = []
    tmpdirs = []
    env = dict(os.environ, PYTHONHASHSEED="0", PYTHONDONTWRITEBYTECODE="1")
    for root in (patched, clean):
        tmp = tempfile.TemporaryDirectory(prefix="equiv_c04_")
        tmpdirs.append(tmp)
        procs.append(subprocess.Popen(
            [sys.executable, os.path.abspath(__file__), "--worker", root],
            cwd=tmp.name, env=env, stdout=subprocess.PIPE, stderr=subprocess.PIPE, text=True))
    outputs = []
    failed = False
    for label, proc in zip(("patched", "clean"), procs):
        stdout, stderr = proc.communicate()
        if proc.returncode != 0:
            failed = True
            print(f"worker for the {label} tree exited with {proc.returncode}")
            print(stderr[-3000:])
        outputs.append(stdout.split("\n"))
    for tmp in tmpdirs:
        tmp.cleanup()
    a, b = outputs
    differences = 0
    if len(a) != len(b):
        failed = True
        print(f"different number of cases: {len(a)} vs {len(b)}")
    for la, lb in zip(a, b):
        if la != lb:
            differences += 1
            if differences <= 10:
                print("DIFF patched:", la[:600])
                print("     clean  :", lb[:600])
    n_cases = len([ln for ln in b if ln])
    n_budget = len([ln for ln in b if ln.endswith("\tBUDGET")])
    n_exc = len([ln for ln in b if "\tEXC " in ln])
    print(f"{n_cases} cases compared, {differences} differ "
          f"({n_budget} hit the update budget, {n_exc} raise)")
    if failed or differences or n_cases < 1000:
        print("FAIL")
        return 1
    print("PASS")
    return 0


if __name__ == "__main__":
    sys.exit(main())
