#!/usr/bin/env python
"""
Behavioural equivalence test for property C02 (reported expected rewards).

usage:  python equiv_test.py <path-to-patched-root> <path-to-clean-root>

The parent process builds one deterministic list of cases, then runs the same
list against both trees in two separate worker subprocesses (each imports
tad / conditionalrewards / reverse_dfs from its own root) and compares the
repr() of every result (or the exception type and message).  Prints PASS and
exits 0 when nothing differs, FAIL (exit 1) otherwise.

Cases
  * solve      : StochasticGame(**game).solve() in both pruning modes for a few hundred
                 random stopping games (cycles through probabilistic states, several
                 finals, dead sinks and doomed regions, ties, int/float rewards, random
                 numbering), for fully random (possibly non-stopping) games, for
                 hand-made boundary games and for malformed descriptions.  All eight
                 outputs are compared, and the caller's game description afterwards.
  * steps      : the solver pipeline step by step through the public Solver / node
                 methods (also with other thresholds), node transition lists after
                 pruning, all estimates after the value iteration.
  * units      : the node level Bellman steps and strategy getters on state lists with
                 arbitrary stored estimates (ties, zeros, inf, nan, negative values).
  * run_games  : the batch driver on dictionaries of games, result dicts and the report
                 file written by save_results_to_file (wall-clock time removed).
  * files      : the repository's example inputs and freshly generated boards.
  * logged     : the DEBUG log lines of a few small solves.
Every solve runs under a time budget; a case that times out in BOTH trees is skipped,
one that times out in only one tree while the other finished quickly is a failure.
"""
import os
import pickle
import random
import subprocess
import sys
import tempfile
import time

P1, P2, PR = "Player 1", "Player 2", "Probabilistic"
INF = float("inf")
NAN = float("nan")


# --------------------------------------------------------------------------------------
# case generation (parent)
# --------------------------------------------------------------------------------------

def _probabilities(rng, k):
    style = rng.random()
    if style < 0.45:
        weights = [rng.choice([1, 1, 2, 3, 4]) for _ in range(k)]
        total = sum(weights)
        return [w / total for w in weights]
    if style < 0.65:
        return [1 / k] * k
    if style < 0.8:
        # tiny and near-1 probabilities
        if k == 1:
            return [1]
        small = rng.choice([1e-3, 0.05, 0.01])
        rest = [small] * (k - 1)
        return [1 - small * (k - 1)] + rest
    cuts = sorted(rng.random() for _ in range(k - 1))
    points = [0.0] + cuts + [1.0]
    probs = [points[i + 1] - points[i] for i in range(k)]
    return [p if p > 0 else 0.5 for p in probs]


def gen_stopping_game(rng):
    """A stopping game: player states only move to higher ranked states, probabilistic
    states may go anywhere but move up with positive probability."""
    n_inner = rng.randint(1, 11)
    n_final = rng.randint(1, 3)
    n_dead = rng.randint(0, 2)
    n = n_inner + n_final + n_dead
    finals = list(range(n_inner, n_inner + n_final))
    deads = list(range(n_inner + n_final, n))
    doomed = set()
    if n_dead:
        for s in range(n_inner):
            if s != 0 and rng.random() < 0.2:
                doomed.add(s)
    reward_style = rng.random()
    player_mix = rng.choice([(1, 1, 1), (2, 1, 1), (1, 2, 1), (1, 1, 2), (0, 0, 1), (1, 0, 1),
                             (0, 1, 1), (1, 1, 0)])
    players, transitions, rewards = [], [], []
    for s in range(n_inner):
        up_inner = [t for t in range(s + 1, n_inner)]
        if s in doomed:
            up = [t for t in up_inner if t in doomed] + deads
            anywhere = [t for t in range(n_inner) if t in doomed] + deads
        else:
            up = up_inner + finals + deads
            anywhere = list(range(n))
        kinds = [P1] * player_mix[0] + [P2] * player_mix[1] + [PR] * player_mix[2]
        player = rng.choice(kinds)
        if player == PR:
            k = rng.randint(1, 4)
            succ = [rng.choice(up)] + [rng.choice(anywhere) for _ in range(k - 1)]
            rng.shuffle(succ)
            if rng.random() < 0.7:
                succ = list(dict.fromkeys(succ))
            probs = _probabilities(rng, len(succ))
            if rng.random() < 0.1:
                probs = [1] if len(succ) == 1 else probs
            trans = list(zip(probs, succ))
        else:
            k = rng.randint(1, 4)
            succ = [rng.choice(up) for _ in range(k)]
            if rng.random() < 0.6:
                succ = list(dict.fromkeys(succ))
            names = ["a%d" % i for i in range(len(succ))]
            if rng.random() < 0.05 and len(names) > 1:
                names[1] = names[0]
            trans = list(zip(names, succ))
        players.append(player)
        transitions.append(trans)
        if reward_style < 0.15:
            rewards.append(1)
        elif reward_style < 0.3:
            rewards.append(0)
        elif reward_style < 0.7:
            rewards.append(rng.choice([0, 0, 1, 2, 3, 5, 10]))
        else:
            rewards.append(rng.choice([0, 0.5, 1 / 3, 2.5, 1, 2, 1e-7, 100.0, 5 / 3]))
    for s in range(n_inner, n):
        kind = rng.random()
        if kind < 0.7:
            players.append(PR)
            transitions.append([(rng.choice([1, 1.0]), s)])
        elif kind < 0.85:
            players.append(P1)
            transitions.append([("stay", s)])
        else:
            players.append(P2)
            transitions.append([("stay", s)])
        rewards.append(0)
    # numbering
    perm = list(range(n))
    if rng.random() < 0.7:
        rest = perm[1:]
        rng.shuffle(rest)
        perm = [0] + rest
    else:
        rng.shuffle(perm)
    # perm[old] = new
    new_players = [None] * n
    new_trans = [None] * n
    new_rewards = [None] * n
    for old in range(n):
        new = perm[old]
        new_players[new] = players[old]
        new_rewards[new] = rewards[old]
        new_trans[new] = [(label, perm[t]) for label, t in transitions[old]]
    final_states = [perm[f] for f in finals]
    if rng.random() < 0.5:
        final_states.sort()
    return {"rewards": new_rewards, "players": new_players,
            "transition_list": new_trans, "final_states": final_states}


def gen_random_game(rng):
    """No structure at all: may be non-stopping, finals need not be absorbing, finals and
    sinks may carry reward, probability-0 entries, repeated actions."""
    n = rng.randint(1, 9)
    players, transitions, rewards = [], [], []
    for s in range(n):
        player = rng.choice([P1, P2, PR])
        k = rng.randint(1, 3)
        succ = [rng.randrange(n) for _ in range(k)]
        if player == PR:
            probs = _probabilities(rng, k)
            if rng.random() < 0.08:
                probs[rng.randrange(k)] = 0
            trans = list(zip(probs, succ))
        else:
            trans = [("a%d" % (i if rng.random() < 0.95 else 0), t) for i, t in enumerate(succ)]
        players.append(player)
        transitions.append(trans)
        rewards.append(rng.choice([0, 0, 0, 1, 2, 0.5]))
    n_final = rng.randint(1, min(3, n))
    finals = rng.sample(range(n), n_final)
    for f in finals:
        if rng.random() < 0.7:
            players[f] = PR
            transitions[f] = [(1, f)]
            rewards[f] = 0
    return {"rewards": rewards, "players": players,
            "transition_list": transitions, "final_states": finals}


def handmade_games():
    games = []
    # figure 5.5 and the same-reach variant
    games.append({"rewards": [0, 2, 5 / 3, 0, 0, 0, 0, 0],
                  "players": [P1, P2, P2, PR, PR, PR, PR, PR],
                  "transition_list": [[("alfa", 1), ("beta", 2)], [(" ", 3)], [(" ", 4)],
                                      [(0.5, 5), (0.5, 6)], [(0.75, 6), (0.25, 7)],
                                      [(1, 5)], [(1, 6)], [(1, 7)]],
                  "final_states": [6]})
    games.append({"rewards": [0, 2, 5 / 3, 0, 0, 0, 0, 0],
                  "players": [P1, P2, P2, PR, PR, PR, PR, PR],
                  "transition_list": [[("alfa", 1), ("beta", 2)], [(" ", 3)], [(" ", 4)],
                                      [(0.5, 5), (0.5, 6)], [(0.5, 6), (0.5, 7)],
                                      [(1, 5)], [(1, 6)], [(1, 7)]],
                  "final_states": [6]})
    # one state, final and absorbing
    games.append({"rewards": [0], "players": [PR], "transition_list": [[(1, 0)]],
                  "final_states": [0]})
    games.append({"rewards": [3], "players": [P1], "transition_list": [[("a", 0)]],
                  "final_states": [0]})
    games.append({"rewards": [3], "players": [P2], "transition_list": [[("a", 0)]],
                  "final_states": [0]})
    # initial state cannot reach the final state
    games.append({"rewards": [1, 0, 0], "players": [P1, PR, PR],
                  "transition_list": [[("a", 1)], [(1, 1)], [(1, 2)]], "final_states": [2]})
    # probabilistic state carrying reward on a cycle, several dead successors
    games.append({"rewards": [2, 1, 0, 0, 0, 4], "players": [PR, PR, PR, PR, PR, P2],
                  "transition_list": [[(0.25, 0), (0.25, 1), (0.125, 3), (0.125, 4), (0.25, 2)],
                                      [(0.5, 0), (0.25, 2), (0.25, 3)],
                                      [(1, 2)], [(1, 3)], [(1.0, 4)],
                                      [("x", 0), ("y", 3)]],
                  "final_states": [2]})
    # Player 2 may enter a dead region, Player 1 ties in reachability with different rewards
    games.append({"rewards": [1, 5, 1, 0, 0, 7, 0], "players": [P1, P2, P2, PR, PR, PR, P1],
                  "transition_list": [[("l", 1), ("r", 2), ("d", 4)],
                                      [("a", 3), ("b", 5)], [("a", 3), ("b", 5), ("c", 6)],
                                      [(1, 3)], [(1, 4)], [(0.5, 3), (0.5, 4)],
                                      [("up", 0), ("end", 3)]],
                  "final_states": [3]})
    # ties everywhere
    games.append({"rewards": [1, 1, 1, 1, 0], "players": [P1, P2, P1, PR, PR],
                  "transition_list": [[("a", 1), ("b", 2), ("c", 3)], [("a", 3), ("b", 4)],
                                      [("a", 3), ("b", 4)], [(0.5, 4), (0.5, 0)], [(1, 4)]],
                  "final_states": [4]})
    # two final states, unsorted, rewards as floats
    games.append({"rewards": [0.5, 0.25, 0.0, 0.0, 0.0], "players": [P2, PR, PR, PR, P1],
                  "transition_list": [[("a", 1), ("b", 4)], [(1 / 3, 2), (1 / 3, 3), (1 / 3, 0)],
                                      [(1, 2)], [(1, 3)], [("x", 2), ("y", 3), ("z", 1)]],
                  "final_states": [3, 2]})
    # non-stopping: Player 1 may cycle with reward forever (diverges) / zero reward cycle
    games.append({"rewards": [1, 1, 0], "players": [P1, P1, PR],
                  "transition_list": [[("a", 1), ("b", 2)], [("a", 0), ("b", 2)], [(1, 2)]],
                  "final_states": [2]})
    games.append({"rewards": [0, 0, 0], "players": [P1, P2, PR],
                  "transition_list": [[("a", 1), ("b", 2)], [("a", 0), ("b", 2)], [(1, 2)]],
                  "final_states": [2]})
    # infinite reward, zero probability entries
    games.append({"rewards": [INF, 0, 0], "players": [PR, PR, PR],
                  "transition_list": [[(0.5, 1), (0.5, 2)], [(1, 1)], [(1, 2)]],
                  "final_states": [1]})
    games.append({"rewards": [1, INF, 0, 0], "players": [PR, PR, PR, PR],
                  "transition_list": [[(0, 1), (0.5, 2), (0.5, 3)], [(1, 2)], [(1, 2)], [(1, 3)]],
                  "final_states": [2]})
    games.append({"rewards": [1, 2, 0, 0], "players": [PR, PR, PR, PR],
                  "transition_list": [[(0, 2), (1, 3)], [(1, 2)], [(1, 2)], [(1, 3)]],
                  "final_states": [2]})
    # tuples / odd containers that are still accepted
    games.append({"rewards": (1, 0, 0), "players": (P1, PR, PR),
                  "transition_list": [[("a", 1), ("b", 2)], [(1, 1)], [(True, 2)]],
                  "final_states": (1,)})
    games.append({"rewards": [1, 0, 0], "players": [P1, PR, PR],
                  "transition_list": [[("a", True), ("b", 2)], [(1, 1)], [(1, 2)]],
                  "final_states": [1, 1]})
    return games


def malformed_games():
    base = {"rewards": [1, 0, 0], "players": [P1, PR, PR],
            "transition_list": [[("a", 1), ("b", 2)], [(1, 1)], [(1, 2)]], "final_states": [1]}

    def variant(**kw):
        g = {k: (list(v) if isinstance(v, list) else v) for k, v in base.items()}
        g.update(kw)
        return g
    out = [
        variant(rewards=[1, 0]),
        variant(rewards=[1, 0, 0, 0]),
        variant(rewards=[1, -1, 0]),
        variant(rewards=[1, -0.0, 0]),
        variant(players=[P1, PR]),
        variant(players=[P1, PR, "Player 3"]),
        variant(players=[P1, PR, None]),
        variant(final_states=[3]),
        variant(final_states=[-1]),
        variant(final_states=[]),
        variant(final_states=[1, 5]),
        variant(transition_list=[[("a", 1), ("b", 2)], [(1, 1)]]),
        variant(transition_list=[[("a", 1), ("b", 2)], [(1, 1)], []]),
        variant(transition_list=[[], [(1, 1)], [(1, 2)]]),
        variant(transition_list=[[("a", 1), ("b", 2)], [(1, 1)], ((1, 2),)]),
        variant(transition_list=[[("a", 1), ["b", 2]], [(1, 1)], [(1, 2)]]),
        variant(transition_list=[[("a", 1), ("b", 2, 3)], [(1, 1)], [(1, 2)]]),
        variant(transition_list=[[("a", 1), (1, 2)], [(1, 1)], [(1, 2)]]),
        variant(transition_list=[[("a", 1), ("b", 2)], [("p", 1)], [(1, 2)]]),
        variant(transition_list=[[("a", 1), ("b", 2.0)], [(1, 1)], [(1, 2)]]),
        variant(transition_list=[[("a", 1), ("b", 3)], [(1, 1)], [(1, 2)]]),
        variant(transition_list=[[("a", 1), ("b", -1)], [(1, 1)], [(1, 2)]]),
        variant(transition_list=[[("a", 1), ("b", 2)], [(1, 1)], None]),
        variant(transition_list=[[("a", 1), ("b", 2)], [(1, 1)], "xy"]),
        {"rewards": [], "players": [], "transition_list": [], "final_states": []},
        {"rewards": [], "players": [], "transition_list": [], "final_states": [0]},
    ]
    return out


def build_cases(clean_root, tmp_dir):
    rng = random.Random(20261004)
    cases = []

    def add(kind, *payload):
        cases.append((len(cases), kind) + payload)

    stopping = [gen_stopping_game(rng) for _ in range(420)]
    randoms = [gen_random_game(rng) for _ in range(90)]
    hand = handmade_games()
    bad = malformed_games()

    for game in stopping:
        for prune in (True, False):
            add("solve", game, prune, 2.0)
    for game in randoms:
        for prune in (True, False):
            add("solve", game, prune, 0.12)
    for game in hand:
        for prune in (True, False):
            add("solve", game, prune, 0.4)
    for game in bad:
        for prune in (True, False):
            add("solve", game, prune, 0.4)

    # step by step pipelines, also with other thresholds
    for i, game in enumerate(stopping[:150] + hand[:12] + randoms[:30]):
        threshold = [1e-6, 1e-6, 1e-3, 1e-9, 0.5, 1, 10][i % 7]
        add("steps", game, i % 2 == 0, threshold, 0.25)

    # node level Bellman steps with arbitrary stored estimates
    pool = [0, 0, 0.0, 1, 1, 2, 0.5, 1 / 3, 2.5, 1e-7, 0.9999996, 0.9999994, 1.0, 7]
    wild = pool + [INF, NAN, -1, -0.5]
    for i, game in enumerate(stopping[150:330] + hand[:12] + randoms[30:60]):
        n = len(game["players"])
        src = wild if i % 5 == 0 else pool
        reach = [rng.choice([0, 0, 1, 0.5, 0.25, 0.75, 0.9999996, 1e-7, 1.0000000000000002])
                 for _ in range(n)]
        if i % 5 == 0 and i % 10 == 0:
            reach[rng.randrange(n)] = NAN
        est = [[rng.choice(src) for _ in range(n)] for _ in range(3)]
        cut = rng.random() < 0.3
        add("units", game, reach, est, cut)

    # batch driver + report writer
    for i in range(12):
        chunk = {}
        for j in range(rng.randint(1, 4)):
            source = rng.choice([stopping, stopping, stopping, hand[:10], bad])
            chunk["g%d_%d" % (i, j)] = rng.choice(source)
        add("run_games", chunk, "batch_%d" % i, 2.0)

    # repository example inputs (small and medium) and freshly generated boards
    inputs_dir = os.path.join(clean_root, "inputs")
    for name in sorted(os.listdir(inputs_dir)):
        path = os.path.join(inputs_dir, name)
        if name.endswith(".py") and os.path.getsize(path) < 35000:
            add("file", path, 4.0)
    sys.path.insert(0, clean_root)
    try:
        import roberta_generator as gen
        boards = [(1, 1, 1, False), (2, 1, 2, False), (3, 2, 1, True), (4, 2, 2, True),
                  (5, 3, 2, False), (6, 2, 3, True), (7, 3, 3, True), (8, 1, 3, True),
                  (9, 3, 1, False), (10, 3, 3, False)]
        for seed, width, length, force_down in boards:
            moves, rewards, loose = gen.gen_rnd_board(seed, length, width, 0.3, 6, force_down)
            path = os.path.join(tmp_dir, "board_%d_w%d_l%d.py" % (seed, width, length))
            prob = [0.1, 0.3, 0.01][seed % 3]
            gen.write_robots(path, length, width, moves, rewards, loose, prob, 0.1, prob)
            add("file", path, 1.5)
    finally:
        sys.path.remove(clean_root)

    # debug log lines of a few small solves
    for game in hand[:3] + stopping[:6]:
        for prune in (True, False):
            add("logged", game, prune, 1.0)
    return cases


# --------------------------------------------------------------------------------------
# worker
# --------------------------------------------------------------------------------------

class _Timeout(BaseException):
    pass


def _worker(root, cases_path, out_path):
    import copy
    import logging
    import signal
    root = os.path.abspath(root)
    sys.path.insert(0, root)
    work = tempfile.mkdtemp(prefix="equiv_cwd_")
    os.makedirs(os.path.join(work, "outputs"))
    os.chdir(work)
    import tad
    import conditionalrewards as cr
    assert os.path.abspath(tad.__file__).startswith(root), tad.__file__
    logging.getLogger().addHandler(logging.NullHandler())  # keep basicConfig() away
    logging.disable(logging.CRITICAL)

    def on_alarm(signum, frame):
        raise _Timeout()
    signal.signal(signal.SIGALRM, on_alarm)

    def budgeted(budget, fn):
        start = time.time()
        signal.setitimer(signal.ITIMER_REAL, budget)
        try:
            try:
                result = ("ok", fn())
            finally:
                signal.setitimer(signal.ITIMER_REAL, 0)
        except _Timeout:
            result = ("TIMEOUT", None)
        except Exception as exc:  # noqa
            result = ("exc", type(exc).__name__, str(exc))
        return result, time.time() - start

    def node_view(state_list):
        return [(type(s).__name__, s.idx, s.next_states, s.reach_probability, s.expected_rewards,
                 s.expected_rewards_min_reach, s.expected_reach_min_rewards) for s in state_list]

    def do_solve(game, prune):
        game = copy.deepcopy(game)
        sgame = tad.StochasticGame(prune_states=prune, **game)
        try:
            result = sgame.solve()
            return repr(result), repr(game), len(result)
        except _Timeout:
            raise
        except Exception as exc:
            return ("exc", type(exc).__name__, str(exc), repr(game))

    def do_steps(game, prune, threshold):
        game = copy.deepcopy(game)
        trace = []
        sgame = tad.StochasticGame(prune_states=prune, **game)
        sgame.check_game()
        trace.append(sgame.count_transitions())
        state_list = sgame.init_states()
        trace.append(repr(node_view(state_list)))
        solver = tad.Solver(threshold=threshold, state_list=state_list)
        strategies, n_reach = solver.solve_reachability(
            game["transition_list"], game["final_states"], prune)
        trace.append(repr((strategies, n_reach)))
        solver.prune_reachability(strategies)
        trace.append(repr(node_view(state_list)))
        if prune:
            solver.prune_paths()
            trace.append(repr(node_view(state_list)))
            solver.prune_states()
            trace.append(repr(node_view(state_list)))
            solver.prune_stochastich_game()  # idempotent second round
            trace.append(repr(node_view(state_list)))
        # a single Bellman step of every node before the iteration
        trace.append(repr([s.value_iteration_rewards(state_list) for s in state_list]))
        n_rew = solver.value_iteration_total_rewards()
        trace.append(repr((n_rew, node_view(state_list))))
        trace.append(repr(solver.solve_total_rewards()))
        trace.append(repr(node_view(state_list)))
        trace.append(repr(game))
        return trace

    partial = {}

    def do_units(game, reach, est, cut):
        partial.clear()
        game = copy.deepcopy(game)
        sgame = tad.StochasticGame(**game)
        state_list = sgame.init_states()
        for s, r, e0, e1, e2 in zip(state_list, reach, est[0], est[1], est[2]):
            s.reach_probability = r
            s.expected_rewards = e0
            s.expected_rewards_min_reach = e1
            s.expected_reach_min_rewards = e2
        if cut:
            for s in state_list[::3]:
                s.next_states = []
        trace = []

        def call(fn, *args):
            try:
                trace.append(repr(fn(*args)))
            except _Timeout:
                raise
            except Exception as exc:
                trace.append(("exc", type(exc).__name__, str(exc)))
        for s in state_list:
            call(s.value_iteration_rewards, state_list)
            call(s.value_iteration_reach, state_list)
            if isinstance(s, tad.PlayerOne):
                call(s.get_best_strategies_reachability, state_list, 6)
                call(s.get_best_strategies_total_rewards, state_list, 6)
            if isinstance(s, tad.PlayerTwo):
                call(s.get_worst_strategies_reachability, state_list, 6)
                call(s.get_worst_strategies_total_rewards, state_list, 6)
        trace.append(repr(node_view(state_list)))
        solver = tad.Solver(state_list)
        call(solver.prune_stochastich_game)
        trace.append(repr(node_view(state_list)))
        for s in state_list:
            call(s.value_iteration_rewards, state_list)
        # a bounded number of sweeps through the public driver with a huge threshold
        solver2 = tad.Solver(state_list, threshold=0.75)
        partial["trace"] = list(trace)  # kept when the driver below runs out of budget
        call(solver2.value_iteration_total_rewards)
        trace.append(repr(node_view(state_list)))
        call(solver2.solve_total_rewards)
        trace.append(repr(node_view(state_list)))
        return trace

    def strip_times(results):
        out = {}
        for name, entry in results.items():
            entry = dict(entry)
            entry.pop("total_time", None)
            out[name] = entry
        return out

    def do_run_games(games, label):
        games = copy.deepcopy(games)
        results = cr.run_games(games)
        cr.save_results_to_file(results, "inputs/%s.py" % label)
        with open(os.path.join("outputs", "%s.txt" % label)) as handle:
            report = [line for line in handle.read().split("\n")
                      if not line.startswith("Total time")]
        return repr(strip_times(results)), list(results), report, repr(games)

    def do_file(path, budget):
        games = cr.read_dict_from_file(path)
        out = []
        for name, game in games.items():
            res, _ = budgeted(budget, lambda: repr(strip_times(cr.run_games({name: game}))))
            out.append((name, res))
        return out

    def do_logged(game, prune):
        game = copy.deepcopy(game)
        records = []

        class Collect(logging.Handler):
            def emit(self, record):
                records.append((record.levelname, record.getMessage()))
        root_logger = logging.getLogger()
        handler = Collect()
        old_level = root_logger.level
        root_logger.addHandler(handler)
        root_logger.setLevel(logging.DEBUG)
        logging.disable(logging.NOTSET)
        try:
            try:
                result = repr(tad.StochasticGame(prune_states=prune, **game).solve())
            except _Timeout:
                raise
            except Exception as exc:
                result = ("exc", type(exc).__name__, str(exc))
        finally:
            logging.disable(logging.CRITICAL)
            root_logger.removeHandler(handler)
            root_logger.setLevel(old_level)
        return result, records

    with open(cases_path, "rb") as handle:
        cases = pickle.load(handle)
    results = {}
    for case in cases:
        cid, kind = case[0], case[1]
        if kind == "solve":
            _, _, game, prune, budget = case
            results[cid] = budgeted(budget, lambda: do_solve(game, prune))
        elif kind == "steps":
            _, _, game, prune, threshold, budget = case
            results[cid] = budgeted(budget, lambda: do_steps(game, prune, threshold))
        elif kind == "units":
            _, _, game, reach, est, cut = case
            res, elapsed = budgeted(0.15, lambda: do_units(game, reach, est, cut))
            if res[0] == "TIMEOUT" and "trace" in partial:
                res = ("partial", list(partial["trace"]))
            results[cid] = (res, elapsed)
        elif kind == "run_games":
            _, _, games, label, budget = case
            results[cid] = budgeted(budget, lambda: do_run_games(games, label))
        elif kind == "file":
            _, _, path, budget = case
            results[cid] = (("ok", do_file(path, budget)), 0.0)
        elif kind == "logged":
            _, _, game, prune, budget = case
            results[cid] = budgeted(budget, lambda: do_logged(game, prune))
        else:
            raise AssertionError(kind)
    with open(out_path, "wb") as handle:
        pickle.dump(results, handle)


# --------------------------------------------------------------------------------------
# comparison (parent)
# --------------------------------------------------------------------------------------

def _is_timeout(res):
    return res[0] == "TIMEOUT"


def compare(cases, patched, clean):
    failures, skipped, compared = [], 0, 0
    kinds = {}
    for case in cases:
        cid, kind = case[0], case[1]
        (res_p, time_p), (res_c, time_c) = patched[cid], clean[cid]
        budget = case[-1] if kind in ("solve", "steps", "run_games", "logged") else 0.15
        if kind == "file":
            entries_p, entries_c = res_p[1], res_c[1]
            if [n for n, _ in entries_p] != [n for n, _ in entries_c]:
                failures.append((cid, kind, case[2], "game names differ"))
                continue
            for (name, rp), (_, rc) in zip(entries_p, entries_c):
                if _is_timeout(rp) and _is_timeout(rc):
                    skipped += 1
                elif _is_timeout(rp) or _is_timeout(rc):
                    failures.append((cid, kind, case[2], name, "timeout in one tree only"))
                elif rp != rc:
                    failures.append((cid, kind, case[2], name, rp, rc))
                else:
                    compared += 1
                    kinds[kind] = kinds.get(kind, 0) + 1
            continue
        if _is_timeout(res_p) and _is_timeout(res_c):
            skipped += 1
            continue
        if _is_timeout(res_p) or _is_timeout(res_c):
            finished = time_c if _is_timeout(res_p) else time_p
            if finished < budget / 3.0:
                failures.append((cid, kind, "timeout in one tree only", res_p[0], res_c[0],
                                 case[2]))
            else:
                skipped += 1
            continue
        if res_p != res_c:
            failures.append((cid, kind, case[2], res_p, res_c))
        else:
            compared += 1
            kinds[kind] = kinds.get(kind, 0) + 1
    return failures, skipped, compared, kinds


def main():
    if len(sys.argv) == 5 and sys.argv[1] == "--worker":
        _worker(sys.argv[2], sys.argv[3], sys.argv[4])
        return 0
    if len(sys.argv) != 3:
        print(__doc__)
        return 2
    patched_root, clean_root = (os.path.abspath(p) for p in sys.argv[1:3])
    start = time.time()
    tmp_dir = tempfile.mkdtemp(prefix="equiv_c02_")
    cases = build_cases(clean_root, tmp_dir)
    cases_path = os.path.join(tmp_dir, "cases.pkl")
    with open(cases_path, "wb") as handle:
        pickle.dump(cases, handle)
    procs = []
    for label, root in (("patched", patched_root), ("clean", clean_root)):
        out_path = os.path.join(tmp_dir, label + ".pkl")
        env = dict(os.environ, PYTHONDONTWRITEBYTECODE="1", PYTHONHASHSEED="0")
        proc = subprocess.Popen(
            [sys.executable, os.path.abspath(__file__), "--worker", root, cases_path, out_path],
            env=env, cwd=tmp_dir)
        procs.append((label, proc, out_path))
    outputs = {}
    for label, proc, out_path in procs:
        code = proc.wait()
        if code != 0:
            print("FAIL: worker for the %s tree exited with %d" % (label, code))
            return 1
        with open(out_path, "rb") as handle:
            outputs[label] = pickle.load(handle)
    failures, skipped, compared, kinds = compare(cases, outputs["patched"], outputs["clean"])
    if os.environ.get("EQUIV_VERBOSE"):
        spent, timeouts = {}, {}
        for case in cases:
            res, elapsed = outputs["clean"][case[0]]
            spent[case[1]] = spent.get(case[1], 0.0) + elapsed
            timeouts[case[1]] = timeouts.get(case[1], 0) + (res[0] in ("TIMEOUT", "partial"))
            if res[0] == "TIMEOUT" and case[1] == "solve" and case[0] < 840:
                print("stopping game ran out of budget:", case[2])
        print("clean tree seconds per kind:", {k: round(v, 1) for k, v in spent.items()},
              "timeouts:", timeouts)
    print("cases: %d, compared equal: %d %s, skipped (time budget in both trees): %d, %.1fs"
          % (len(cases), compared, sorted(kinds.items()), skipped, time.time() - start))
    if failures:
        for failure in failures[:10]:
            text = repr(failure)
            print("DIFF:", text[:3000])
        print("FAIL (%d differing cases)" % len(failures))
        return 1
    print("PASS")
    return 0


if __name__ == "__main__":
    sys.exit(main())
