#!/usr/bin/env python
"""Differential test for property C06 (every well-formed stopping game is solved
or declared unsolvable).

usage: python equiv.py <clean_repo_dir> <patched_repo_dir>

Both trees are loaded in their own subprocess (the module names collide).  Each
subprocess runs the SAME seeded set of inputs and writes one line per
observation (repr of return values, exception type + message, node fields after
the call, captured log records, report files byte for byte).  The two
transcripts are compared line by line.  Prints SAME / exits 0 when nothing
differs, prints the first difference / exits 1 otherwise.
"""
import os
import subprocess
import sys
import tempfile

CASE_TIMEOUT = 1.5          # seconds; non-stopping games never finish, stopping ones need milliseconds


# --------------------------------------------------------------------------- #
# worker (runs inside one tree)
# --------------------------------------------------------------------------- #

def worker(repo_dir, out_path):
    import copy
    import hashlib
    import logging
    import random
    import signal

    repo_dir = os.path.abspath(repo_dir)
    sys.path.insert(0, repo_dir)
    scratch = tempfile.mkdtemp(prefix="f06_equiv_")
    os.makedirs(os.path.join(scratch, "outputs"))
    os.chdir(scratch)

    import tad
    import reverse_dfs as rdfs
    import conditionalrewards as cr

    assert os.path.abspath(tad.__file__).startswith(repo_dir), tad.__file__
    assert os.path.abspath(rdfs.__file__).startswith(repo_dir), rdfs.__file__

    P1, P2, PR = tad.PLAYER_1, tad.PLAYER_2, tad.PROBABILISTIC
    KIND = {P1: tad.PlayerOne, P2: tad.PlayerTwo, PR: tad.ProbabilisticNode}

    lines = []

    def emit(label, value):
        lines.append(f"{label} :: {value}")

    # ---- log capture ------------------------------------------------------ #
    class Capture(logging.Handler):
        def __init__(self):
            super().__init__(level=logging.NOTSET)
            self.records = []

        def emit(self, record):
            self.records.append(f"{record.levelname}:{record.getMessage()}")

    capture = Capture()
    root = logging.getLogger()
    root.addHandler(capture)
    root.setLevel(logging.WARNING)

    def log_digest():
        joined = "\n".join(capture.records)
        digest = hashlib.sha1(joined.encode()).hexdigest()
        summary = f"{len(capture.records)} records sha1={digest}"
        capture.records.clear()
        return summary

    # ---- per-case timeout ------------------------------------------------- #
    class CaseTimeout(BaseException):
        pass

    def on_alarm(signum, frame):
        raise CaseTimeout()

    signal.signal(signal.SIGALRM, on_alarm)
    timeouts = [0]
    case_timed_out = [False]

    def guarded(function, *args, **kwargs):
        """repr of the result, or exception type + message, or TIMEOUT."""
        signal.setitimer(signal.ITIMER_REAL, CASE_TIMEOUT)
        try:
            result = function(*args, **kwargs)
            signal.setitimer(signal.ITIMER_REAL, 0)
            return f"OK {result!r}"
        except CaseTimeout:
            timeouts[0] += 1
            case_timed_out[0] = True
            return "TIMEOUT"
        except BaseException as error:  # noqa: every exception type is an observation
            signal.setitimer(signal.ITIMER_REAL, 0)
            return f"EXC {type(error).__name__}: {error}"
        finally:
            signal.setitimer(signal.ITIMER_REAL, 0)

    # ---- game generator --------------------------------------------------- #
    REWARDS = [0, 0, 1, 2, 3, 5, 5 / 3, 0.5, 2.25, 11 / 6, 10]
    ACTIONS = ["alfa", "beta", "gamma", "delta", " ", "eps"]

    def random_game(rng, max_transient=9):
        """A well-formed stopping game: absorbing states (final or dead, reward 0,
        self-loop); every probabilistic transient state leaves to an absorbing state
        with probability >= 1/17; player states never form a cycle among themselves."""
        n_final = rng.choice([1, 1, 1, 2, 2, 3])
        n_dead = rng.choice([0, 1, 1, 2, 2, 3])
        n_transient = rng.randint(0, max_transient)
        roles = ["final"] * n_final + ["dead"] * n_dead + ["transient"] * n_transient
        rng.shuffle(roles)
        if n_transient and rng.random() < 0.9:
            first = roles.index("transient")
            roles[0], roles[first] = roles[first], roles[0]
        n = len(roles)
        players = [rng.choice([P1, P2, PR, PR]) for _ in range(n)]
        absorbing = [i for i in range(n) if roles[i] != "transient"]
        rank = list(range(n))
        rng.shuffle(rank)
        rewards = []
        transitions = []
        for i in range(n):
            if roles[i] != "transient":
                rewards.append(0)
                if players[i] == PR:
                    transitions.append([(rng.choice([1, 1.0]), i)])
                else:
                    transitions.append([(rng.choice(ACTIONS), i)])
                continue
            rewards.append(rng.choice(REWARDS))
            if players[i] == PR:
                k = rng.randint(0, 4)
                targets = [rng.randrange(n) for _ in range(k)]      # anything, self included, duplicates included
                if rng.random() < 0.3:
                    targets.append(i)                               # rewarded self-loop
                targets.append(rng.choice(absorbing))               # guaranteed exit
                if rng.random() < 0.5:
                    targets.append(rng.choice(absorbing))
                rng.shuffle(targets)
                weights = [rng.randint(1, 4) for _ in targets]
                total = sum(weights)
                transitions.append([(w / total, t) for w, t in zip(weights, targets)])
            else:
                allowed = [j for j in range(n) if j != i and (
                    roles[j] != "transient" or players[j] == PR or rank[j] < rank[i])]
                k = rng.randint(1, 4)
                targets = [rng.choice(allowed) for _ in range(k)]   # parallel edges allowed
                names = ACTIONS[:]
                rng.shuffle(names)
                if rng.random() < 0.1:
                    names[1] = names[0]                             # the same action name twice
                transitions.append([(names[idx], t) for idx, t in enumerate(targets)])
        finals = [i for i in range(n) if roles[i] == "final"]
        rng.shuffle(finals)
        if rng.random() < 0.1:
            finals.append(finals[0])                                # duplicate final
        return {"rewards": rewards, "players": players,
                "transition_list": transitions, "final_states": finals}

    def solve_case(label, game, prune, debug=False):
        game = copy.deepcopy(game)
        before = repr(game)
        root.setLevel(logging.DEBUG if debug else logging.WARNING)
        capture.records.clear()
        sgame = tad.StochasticGame(prune_states=prune, **game)
        outcome = guarded(sgame.solve)
        emit(f"{label} prune={prune}", outcome)
        emit(f"{label} prune={prune} input-untouched", before == repr(game))
        if not outcome.startswith("TIMEOUT"):
            emit(f"{label} prune={prune} log", log_digest())
        capture.records.clear()
        root.setLevel(logging.WARNING)

    # ---- A. random well-formed stopping games, both pruning modes --------- #
    rng = random.Random(60606)
    pool = []
    for case in range(1400):
        game = random_game(rng)
        pool.append(game)
        for prune in (True, False):
            solve_case(f"A{case}", game, prune, debug=(case % 7 == 0))
    for case in range(60):                                          # a few bigger ones
        game = random_game(rng, max_transient=30)
        for prune in (True, False):
            solve_case(f"Abig{case}", game, prune)

    # ---- B. hand-made shapes ---------------------------------------------- #
    def G(rewards, players, transition_list, final_states):
        return {"rewards": rewards, "players": players,
                "transition_list": transition_list, "final_states": final_states}

    shapes = {
        "two separated dead successors": G(
            [1, 0, 0, 0], [PR, PR, PR, PR],
            [[(0.25, 1), (0.25, 2), (0.25, 3), (0.25, 0)], [(1, 1)], [(1, 2)], [(1, 3)]], [2]),
        "two adjacent dead successors on a rewarded self-loop": G(
            [2, 0, 0, 0], [PR, PR, PR, PR],
            [[(0.25, 0), (0.25, 1), (0.25, 2), (0.25, 3)], [(1, 1)], [(1, 2)], [(1, 3)]], [3]),
        "three dead in a row then alive": G(
            [1, 0, 0, 0, 0], [PR, PR, PR, PR, PR],
            [[(0.2, 1), (0.2, 2), (0.2, 3), (0.2, 4), (0.2, 0)], [(1, 1)], [(1, 2)], [(1, 3)], [(1, 4)]], [4]),
        "all successors dead": G(
            [1, 0, 0], [PR, PR, PR], [[(0.5, 1), (0.5, 2)], [(1, 1)], [(1, 2)]], [0]),
        "initial cannot reach": G(
            [1, 0, 0], [PR, PR, PR], [[(1, 1)], [(1, 1)], [(1, 2)]], [2]),
        "player 2 forces away": G(
            [0, 0, 0], [P2, PR, PR], [[("a", 1), ("b", 2)], [(1, 1)], [(1, 2)]], [1]),
        "player 1 cannot reach": G(
            [3, 0, 0], [P1, PR, PR], [[("a", 1)], [(1, 1)], [(1, 2)]], [2]),
        "one state final": G([0], [PR], [[(1, 0)]], [0]),
        "one state player final": G([0], [P1], [[("a", 0)]], [0]),
        "one state rewarded final": G([0.0], [P2], [[("a", 0)]], [0]),
        "initial is final among others": G(
            [0, 1, 0], [P1, PR, PR], [[("a", 0), ("b", 1)], [(0.5, 0), (0.5, 2)], [(1, 2)]], [0]),
        "parallel edges": G(
            [1, 0, 0], [PR, PR, PR], [[(0.25, 1), (0.25, 1), (0.25, 2), (0.25, 2)], [(1, 1)], [(1, 2)]], [1]),
        "probabilities not summing to one": G(
            [1, 0, 0], [PR, PR, PR], [[(0.3, 1), (0.3, 2)], [(1, 1)], [(1, 2)]], [1]),
        "zero probability survivor": G(
            [1, 0, 0], [PR, PR, PR], [[(0, 1), (1, 2)], [(1, 1)], [(1, 2)]], [1]),
        "zero probability dead": G(
            [1, 0, 0], [PR, PR, PR], [[(1, 1), (0, 2)], [(1, 1)], [(1, 2)]], [1]),
        "integer probabilities": G(
            [1, 0, 0], [PR, PR, PR], [[(1, 1), (1, 2)], [(1, 1)], [(1, 2)]], [1]),
        "bool indices": G(
            [1, 0, 0], [PR, PR, PR], [[(0.5, True), (0.5, 2)], [(1, True)], [(1, 2)]], [True]),
        "tuple finals": G(
            [1, 0, 0], [PR, PR, PR], [[(0.5, 1), (0.5, 2)], [(1, 1)], [(1, 2)]], (1,)),
        "float final 1.0": G(
            [1, 0, 0], [PR, PR, PR], [[(0.5, 1), (0.5, 2)], [(1, 1)], [(1, 2)]], [1.0]),
        "float final 0.5": G(
            [1, 0, 0], [PR, PR, PR], [[(0.5, 1), (0.5, 2)], [(1, 1)], [(1, 2)]], [0.5]),
        "no finals": G(
            [1, 0, 0], [PR, PR, PR], [[(0.5, 1), (0.5, 2)], [(1, 1)], [(1, 2)]], []),
        "all finals": G(
            [1, 0, 0], [PR, PR, PR], [[(0.5, 1), (0.5, 2)], [(1, 1)], [(1, 2)]], [0, 1, 2]),
        "dead P2 cycle with rewards (does not stop)": G(
            [0, 1, 1, 0, 0], [PR, P2, P2, PR, PR],
            [[(0.5, 3), (0.5, 1)], [("a", 2), ("b", 4)], [("a", 1)], [(1, 3)], [(1, 4)]], [3]),
        "rewarded dead sink (stops only when pruned)": G(
            [1, 0, 4], [PR, PR, PR], [[(0.5, 1), (0.5, 2)], [(1, 1)], [(1, 2)]], [1]),
        "infinite reward": G(
            [float("inf"), 0, 0], [PR, PR, PR], [[(0.5, 1), (0.5, 2)], [(1, 1)], [(1, 2)]], [1]),
        "tiny reachability": G(
            [1, 0, 0], [PR, PR, PR], [[(1e-9, 1), (1 - 1e-9, 2)], [(1, 1)], [(1, 2)]], [1]),
        "tolerance tie for player 1": G(
            [0, 1, 2, 0, 0], [P1, PR, PR, PR, PR],
            [[("a", 1), ("b", 2)], [(0.5, 3), (0.5, 4)], [(0.5000001, 3), (0.4999999, 4)],
             [(1, 3)], [(1, 4)]], [3]),
        "game_5_5": G(
            [0, 2, 5 / 3, 0, 0, 0, 0, 0], [P1, P2, P2, PR, PR, PR, PR, PR],
            [[("alfa", 1), ("beta", 2)], [(" ", 3)], [(" ", 4)], [(0.5, 5), (0.5, 6)],
             [(0.75, 6), (0.25, 7)], [(1, 5)], [(1, 6)], [(1, 7)]], [6]),
        "chain through players with probabilistic return": G(
            [1, 2, 3, 0, 0], [P1, P2, PR, PR, PR],
            [[("a", 1), ("b", 2)], [("c", 2), ("d", 4)], [(0.5, 0), (0.25, 3), (0.25, 4)],
             [(1, 3)], [(1, 4)]], [3]),
    }
    for name, game in shapes.items():
        for prune in (True, False):
            for debug in (False, True):
                solve_case(f"B[{name}] debug={debug}", game, prune, debug=debug)

    # ---- C. malformed inputs: exception type + message --------------------- #
    def mutate(rng, game):
        game = copy.deepcopy(game)
        n = len(game["players"])
        s = rng.randrange(n)
        choice = rng.randrange(24)
        tl = game["transition_list"]
        if choice == 0:
            game["rewards"] = game["rewards"][:-1]
        elif choice == 1:
            game["rewards"] = game["rewards"] + [0]
        elif choice == 2:
            game["players"] = game["players"][:-1]
        elif choice == 3:
            game["transition_list"] = tl[:-1]
        elif choice == 4:
            game["rewards"][s] = -1
        elif choice == 5:
            game["final_states"] = game["final_states"] + [n]
        elif choice == 6:
            game["final_states"] = [-1] + game["final_states"]
        elif choice == 7:
            game["players"][s] = "Player 3"
        elif choice == 8:
            tl[s] = []
        elif choice == 9:
            tl[s] = tuple(tl[s])
        elif choice == 10:
            tl[s][0] = list(tl[s][0])
        elif choice == 11:
            tl[s][-1] = tl[s][-1] + (0,)
        elif choice == 12:
            tl[s][0] = (tl[s][0][0],)
        elif choice == 13:
            tl[s][0] = (None, tl[s][0][1])
        elif choice == 14:
            tl[s][-1] = (tl[s][-1][0], "1")
        elif choice == 15:
            tl[s][-1] = (tl[s][-1][0], n)
        elif choice == 16:
            tl[s][0] = (tl[s][0][0], -1)
        elif choice == 17:
            tl[s][0] = (tl[s][0][0], 1.0)
        elif choice == 18:
            game["final_states"] = []
        elif choice == 19:
            game["players"][s] = {P1: PR, P2: PR, PR: P1}[game["players"][s]]
        elif choice == 20:
            game["final_states"] = [f + 0.5 for f in game["final_states"]]
        elif choice == 21:
            game["final_states"] = ["0"]
        elif choice == 22:
            tl[s] = None
        else:
            game["rewards"] = []
        return game

    rng = random.Random(7171)
    for case in range(700):
        game = mutate(rng, rng.choice(pool))
        if rng.random() < 0.3:
            try:
                game = mutate(rng, game)
            except (TypeError, IndexError, KeyError):
                pass                                   # the first mutation already broke that part
        for prune in (True, False):
            solve_case(f"C{case}", game, prune, debug=(case % 11 == 0))

    # ---- D. reverse_dfs directly ------------------------------------------ #
    rng = random.Random(8282)
    for case in range(500):
        game = rng.choice(pool)
        tl = game["transition_list"]
        n = len(tl)
        finals_options = [
            game["final_states"], tuple(game["final_states"]), [], [0], list(range(n)),
            [rng.randrange(n) for _ in range(rng.randint(1, 4))],
            [float(game["final_states"][0])], [n + 3], [-1], [0.5], [True], ["x"], [[0]], None, 3,
            set(game["final_states"]),
        ]
        finals = finals_options[case % len(finals_options)]
        emit(f"D{case} reverse_dfs", guarded(rdfs.reverse_dfs, copy.deepcopy(tl), finals))
        if case % 10 == 0:
            emit(f"D{case} reverse_transition_list", guarded(rdfs.reverse_transition_list, tl))
            emit(f"D{case} core", guarded(rdfs.reverse_transition_list_core, tl))
            visited = {0}
            emit(f"D{case} from", guarded(
                rdfs.reverse_dfs_from, n - 1, rdfs.reverse_transition_list(tl), visited))
            emit(f"D{case} from visited", sorted(visited))
            visited = set()
            emit(f"D{case} from missing", guarded(rdfs.reverse_dfs_from, n + 5, {0: [1], 1: []}, visited))
            emit(f"D{case} from missing visited", sorted(visited))
    odd_lists = [
        [], [[]], [[("a", 5)]], [[("a", 0, 1)]], [[("a",)]], [[("a", [1])], [("a",)]], [None],
        [[("a", 1)], [("b", 0)]], [[(0.5, 1), (0.5, 1)], [(1, 1)]], "ab", [[("a", 1.0)], [("a", True)]],
    ]
    for idx, tl in enumerate(odd_lists):
        for finals in ([0], [1], [], [5], [1.0]):
            emit(f"D-odd{idx} {finals}", guarded(rdfs.reverse_dfs, tl, finals))
        emit(f"D-odd{idx} rtl", guarded(rdfs.reverse_transition_list, tl))
    emit("D dict_of_lists", guarded(rdfs.list_of_tuples_to_dict_of_lists, [(1, 0), (1, 2), (0, 1), (True, 7)]))
    emit("D add_missing", guarded(rdfs.add_missing_states, {2: [1]}, 4))

    # ---- E. nodes and Solver pieces directly ------------------------------ #
    def build_states(game):
        finals = game["final_states"]
        n = len(game["players"])
        return [KIND[player](player=player, idx=idx, next_states=list(transitions), reward=reward,
                             num_states=n, is_final_node=(idx in finals))
                for idx, (player, transitions, reward) in enumerate(
                    zip(game["players"], game["transition_list"], game["rewards"]))]

    def snapshot(states):
        return repr([(s.idx, s.next_states, s.reach_probability, s.expected_rewards,
                      s.expected_rewards_min_reach, s.expected_reach_min_rewards) for s in states])

    VALUES = [0, 0, 0.0, 1, 1.0, 0.5, 0.25, 1e-7, 4e-7, 6e-7, 0.9999996, 1.0000004, 0.3333333333333333, 2.5]

    def randomise(rng, states):
        for state in states:
            state.reach_probability = rng.choice(VALUES)
            state.expected_rewards = rng.choice(VALUES) * rng.choice([1, 3, 10])
            state.expected_rewards_min_reach = rng.choice(VALUES) * rng.choice([1, 3])
            state.expected_reach_min_rewards = rng.choice(VALUES)

    rng = random.Random(9393)
    for case in range(600):
        game = rng.choice(pool)
        debug = case % 9 == 0
        case_timed_out[0] = False
        root.setLevel(logging.DEBUG if debug else logging.WARNING)
        capture.records.clear()

        # node methods on random value assignments
        states = build_states(game)
        randomise(rng, states)
        for state in states:
            emit(f"E{case} reach {state.idx}", guarded(state.value_iteration_reach, states))
            emit(f"E{case} rew {state.idx}", guarded(state.value_iteration_rewards, states))
            if state.player == P1:
                emit(f"E{case} best {state.idx}", guarded(state.get_best_strategies_reachability, states, 6))
                emit(f"E{case} bestrew {state.idx}", guarded(state.get_best_strategies_total_rewards, states, 6))
            if state.player == P2:
                emit(f"E{case} worst {state.idx}", guarded(state.get_worst_strategies_reachability, states, 6))
                emit(f"E{case} worstrew {state.idx}", guarded(state.get_worst_strategies_total_rewards, states, 6))
                emit(f"E{case} minreach {state.idx}", guarded(
                    state._expected_rewards_min_reach, states,
                    rng.choice([[], ["alfa"], ["alfa", "beta", " "], ["nope"], ACTIONS])))
        for state in states:
            if state.player != P2:
                emit(f"E{case} prune_paths {state.idx}", guarded(state.prune_paths, states))
        emit(f"E{case} after node prune", snapshot(states))
        for state in states:
            if state.player != P2 and state.next_states:
                victim = rng.choice(state.next_states)
                if rng.random() < 0.15:
                    victim = (victim[0], victim[1] + 100)
                emit(f"E{case} remove_path {state.idx}", guarded(state.remove_path, victim))
        emit(f"E{case} after remove", snapshot(states))

        # Solver pieces
        threshold = rng.choice([10 ** (-6), 10 ** (-6), 1e-3, 1e-9, 0.5, 1, 2.5])
        states = build_states(game)
        solver = tad.Solver(states, threshold=threshold) if rng.random() < 0.8 else tad.Solver(states)
        emit(f"E{case} floor", (solver.threshold, solver.floor))
        region_options = [
            None, [], list(range(len(states))), [0], [len(states) + 2], [0, len(states)], (0,),
        ]
        region = region_options[case % len(region_options)]
        if region is None:
            region = rdfs.reverse_dfs(game["transition_list"], game["final_states"])
        prune = rng.random() < 0.5
        emit(f"E{case} vi_reach thr={threshold} region={region} prune={prune}",
             guarded(solver.value_iteration_reachability, region, prune))
        if not case_timed_out[0]:
            emit(f"E{case} after vi_reach", snapshot(states))
        emit(f"E{case} reach strategies", guarded(solver._get_reachability_strategies))

        states = build_states(game)
        solver = tad.Solver(states, threshold=threshold)
        outcome = guarded(solver.solve_reachability, game["transition_list"], game["final_states"], prune)
        emit(f"E{case} solve_reachability", outcome)
        if not case_timed_out[0]:
            emit(f"E{case} after solve_reachability", snapshot(states))
        if outcome.startswith("OK") and not case_timed_out[0]:
            strategies = solver._get_reachability_strategies()
            if rng.random() < 0.8:
                emit(f"E{case} prune_reachability", guarded(solver.prune_reachability, strategies))
            step = rng.randrange(4)
            if step == 0:
                emit(f"E{case} prune_paths", guarded(solver.prune_paths))
            elif step == 1:
                emit(f"E{case} prune_states", guarded(solver.prune_states))
            elif step == 2:
                emit(f"E{case} prune_game", guarded(solver.prune_stochastich_game))
            emit(f"E{case} after pruning step {step}", snapshot(states))
            outcome = guarded(solver.solve_total_rewards)
            emit(f"E{case} solve_total_rewards", outcome)
            if not outcome.startswith("TIMEOUT"):
                emit(f"E{case} after total rewards", snapshot(states))
        # pruning on arbitrary value assignments (many zero-probability states)
        states = build_states(game)
        randomise(rng, states)
        solver = tad.Solver(states)
        emit(f"E{case} rnd prune_game", guarded(solver.prune_stochastich_game))
        emit(f"E{case} rnd after prune_game", snapshot(states))
        for state in states:                         # states whose transitions were cut away
            emit(f"E{case} rnd reach {state.idx}", guarded(state.value_iteration_reach, states))
            emit(f"E{case} rnd rew {state.idx}", guarded(state.value_iteration_rewards, states))
            if state.player != P2:
                emit(f"E{case} rnd prune_paths {state.idx}", guarded(state.prune_paths, states))
        emit(f"E{case} rnd region=() reach", guarded(solver.value_iteration_reachability, (), prune))
        emit(f"E{case} rnd region=None reach", guarded(solver.value_iteration_reachability, None, prune))
        emit(f"E{case} rnd prune_states again", guarded(solver.prune_states))
        emit(f"E{case} rnd after again", snapshot(states))
        if not case_timed_out[0]:
            emit(f"E{case} log", log_digest())
        capture.records.clear()
    root.setLevel(logging.WARNING)
    for threshold in (float("nan"), 0, -1, float("inf"), "x", None, 10, 1e-300):
        emit(f"E Solver threshold {threshold!r}", guarded(
            lambda: (lambda s: (s.threshold, s.floor))(tad.Solver([], threshold=threshold))))
    emit("E empty solver reach", guarded(tad.Solver([]).value_iteration_reachability, [], True))
    emit("E empty solver reach no prune", guarded(tad.Solver([]).value_iteration_reachability, [], False))
    emit("E empty solver rewards", guarded(tad.Solver([]).value_iteration_total_rewards))
    emit("E empty solver prune", guarded(tad.Solver([]).prune_stochastich_game))
    emit("E empty solver no finals", guarded(tad.Solver([]).solve_reachability, [], [], True))

    # ---- F. run_games and the report file --------------------------------- #
    rng = random.Random(1212)
    for batch in range(25):
        games = {}
        for k in range(12):
            game = copy.deepcopy(rng.choice(pool))
            if rng.random() < 0.15:
                game = mutate(rng, game)
            games[f"g{batch}_{k}"] = game
        for name, game in shapes.items():
            if batch == 0 and "does not stop" not in name and "stops only" not in name \
                    and "infinite" not in name:
                games[name] = copy.deepcopy(game)
        root.setLevel(logging.INFO if batch % 2 else logging.WARNING)
        capture.records.clear()
        signal.setitimer(signal.ITIMER_REAL, 20 * CASE_TIMEOUT)
        try:
            results = cr.run_games(games)
            signal.setitimer(signal.ITIMER_REAL, 0)
        except CaseTimeout:
            emit(f"F{batch}", "TIMEOUT")
            continue
        except BaseException as error:  # noqa
            signal.setitimer(signal.ITIMER_REAL, 0)
            emit(f"F{batch}", f"EXC {type(error).__name__}: {error}")
            continue
        finally:
            signal.setitimer(signal.ITIMER_REAL, 0)
        for name, result in results.items():
            result["total_time"] = 0.125
            emit(f"F{batch} {name}", repr(result))
        records = [r for r in capture.records if not r.startswith("INFO:Total time")]
        emit(f"F{batch} log", hashlib.sha1("\n".join(records).encode()).hexdigest())
        capture.records.clear()
        cr.save_results_to_file(results, f"some/dir/batch{batch}.py")
        with open(os.path.join(scratch, "outputs", f"batch{batch}.txt"), "rb") as handle:
            emit(f"F{batch} report", hashlib.sha1(handle.read()).hexdigest())
    root.setLevel(logging.WARNING)

    with open(out_path, "w") as handle:
        handle.write("\n".join(lines) + "\n")
    sys.stderr.write(f"[{repo_dir}] {len(lines)} observations, {timeouts[0]} timeouts\n")


# --------------------------------------------------------------------------- #
# driver
# --------------------------------------------------------------------------- #

def main():
    if len(sys.argv) == 4 and sys.argv[1] == "--worker":
        worker(sys.argv[2], sys.argv[3])
        return 0
    if len(sys.argv) != 3:
        print(__doc__)
        return 2
    trees = [os.path.abspath(sys.argv[1]), os.path.abspath(sys.argv[2])]
    workdir = tempfile.mkdtemp(prefix="f06_equiv_main_")
    outs = [os.path.join(workdir, f"transcript{k}.txt") for k in range(2)]
    env = dict(os.environ, PYTHONHASHSEED="0", PYTHONDONTWRITEBYTECODE="1")
    procs = [subprocess.Popen([sys.executable, os.path.abspath(__file__), "--worker", tree, out], env=env)
             for tree, out in zip(trees, outs)]
    codes = [proc.wait(timeout=115) for proc in procs]
    if any(codes):
        print(f"DIFFERENT: worker exit codes {codes}")
        return 1
    transcripts = []
    for out in outs:
        with open(out) as handle:
            transcripts.append(handle.read().split("\n"))
    clean, patched = transcripts
    for number, (a, b) in enumerate(zip(clean, patched)):
        if a != b:
            print(f"DIFFERENT at observation {number}:\n  clean  : {a[:2000]}\n  patched: {b[:2000]}")
            return 1
    if len(clean) != len(patched):
        print(f"DIFFERENT: {len(clean)} vs {len(patched)} observations")
        return 1
    print(f"SAME ({len(clean) - 1} observations)")
    return 0


if __name__ == "__main__":
    sys.exit(main())
