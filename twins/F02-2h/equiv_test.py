#!/usr/bin/env python
"""
Equivalence test for property C02 (reported expected rewards are the values of
the conditioned game).

usage: python equiv_test.py <path-to-patched-root> <path-to-clean-root>

The two trees are loaded in two separate subprocesses (same module names) that
are fed the very same pickled inputs:
  * several hundred random well-formed stopping games (cycles through
    probabilistic states, several finals, dead sinks, explicit zero-probability
    branches, many ties, random numbering), both pruning modes, plus hand-made
    boundary games;
  * the step-by-step pipeline the unit tests use (Solver.solve_reachability,
    prune_reachability, prune_stochastich_game, solve_total_rewards) with the
    node transition lists dumped after pruning;
  * one Bellman step of every node on the untouched game;
  * the batch driver (run_games + save_results_to_file) on dictionaries of random
    games and on the small example inputs of the repository.
Everything is compared exactly (repr of the floats), except wall-clock times.
Node transition lists are compared as plain tuples (the patch stores named
tuples); the worker additionally checks, on the patched tree only, that every
transition a node holds is a Move / Branch at every stage of the pipeline.
remove_path of every node is probed as well.
Prints PASS / FAIL, exit code 0 / 1.
"""
import copy
import os
import pickle
import random
import subprocess
import sys
import tempfile

P1, P2, PR = "Player 1", "Player 2", "Probabilistic"
N_RANDOM_GAMES = 600
REPO_INPUTS = [
    "example_17_08.py", "example_games.py", "paper_games.py", "manual_1_game_a.py",
    "manual_arrow_bottom.py", "robot_1_w1_l2_r6_rb10_lb5_tb10_lt0.py",
    "robot_1_w2_l1_r6_rb10_lb5_tb10_lt0.py", "robot_1_w2_l2_r6_rb10_lb5_tb10_lt0.py",
    "robot_999132423_w3_l3_r6_rb1_lb2_tb10_lt30.py",
    "robot_999132423_w3_l3_r6_rb1_lb2_tb10_lt30_force_down.py",
    "manual_robot_Roborta_1_w4_l4_r5_rb10_lb10_tb10_.py",
]


# --------------------------------------------------------------------------- #
# input generation (parent process only)

def random_probabilities(rng, k):
    style = rng.random()
    if style < 0.35:
        den = rng.choice([2, 3, 4, 5, 8, 10])
        cuts = sorted(rng.randint(0, den) for _ in range(k - 1))
        parts = [b - a for a, b in zip([0] + cuts, cuts + [den])]
        if sum(1 for p in parts if p) == 0:
            parts[0] = den
        return [p / den for p in parts]          # may contain exact zeros
    if style < 0.5:
        eps = rng.choice([1e-9, 1e-7, 1e-4, 1e-3])
        if k == 1:
            return [1]
        rest = [(1 - eps) / (k - 1)] * (k - 1)
        probs = [eps] + rest
        rng.shuffle(probs)
        return probs
    weights = [rng.random() + 0.01 for _ in range(k)]
    total = sum(weights)
    return [w / total for w in weights]


def random_game(rng, n=None):
    """A well-formed stopping game: player states only move up a ranking or into
    absorbing states, probabilistic states move up with positive probability."""
    n = n or rng.choice([1, 2, 2, 3, 3, 4, 5, 6, 7, 8, 9, 10, 12, 14])
    n_abs = 1 if n == 1 else rng.randint(1, max(1, min(4, n - 1)))
    n_final = rng.randint(1, n_abs)
    names = list(range(n))
    if rng.random() < 0.5:
        rng.shuffle(names)                      # random numbering
    elif n > n_abs:
        # state 0 is a transient state, the rest is shuffled
        rest = names[1:]
        rng.shuffle(rest)
        names = rest[:n_abs] + [0] + rest[n_abs:]
    absorbing = names[:n_abs]
    finals = absorbing[:n_final]
    transient = names[n_abs:]                   # rank = position in this list
    players = [None] * n
    rewards = [0] * n
    transitions = [None] * n
    actions = ["a", "b", "c", "d", "e"]
    for s in absorbing:
        players[s] = rng.choice([P1, P2, PR])
        transitions[s] = [(1, s)] if players[s] == PR else [(rng.choice(actions), s)]
        if players[s] == PR and rng.random() < 0.2:
            transitions[s] = [(1.0, s)]
    reward_pool = rng.choice([[0, 1], [0, 1, 2, 3], [1, 1, 2], [0, 0.5, 1.5, 2.5], [0, 5 / 3, 2, 11 / 6]])
    for rank, s in enumerate(transient):
        players[s] = rng.choice([P1, P2, PR, PR])
        rewards[s] = rng.choice(reward_pool)
        higher = transient[rank + 1:] + absorbing
        k = rng.randint(1, 4)
        if players[s] == PR:
            targets = [rng.choice(higher)] + [rng.choice(names) for _ in range(k - 1)]
            probs = random_probabilities(rng, k)
            # the branch going up must have positive probability
            best = max(range(k), key=lambda i: probs[i])
            probs[0], probs[best] = probs[best], probs[0]
            branches = list(zip(probs, targets))
            rng.shuffle(branches)
            if rng.random() < 0.2:
                branches.insert(rng.randint(0, len(branches)), (0, rng.choice(names)))
            if rng.random() < 0.1:
                branches.append((0.0, rng.choice(absorbing)))
            transitions[s] = branches
        else:
            acts = actions[:k]
            rng.shuffle(acts)
            transitions[s] = [(a, rng.choice(higher)) for a in acts]
    return {"rewards": rewards, "players": players, "transition_list": transitions,
            "final_states": finals}


def boundary_games():
    games = []
    # a single state that is final
    games.append({"rewards": [0], "players": [PR], "transition_list": [[(1, 0)]], "final_states": [0]})
    games.append({"rewards": [0], "players": [P1], "transition_list": [[("a", 0)]], "final_states": [0]})
    # initial state with reachability 0 (error with pruning, solved without)
    games.append({"rewards": [3, 0, 0], "players": [PR, PR, P2],
                  "transition_list": [[(1, 1)], [(1, 1)], [("a", 2)]], "final_states": [2]})
    # every branch but one of a probabilistic state is dead, several dead branches
    games.append({"rewards": [1, 2, 0, 0, 0, 4], "players": [PR, PR, PR, PR, PR, P1],
                  "transition_list": [[(0.2, 2), (0.2, 3), (0.2, 1), (0.2, 4), (0.2, 5)],
                                      [(0.5, 4), (0.25, 2), (0.25, 3)],
                                      [(1, 2)], [(1, 3)], [(1, 4)], [("x", 3), ("y", 4), ("z", 2)]],
                  "final_states": [4]})
    # player 2 may walk into a dead state, player 1 ties, zero probability branch to the final
    games.append({"rewards": [1, 1, 1, 0, 0, 2, 2], "players": [P2, P1, P1, PR, PR, PR, PR],
                  "transition_list": [[("l", 1), ("r", 2), ("d", 4)],
                                      [("a", 5), ("b", 6), ("c", 4)],
                                      [("a", 6), ("b", 5)],
                                      [(1, 3)], [(1, 4)],
                                      [(0.5, 3), (0.5, 4), (0, 3)],
                                      [(0.5, 4), (0.5, 3), (0.0, 4)]],
                  "final_states": [3]})
    # probabilistic self loop with a tiny escape probability and a reward on the loop
    games.append({"rewards": [0.001, 0, 0], "players": [PR, PR, PR],
                  "transition_list": [[(0.9, 0), (0.05, 1), (0.05, 2)], [(1, 1)], [(1, 2)]],
                  "final_states": [1]})
    # two finals, initial state is player 2 choosing between them through rewards
    games.append({"rewards": [0, 2, 5, 0, 0], "players": [P2, PR, PR, P2, P1],
                  "transition_list": [[("a", 1), ("b", 2)], [(1, 3)], [(1, 4)], [("s", 3)], [("s", 4)]],
                  "final_states": [3, 4]})
    # malformed games: the error must be the same
    games.append({"rewards": [0, 0], "players": [PR, PR], "transition_list": [[(1, 1)], []], "final_states": [1]})
    games.append({"rewards": [0, -1], "players": [PR, PR], "transition_list": [[(1, 1)], [(1, 1)]], "final_states": [1]})
    games.append({"rewards": [0, 0], "players": [PR, P1], "transition_list": [[(1, 1)], [(1, 1)]], "final_states": [1]})
    games.append({"rewards": [0, 0], "players": [PR, PR], "transition_list": [[(1, 2)], [(1, 1)]], "final_states": [1]})
    return games


def build_inputs(seed=20240202):
    rng = random.Random(seed)
    games = boundary_games() + [random_game(rng) for _ in range(N_RANDOM_GAMES)]
    batches = []
    for b in range(12):
        batch = {}
        for g in range(3):
            batch["g%d_%d" % (b, g)] = random_game(rng)
        if b % 4 == 0:      # an unsolvable game inside a batch
            batch["g%d_dead" % b] = copy.deepcopy(boundary_games()[2])
        batches.append(batch)
    return {"games": games, "batches": batches, "repo_inputs": REPO_INPUTS}


# --------------------------------------------------------------------------- #
# worker (one per tree)

def plain(transitions):
    return [[tuple(t) for t in state_transitions] for state_transitions in transitions]


def outcome(fn):
    try:
        return ("ok", fn())
    except Exception as e:          # noqa: the kind and text of the error are compared
        return ("err", type(e).__name__, str(e))


def patched_checks(tad, game, prune, solution_repr):
    """Checks of the invariant added by the patch (skipped on a tree without it):
    a node's transitions always are Move / Branch named tuples, equal to the plain ones."""
    problems = []
    if not hasattr(tad, "Move"):
        return problems
    g = copy.deepcopy(game)
    try:
        sg = tad.StochasticGame(prune_states=prune, **g)
        sg.check_game()
        states = sg.init_states()
    except ValueError:
        return problems

    def well_typed(when):
        for s in states:
            kind = tad.Branch if s.player == PR else tad.Move
            for t in s.next_states:
                if type(t) is not kind:
                    problems.append("%s: state %d holds %r" % (when, s.idx, t))
    well_typed("after init_states")
    for s, given in zip(states, g["transition_list"]):
        if s.next_states is given:
            problems.append("node %d aliases the caller's list" % s.idx)
        if s.next_states != given or plain([s.next_states]) != [given]:
            problems.append("node %d does not hold the given transitions" % s.idx)
    try:
        solver = tad.Solver(state_list=states)
        strategies, _ = solver.solve_reachability(g["transition_list"], g["final_states"], prune)
        solver.prune_reachability(strategies)
        well_typed("after prune_reachability")
        if prune:
            solver.prune_stochastich_game()
            well_typed("after prune_stochastich_game")
        solver.solve_total_rewards()
        well_typed("after solve_total_rewards")
    except (ValueError, ZeroDivisionError):
        # unsolvable game, or only zero-probability branches survive the pruning: same
        # error in both trees (compared through solve() and the pipeline records)
        pass
    except Exception as e:
        problems.append("pipeline crashed: %r" % (e,))
    if g != game:
        problems.append("the caller's game was altered")
    # plain tuples assigned from outside are normalised too, order kept
    for s, given in zip(states, game["transition_list"]):
        s.next_states = list(reversed(given))
        if s.next_states != list(reversed(given)):
            problems.append("setter changed the transitions of node %d" % s.idx)
    well_typed("after assigning plain tuples")
    return problems


def remove_path_probe(tad, game):
    """remove_path of every fresh node, first and last transition (not used by solve())."""
    out = []
    for which in (0, -1):
        g = copy.deepcopy(game)
        sg = tad.StochasticGame(**g)
        sg.check_game()
        for s in sg.init_states():
            victim = tuple(s.next_states[which])
            try:
                s.remove_path(victim)
                out.append(plain([s.next_states]))
            except ZeroDivisionError:
                out.append(("zero division", plain([s.next_states])))
    return out


def worker(root, inputs_path, out_path):
    sys.path.insert(0, root)
    import tad
    import conditionalrewards
    assert os.path.dirname(os.path.abspath(tad.__file__)) == os.path.abspath(root)
    with open(inputs_path, "rb") as f:
        inputs = pickle.load(f)
    result = {"solve": [], "pipeline": [], "steps": [], "batches": [], "repo": [], "patched_problems": []}

    for game in inputs["games"]:
        for prune in (True, False):
            g = copy.deepcopy(game)
            res = outcome(lambda: repr(tad.StochasticGame(prune_states=prune, **g).solve()))
            untouched = (g == game)
            result["solve"].append((res, untouched))
            for p in patched_checks(tad, game, prune, res):
                result["patched_problems"].append((repr(game), prune, p))

            def pipeline():
                g2 = copy.deepcopy(game)
                sg = tad.StochasticGame(prune_states=prune, **g2)
                sg.check_game()
                states = sg.init_states()
                solver = tad.Solver(state_list=states)
                strategies, n_reach = solver.solve_reachability(g2["transition_list"], g2["final_states"], prune)
                solver.prune_reachability(strategies)
                after_restrict = plain([s.next_states for s in states])
                if prune:
                    solver.prune_stochastich_game()
                after_prune = plain([s.next_states for s in states])
                final, n_rew = solver.solve_total_rewards()
                # a second value iteration on converged values
                n_again = solver.value_iteration_total_rewards()
                return repr((strategies, n_reach, after_restrict, after_prune, final, n_rew, n_again,
                             [s.expected_rewards for s in states],
                             [s.expected_rewards_min_reach for s in states],
                             [s.expected_reach_min_rewards for s in states]))
            result["pipeline"].append(outcome(pipeline))

        def steps():
            g3 = copy.deepcopy(game)
            sg = tad.StochasticGame(**g3)
            sg.check_game()
            states = sg.init_states()
            return repr(([s.value_iteration_rewards(states) for s in states], remove_path_probe(tad, game)))
        result["steps"].append(outcome(steps))

    workdir = tempfile.mkdtemp(prefix="equiv_c02_")
    os.makedirs(os.path.join(workdir, "outputs"))
    os.chdir(workdir)

    def strip(results):
        return {name: {k: v for k, v in res.items() if k != "total_time"} for name, res in results.items()}

    def report(name):
        with open(os.path.join("outputs", name + ".txt")) as f:
            return [line for line in f.read().split("\n") if not line.startswith("Total time")]

    for i, batch in enumerate(inputs["batches"]):
        def run_batch():
            b = copy.deepcopy(batch)
            results = conditionalrewards.run_games(b)
            conditionalrewards.save_results_to_file(results, "somewhere/batch_%d.py" % i)
            return strip(results), report("batch_%d" % i)
        res = outcome(run_batch)
        result["batches"].append(res)
    for name in inputs["repo_inputs"]:
        def run_file():
            games = conditionalrewards.read_dict_from_file(os.path.join(root, "inputs", name))
            results = conditionalrewards.run_games(games)
            conditionalrewards.save_results_to_file(results, "inputs/" + name)
            return strip(results), report(name.split(".")[0])
        result["repo"].append(outcome(run_file))

    with open(out_path, "wb") as f:
        pickle.dump(result, f)


# --------------------------------------------------------------------------- #
# parent

def compare_results_dicts(patched, clean, where, failures):
    """Result dictionaries of run_games: the patched tree may add keys, never change or drop one."""
    if patched[0] != clean[0]:
        failures.append("%s: outcome kind %r vs %r" % (where, patched[:1], clean[:1]))
        return
    if patched[0] == "err":
        if patched != clean:
            failures.append("%s: errors differ %r vs %r" % (where, patched, clean))
        return
    (p_res, p_rep), (c_res, c_rep) = patched[1], clean[1]
    if list(p_res.keys()) != list(c_res.keys()):
        failures.append("%s: game names differ" % where)
        return
    for name in c_res:
        for key, value in c_res[name].items():
            if key not in p_res[name]:
                failures.append("%s/%s: key %s dropped" % (where, name, key))
            elif repr(p_res[name][key]) != repr(value):
                failures.append("%s/%s: %s differs:\n   patched %r\n   clean   %r" % (
                    where, name, key, p_res[name][key], value))
    if p_rep != c_rep:
        failures.append("%s: report files differ" % where)


def main():
    if len(sys.argv) == 5 and sys.argv[1] == "--worker":
        worker(sys.argv[2], sys.argv[3], sys.argv[4])
        return 0
    if len(sys.argv) != 3:
        print(__doc__)
        return 2
    patched_root, clean_root = (os.path.abspath(p) for p in sys.argv[1:3])
    tmp = tempfile.mkdtemp(prefix="equiv_c02_parent_")
    inputs = build_inputs()
    inputs_path = os.path.join(tmp, "inputs.pkl")
    with open(inputs_path, "wb") as f:
        pickle.dump(inputs, f)
    outs = {}
    for label, root in (("patched", patched_root), ("clean", clean_root)):
        out_path = os.path.join(tmp, label + ".pkl")
        env = dict(os.environ, PYTHONDONTWRITEBYTECODE="1", PYTHONHASHSEED="0")
        env.pop("PYTHONPATH", None)
        proc = subprocess.run([sys.executable, os.path.abspath(__file__), "--worker", root, inputs_path, out_path],
                              env=env, cwd=tmp, capture_output=True, text=True, timeout=3600)
        if proc.returncode != 0:
            print("FAIL: worker for the %s tree crashed\n%s" % (label, proc.stderr[-3000:]))
            return 1
        with open(out_path, "rb") as f:
            outs[label] = pickle.load(f)
    patched, clean = outs["patched"], outs["clean"]
    failures = []
    games = inputs["games"]

    solved = errors = 0
    for i, (p, c) in enumerate(zip(patched["solve"], clean["solve"])):
        game, prune = games[i // 2], (i % 2 == 0)
        if p != c:
            failures.append("solve() differs, prune=%s, game=%r\n   patched %r\n   clean   %r" % (prune, game, p, c))
        if not c[1] or not p[1]:
            failures.append("solve() altered its input, game=%r" % (game,))
        solved += c[0][0] == "ok"
        errors += c[0][0] == "err"
    for i, (p, c) in enumerate(zip(patched["pipeline"], clean["pipeline"])):
        if p != c:
            failures.append("step-by-step pipeline differs, prune=%s, game=%r\n   patched %r\n   clean   %r" % (
                i % 2 == 0, games[i // 2], p, c))
    for i, (p, c) in enumerate(zip(patched["steps"], clean["steps"])):
        if p != c:
            failures.append("single Bellman steps differ, game=%r\n   patched %r\n   clean   %r" % (games[i], p, c))
    for kind in ("batches", "repo"):
        for i, (p, c) in enumerate(zip(patched[kind], clean[kind])):
            compare_results_dicts(p, c, "%s[%d]" % (kind, i), failures)
    for key in ("solve", "pipeline", "steps", "batches", "repo"):
        if len(patched[key]) != len(clean[key]):
            failures.append("different number of %s records" % key)
    for game, prune, problem in patched["patched_problems"]:
        failures.append("named transitions: %s (prune=%s, game=%s)" % (problem, prune, game))
    if clean["patched_problems"]:
        failures.append("the clean tree unexpectedly has named transitions")

    print("games: %d (x2 pruning modes), solved runs: %d, error runs: %d, batches: %d, repo inputs: %d" % (
        len(games), solved, errors, len(inputs["batches"]), len(inputs["repo_inputs"])))
    if failures:
        print("FAIL: %d differences" % len(failures))
        for f in failures[:15]:
            print(" -", f)
        return 1
    print("PASS")
    return 0


if __name__ == "__main__":
    sys.exit(main())
