#!/usr/bin/env python
"""Differential test for property C01 (reported reachability probabilities).

usage: python equiv.py <clean_repo_dir> <patched_repo_dir>

Each tree is loaded in its own subprocess (the module names collide).  Both
workers run the SAME deterministic battery and print one line per case:
``<case id>\t<repr of the outcome>``; an outcome is a return value, or the type
and message of the exception.  The parent compares the two streams line by line,
prints ``SAME`` (exit 0) or the first difference (exit 1).

Solves that may not terminate are cut off by a deterministic budget on the
number of Bellman steps (counted through wrappers around the per-kind step
methods); a case cut off in both trees counts as the same.
"""
import os
import subprocess
import sys
import tempfile

WORKER_TIMEOUT = 110


# --------------------------------------------------------------------------- #
# worker
# --------------------------------------------------------------------------- #
def worker(tree):
    import hashlib
    import logging
    import random
    from fractions import Fraction
    from decimal import Decimal

    tree = os.path.abspath(tree)
    sys.path.insert(0, tree)
    import tad
    import reverse_dfs as rdfs
    import conditionalrewards as cr
    import roberta_generator as rg

    assert os.path.dirname(os.path.abspath(tad.__file__)) == tree
    assert os.path.dirname(os.path.abspath(rdfs.__file__)) == tree

    P1, P2, PR = tad.PLAYER_1, tad.PLAYER_2, tad.PROBABILISTIC
    out = sys.stdout

    # ---- deterministic cut-off ------------------------------------------- #
    class Cut(Exception):
        pass

    budget = {"left": 0}

    def wrap(fn):
        def counted(self, state_list, *a, **k):
            budget["left"] -= 1
            if budget["left"] < 0:
                raise Cut("budget exhausted")
            return fn(self, state_list, *a, **k)
        return counted

    for cls in (tad.PlayerOne, tad.PlayerTwo, tad.ProbabilisticNode):
        for name in ("value_iteration_reach", "value_iteration_rewards"):
            setattr(cls, name, wrap(cls.__dict__[name]))

    # ---- log capture ------------------------------------------------------ #
    class Collect(logging.Handler):
        def __init__(self):
            super().__init__()
            self.h = hashlib.md5()
            self.n = 0

        def emit(self, record):
            self.h.update(record.getMessage().encode() + b"\n")
            self.n += 1

    root = logging.getLogger()
    root.addHandler(logging.NullHandler())   # keeps logging.debug() from calling basicConfig()
    root.setLevel(logging.CRITICAL + 1)

    import time as _time
    t0 = _time.time()
    stats = {"cut": 0, "n": 0}

    def emit(case, value):
        out.write(f"{case}\t{value}\n")
        stats["n"] += 1
        stats["cut"] += value.startswith("('cut'")

    def mark(section):
        sys.stderr.write(f"[{os.path.basename(tree)}] {section}: {_time.time() - t0:.1f}s "
                         f"cases={stats['n']} cut={stats['cut']}\n")

    def outcome(fn, steps=200000, log=False):
        budget["left"] = steps
        handler = None
        if log:
            handler = Collect()
            root.addHandler(handler)
            root.setLevel(logging.DEBUG)
        try:
            try:
                res = ("ok", fn())
            except Cut:
                res = ("cut",)
            except RecursionError:
                res = ("recursion",)
            except Exception as e:  # noqa
                res = ("exc", type(e).__name__, str(e))
        finally:
            if handler is not None:
                root.removeHandler(handler)
                root.setLevel(logging.CRITICAL + 1)
        r = repr(res)
        if handler is not None:
            r += f" log={handler.n}:{handler.h.hexdigest()}"
        if len(r) > 1500:
            r = r[:200] + "...md5=" + hashlib.md5(r.encode()).hexdigest()
        return r

    # ---- random well-formed games ----------------------------------------- #
    DYADIC = [[1.0], [0.5, 0.5], [0.25, 0.75], [0.5, 0.25, 0.25], [0.125, 0.875],
              [0.25, 0.25, 0.25, 0.25], [0.0625, 0.9375]]

    def rand_probs(rng, k):
        mode = rng.random()
        if mode < 0.45:
            cands = [d for d in DYADIC if len(d) == k]
            if cands:
                p = list(rng.choice(cands))
                rng.shuffle(p)
                return p
        if mode < 0.6 and k >= 2:
            big = rng.choice([0.9, 0.99, 0.999])
            rest = [(1 - big) / (k - 1)] * (k - 1)
            return [big] + rest
        if mode < 0.75:
            tenths = [0.1] * 10
            cuts = sorted(rng.sample(range(1, 10), k - 1)) if k > 1 else []
            parts, prev = [], 0
            for c in cuts + [10]:
                parts.append(sum(tenths[prev:c]))
                prev = c
            return parts
        w = [rng.random() + 1e-3 for _ in range(k)]
        s = sum(w)
        return [x / s for x in w]

    def rand_game(rng, n=None, shape=None):
        n = n or rng.choice([3, 3, 4, 5, 6, 8, 10, 14, 20, 30])
        shape = shape or rng.choice(["any", "any", "any", "dag", "players", "prob", "ring", "sinks"])
        if shape == "players":
            kinds = [rng.choice([P1, P2]) for _ in range(n)]
        elif shape == "prob":
            kinds = [PR] * n
        else:
            kinds = [rng.choice([P1, P2, PR]) for _ in range(n)]
        n_final = rng.choice([1, 1, 1, 2, 3]) if n > 3 else 1
        finals = rng.sample(range(1 if rng.random() < 0.9 else 0, n), min(n_final, n - 1))
        if rng.random() < 0.3:
            finals = finals + [finals[0]]          # a duplicated final
        absorbing = rng.random() < 0.6
        sinks = set()
        if shape == "sinks" or rng.random() < 0.3:
            sinks = set(rng.sample(range(1, n), rng.randint(1, max(1, n // 4)))) - set(finals)
        trans = []
        for s in range(n):
            if s in finals and absorbing:
                targets = [s]
            elif s in sinks:
                pool = sorted(sinks)
                targets = [rng.choice(pool) for _ in range(rng.randint(1, 2))]
            else:
                k = rng.randint(1, 4)
                if shape == "dag":
                    pool = list(range(s + 1, n)) or [s]
                elif shape == "ring":
                    pool = [(s + 1) % n, (s + 2) % n, s]
                else:
                    pool = list(range(n))
                targets = [rng.choice(pool) for _ in range(k)]   # parallel edges possible
            if kinds[s] == PR:
                probs = rand_probs(rng, len(targets))
                trans.append(list(zip(probs, targets)))
            else:
                names = [f"a{j}" for j in range(len(targets))]
                if rng.random() < 0.1:
                    names = ["a0"] * len(targets)                # duplicated action names
                trans.append(list(zip(names, targets)))
        rewards = [rng.choice([0, 0, 1, 2, 3, 0.5]) for _ in range(n)]
        return dict(rewards=rewards, players=kinds, transition_list=trans, final_states=finals)

    def solve_full(game, prune):
        g = tad.StochasticGame(prune_states=prune, **game)
        return g.solve()

    def solve_reach_only(game, prune, threshold):
        g = tad.StochasticGame(prune_states=prune, **game)
        g.check_game()
        sl = g.init_states()
        solver = tad.Solver(threshold=threshold, state_list=sl)
        try:
            res = solver.solve_reachability(g.transition_list, g.final_states, prune)
        except ValueError as e:
            res = ("ValueError", str(e))
        return (res, [s.reach_probability for s in sl],
                [s.expected_reach_min_rewards for s in sl], solver.floor)

    # A: full solves, both pruning modes
    rng = random.Random(20240601)
    for i in range(350):
        game = rand_game(rng)
        if i % 5 < 3:
            game["rewards"] = [0] * len(game["players"])   # lets the reward phase settle quickly
        for prune in (True, False):
            emit(f"A{i}/{int(prune)}", outcome(lambda: solve_full(game, prune),
                                                steps=4000, log=(i % 7 == 0)))

    mark('B' + ' starts')
    # B: reachability only, several thresholds, log compared on a share
    THRESHOLDS = [10 ** -6, 1e-3, 1e-9, 1e-12, 0.5, 1, 2, 0.3, 1e-15]
    rng = random.Random(777)
    for i in range(900):
        game = rand_game(rng)
        thr = THRESHOLDS[i % len(THRESHOLDS)]
        prune = bool(i % 2)
        emit(f"B{i}", outcome(lambda: solve_reach_only(game, prune, thr),
                              steps=20000, log=(i % 5 == 0)))

    mark('B2 starts')
    # B2: larger random games
    rng = random.Random(4242)
    for i in range(12):
        game = rand_game(rng, n=rng.choice([100, 300, 800]), shape=rng.choice(["any", "ring", "dag"]))
        emit(f"B2-{i}", outcome(lambda: solve_reach_only(game, bool(i % 2), 10 ** -6), steps=60000))

    mark('C' + ' starts')
    # C: single Bellman steps on hand-made state lists (ties, int/float, odd values)
    class Stub:
        def __init__(self, p):
            self.reach_probability = p

    POOL = [0, 0.0, -0.0, 1, 1.0, True, False, 0.5, 0.5, 0.3, 0.1, 0.2, 0.7, 1e-7, 1 - 1e-16,
            float("nan"), float("inf"), float("-inf"), -1, 2, 1.5, -0.25,
            Fraction(1, 2), Fraction(0), Fraction(1), Decimal("0.5"), 10 ** 400]
    SAFE = POOL[:15]
    rng = random.Random(99)
    for i in range(3000):
        n = rng.randint(1, 7)
        pool = SAFE if i % 3 else POOL
        stubs = [Stub(rng.choice(pool)) for _ in range(n)]
        k = rng.randint(1, 6)
        targets = [rng.randrange(n) for _ in range(k)]
        kind = (P1, P2, PR)[i % 3]
        if kind == PR:
            nxt = [(rng.choice([0.5, 0.25, 0.1, 0.2, 0.3, 1, 0, 1.0, 0.7, 1e-3, rng.random()]), t)
                   for t in targets]
            if i % 11 == 0:
                nxt = [(rng.choice([float("inf"), float("nan"), -0.5, True, 3]), t) for t in targets]
        else:
            nxt = [(f"a{j}", t) for j, t in enumerate(targets)]
        cls = {P1: tad.PlayerOne, P2: tad.PlayerTwo, PR: tad.ProbabilisticNode}[kind]

        def step():
            node = cls(player=kind, idx=0, reward=1, next_states=nxt, num_states=n,
                       is_final_node=bool(i % 13 == 0))
            v = node.value_iteration_reach(stubs)
            return (type(v).__name__, v)
        emit(f"C{i}", outcome(step))

    # C2: next_states replaced after construction by odd material
    ODD_NEXT = [lambda: [], lambda: [("a", 0, 9)], lambda: [("a",)], lambda: [("a", 0), ("b", 5)],
                lambda: [("a", -1)], lambda: [("a", "x")], lambda: [(0.5, 0), (0.5, 1, 7)],
                lambda: [[0.5, 1], [0.5, 0]], lambda: ["ab"], lambda: [None], lambda: None, lambda: "ab",
                lambda: [(0.5, 1.0)], lambda: (("a", 1),), lambda: ((0.5, 1), (0.5, 0)),
                lambda: iter([("a", 1), ("b", 0)]), lambda: iter([(0.5, 1), (0.25, 0), (0.25, 1)]),
                lambda: {("a", 1): 0, ("b", 0): 0}, lambda: [(0.1, 0)] * 10, lambda: [(0.1, 1)] * 10]
    for j, make_odd in enumerate(ODD_NEXT):
        for kind, cls in ((P1, tad.PlayerOne), (P2, tad.PlayerTwo), (PR, tad.ProbabilisticNode)):
            def step():
                first = (0.5, 1) if kind == PR else ("a", 1)
                node = cls(player=kind, idx=0, reward=1, next_states=[first], num_states=2,
                           is_final_node=False)
                node.next_states = make_odd()
                v = node.value_iteration_reach([Stub(0.25), Stub(0.75)])
                return (type(v).__name__, v)
            emit(f"C2-{j}-{kind}", outcome(step))

    mark('D' + ' starts')
    # D: value_iteration_reachability called directly with unusual iterables
    def direct(game, make_states, prune, thr):
        g = tad.StochasticGame(prune_states=prune, **game)
        sl = g.init_states()
        solver = tad.Solver(threshold=thr, state_list=sl)
        try:
            res = solver.value_iteration_reachability(make_states(len(sl)), prune)
        except Cut:
            raise
        except Exception as e:  # noqa
            res = (type(e).__name__, str(e))
        return res, [s.reach_probability for s in sl], [s.expected_reach_min_rewards for s in sl]

    MAKERS = [
        ("all", lambda n: list(range(n))),
        ("rev", lambda n: list(range(n - 1, -1, -1))),
        ("gen", lambda n: (s for s in range(n))),
        ("dup", lambda n: [s // 2 for s in range(2 * n)]),
        ("neg", lambda n: [-1, -2, 0]),
        ("tuple", lambda n: tuple(range(0, n, 2))),
        ("set", lambda n: set(range(n))),
        ("empty", lambda n: []),
        ("oob", lambda n: [0, n, 1]),
        ("str", lambda n: [0, "x"]),
        ("none", lambda n: None),
        ("float", lambda n: [0.0]),
        ("bool", lambda n: [True, False]),
        ("dict", lambda n: {s: None for s in range(n)}),
    ]
    rng = random.Random(31337)
    for i in range(40):
        game = rand_game(rng)
        for name, mk in MAKERS:
            emit(f"D{i}-{name}", outcome(lambda: direct(game, mk, bool(i % 2), THRESHOLDS[i % 4]),
                                         steps=10000, log=(i % 4 == 0)))

    mark('E' + ' starts')
    # E: reverse_dfs module
    def snapshot(x):
        if isinstance(x, dict):
            return (type(x).__name__, [(k, snapshot(v)) for k, v in x.items()])
        return (type(x).__name__, repr(x))

    rng = random.Random(5150)
    for i in range(1500):
        game = rand_game(rng)
        tl, fs = game["transition_list"], game["final_states"]
        if i % 4 == 1:
            fs = tuple(fs)
        elif i % 4 == 2:
            fs = list(fs) + [rng.randrange(len(tl))]
        emit(f"E{i}-dfs", outcome(lambda: snapshot(rdfs.reverse_dfs(tl, fs))))
        if i % 3 == 0:
            emit(f"E{i}-rtl", outcome(lambda: snapshot(rdfs.reverse_transition_list(tl))))
            emit(f"E{i}-core", outcome(lambda: snapshot(rdfs.reverse_transition_list_core(tl))))
            core = rdfs.reverse_transition_list_core(tl)
            emit(f"E{i}-d", outcome(lambda: snapshot(rdfs.list_of_tuples_to_dict_of_lists(core))))

            def from_():
                rev = rdfs.reverse_transition_list(tl)
                seen = set(rng_local.sample(range(len(tl)), min(2, len(tl))))
                ret = rdfs.reverse_dfs_from(fs[0], rev, seen)
                return ret, sorted(seen), list(seen)
            rng_local = random.Random(i)
            emit(f"E{i}-from", outcome(from_))

    def missing(d, n):
        before = d
        r = rdfs.add_missing_states(d, n)
        same = r is before
        lists = [v for v in r.values() if isinstance(v, list)]
        distinct = len({id(v) for v in lists}) == len(lists)
        for pos, v in enumerate(lists):
            v.append(("mark", pos))                  # shared lists would show up here
        return same, distinct, snapshot(r), snapshot(before)

    MISSING = [({}, 0), ({}, 3), ({2: [0], 0: [1]}, 4), ({5: [1]}, 3), ({1.0: [2]}, 3), ({True: [0]}, 2),
               ({"1": [0]}, 2), ({0: [], 1: []}, 2), ({0: [1]}, -1), ({0: [1]}, 2.5), ({0: [1]}, "3"),
               ({0: [1]}, None), (None, 2), ([[], []], 2), ({3: [0, 0, 1]}, 5), ({-1: [0]}, 1)]
    for j, (d, n) in enumerate(MISSING):
        emit(f"E-miss{j}", outcome(lambda: missing(d, n)))

    BAD_TUPLES = [[], [(1, 0)], [(1, 0), (1, 0), (2, 1), (1, 2)], [(1,)], [()], [(1, 0, 7)], [([], 0)],
                  [([],)], [("ab")], ["ab", "ac", "b"], [[1, 0], [1, 2]], [{0: 1, 1: 2}], [{}], [None], None, 5,
                  "abc", [(1, 0), None], [(1.0, 0), (1, 1), (True, 2)], [(None, 0), (None, 1)],
                  [((1, 2), 0), ((1, 2), 3)], iter([(1, 0), (2, 0), (1, 5)]), {(1, 0): 0, (2, 3): 0},
                  [(float("nan"), 0), (float("nan"), 1)], [(1, [])], [(1, 0), ({}, 1)]]
    for j, bt in enumerate(BAD_TUPLES):
        emit(f"E-tuples{j}", outcome(lambda: snapshot(rdfs.list_of_tuples_to_dict_of_lists(bt))))

    BAD_TL = [[], [[]], [[], []], [[("a", 1)], [("b", 0)]], [[("a", 1, 2)]], [[("a",)]], [["ab"]], [[None]],
              [None], None, 7, "ab", ["ab", "cd"], [[("a", 5)]], [[("a", "x")], [("b", "x")]],
              [[("a", [])]], [[("a", 1)], 3], [[(0.5, 1), (0.5, 1)], [(1.0, 1)]], "ITER",
              [{"a": 1}], [[("a", -1)], [("b", 0)]], [[("a", 1.0)], [("b", 0)]], [[("a", True)], [("b", 0)]],
              ((("a", 1),), (("b", 0),)), [[("a", None)], [("a", None)]], [[("a", 1), ("b", 2)], [], [("c", 0)]]]
    BAD_FS = [[], [0], [1], [5], [-1], ["x"], [None], None, 0, (1,), {1}, {1: 2}, "1", [[1]], [1.0], [True],
              [1, 1], "ITER", [1, "x"], [0, 1], range(2), [float("nan")]]
    def fresh_tl(tl):
        return [iter([("a", 1)]), [("b", 0)]] if tl == "ITER" else tl

    def fresh_fs(fs):
        return iter([1, 0]) if fs == "ITER" else fs

    for a, tl in enumerate(BAD_TL):
        emit(f"E-core{a}", outcome(lambda: snapshot(rdfs.reverse_transition_list_core(fresh_tl(tl)))))
        emit(f"E-rtl{a}", outcome(lambda: snapshot(rdfs.reverse_transition_list(fresh_tl(tl)))))
        for b, fs in enumerate(BAD_FS):
            emit(f"E-dfs{a}/{b}", outcome(lambda: snapshot(rdfs.reverse_dfs(fresh_tl(tl), fresh_fs(fs)))))

    # string-labelled graphs: set order and sort failures must agree as well
    rng = random.Random(8)
    for i in range(200):
        labels = ["s%d" % k for k in range(rng.randint(2, 6))] + [0, 1, 2][:rng.randint(0, 3)]
        n = rng.randint(2, 6)
        tl = [[("a", rng.choice(labels + list(range(n)))) for _ in range(rng.randint(0, 3))]
              for _ in range(n)]
        fs = [rng.choice(labels + list(range(n))) for _ in range(rng.randint(1, 3))]
        emit(f"E-lab{i}", outcome(lambda: snapshot(rdfs.reverse_dfs(tl, fs))))

    # deep chain: the search must not depend on the recursion limit
    chain_tl = [[("a", k + 1)] for k in range(30000)] + [[("a", 30000)]]
    emit("E-deep", outcome(lambda: hashlib.md5(repr(rdfs.reverse_dfs(chain_tl, [30000])).encode()).hexdigest()))

    mark('F' + ' starts')
    # F: malformed games through StochasticGame.solve
    ok = dict(rewards=[0, 1, 2], players=[P1, PR, P2],
              transition_list=[[("a", 1), ("b", 2)], [(0.5, 0), (0.5, 2)], [("c", 2)]], final_states=[2])
    MUT = [
        {}, {"final_states": []}, {"final_states": [3]}, {"final_states": [-1]}, {"final_states": [0]},
        {"final_states": [0, 1, 2]}, {"final_states": (2,)}, {"final_states": [2.0]}, {"final_states": ["2"]},
        {"final_states": None}, {"final_states": [1]},
        {"rewards": [0, 1]}, {"rewards": [0, -1, 2]}, {"rewards": []}, {"rewards": [0, None, 1]},
        {"players": [P1, PR]}, {"players": [P1, "Player 3", P2]}, {"players": []},
        {"transition_list": [[("a", 1)], [(1.0, 2)]]}, {"transition_list": [[("a", 1)], [], [("c", 2)]]},
        {"transition_list": [[("a", 1)], [(1.0, 3)], [("c", 2)]]},
        {"transition_list": [[("a", 1)], [("x", 2)], [("c", 2)]]},
        {"transition_list": [[(1, 1)], [(1.0, 2)], [("c", 2)]]},
        {"transition_list": [[("a", 1)], [(1.0, 2, 3)], [("c", 2)]]},
        {"transition_list": [[("a", 1)], ((1.0, 2),), [("c", 2)]]},
        {"transition_list": [[("a", 1)], [[1.0, 2]], [("c", 2)]]},
        {"transition_list": [[("a", 1.0)], [(1.0, 2)], [("c", 2)]]},
        {"transition_list": [[("a", -1)], [(1.0, 2)], [("c", 2)]]},
        {"transition_list": [[("a", 0)], [(1.0, 1)], [("c", 2)]]},
        {"transition_list": [[("a", 1)], [(float("inf"), 2), (0.0, 0)], [("c", 2)]]},
        {"transition_list": [[("a", 1)], [(float("nan"), 2), (0.5, 0)], [("c", 2)]]},
        {"transition_list": [[("a", 1)], [(0.7, 2), (0.7, 0)], [("c", 2)]]},
        {"transition_list": [[("a", 1)], [(0.2, 2), (0.2, 0)], [("c", 2)]]},
        {"transition_list": [[("a", 1)], [(-0.5, 2), (1.5, 0)], [("c", 2)]]},
        {"transition_list": [[("a", 1)], [(True, 2)], [("c", 2)]]},
        {"transition_list": [[("a", 1)], [(0, 2), (0, 0)], [("c", 2)]]},
        {"transition_list": None}, {"transition_list": [None, None, None]},
    ]
    for j, mut in enumerate(MUT):
        game = dict(ok)
        game.update(mut)
        for prune in (True, False):
            emit(f"F{j}/{int(prune)}", outcome(lambda: solve_full(game, prune), steps=3000, log=True))

    # N: non-finite probabilities: a NaN change must neither stop nor prolong the iteration
    nan, inf = float("nan"), float("inf")
    NAN_GAMES = [
        dict(players=[PR, PR, P1, P1], final_states=[3],
             transition_list=[[(nan, 3), (1.0, 3)], [(0.5, 1), (0.5, 3)], [("a", 1)], [("f", 3)]]),
        dict(players=[PR, PR, P2, P1], final_states=[3],
             transition_list=[[(inf, 1), (-inf, 1)], [(0.9, 1), (0.1, 3)], [("a", 1), ("b", 0)], [("f", 3)]]),
        dict(players=[P1, PR, PR, P1], final_states=[3],
             transition_list=[[("a", 1), ("b", 2)], [(nan, 3)], [(0.75, 2), (0.25, 3)], [("f", 3)]]),
        dict(players=[P2, PR, PR, P1], final_states=[3],
             transition_list=[[("a", 1), ("b", 2)], [(nan, 3)], [(0.75, 2), (0.25, 3)], [("f", 3)]]),
        dict(players=[PR, PR, PR, P1], final_states=[3],
             transition_list=[[(0.5, 1), (0.5, 2)], [(inf, 0), (1.0, 3)], [(0.99, 2), (0.01, 3)], [("f", 3)]]),
        dict(players=[PR, P1, PR, P1], final_states=[3, 1],
             transition_list=[[(-1.0, 2), (2.0, 0)], [("a", 0)], [(0.5, 0), (0.5, 3)], [("f", 0)]]),
        dict(players=[PR, PR, PR, P1], final_states=[3],
             transition_list=[[(1e308, 1), (1e308, 2)], [(10.0, 1), (0.5, 3)], [(0.5, 1), (0.5, 3)], [("f", 3)]]),
    ]
    for j, game in enumerate(NAN_GAMES):
        game["rewards"] = [0, 1, 0, 0]
        for prune in (True, False):
            for thr in (10 ** -6, 1e-3, 1):
                emit(f"N{j}/{int(prune)}/{thr}", outcome(
                    lambda: solve_reach_only(game, prune, thr), steps=4000, log=True))
            emit(f"N{j}/{int(prune)}/full", outcome(lambda: solve_full(game, prune), steps=4000, log=True))

    mark('G' + ' starts')
    # G: the driver on shipped inputs and generated boards (clock frozen, report bytes compared)
    class Clock:
        @staticmethod
        def time():
            return 0.0
    cr.time = Clock

    def drive(path):
        games = cr.read_dict_from_file(path)
        res = cr.run_games(games)
        cr.save_results_to_file(res, path)
        base = path.split("/")[-1].split(".")[0]
        with open(os.path.join("outputs", base + ".txt"), "rb") as fh:
            data = fh.read()
        probs = {k: hashlib.md5(repr(v["probabilities"]).encode()).hexdigest() for k, v in res.items()}
        return probs, len(data), hashlib.md5(data).hexdigest()

    os.makedirs("outputs", exist_ok=True)
    os.makedirs("inputs", exist_ok=True)
    for name in ["example_17_08.py", "example_games.py", "paper_games.py", "manual_1_game_a.py",
                 "manual_arrow_bottom.py", "robot_1_w2_l2_r6_rb10_lb5_tb10_lt0.py",
                 "robot_999132423_w3_l3_r6_rb1_lb2_tb10_lt30.py",
                 "robot_manual_1_w4_l4_r6_rb10_lb5_tb10_lt30.py",
                 "robot_47_w5_l5_r6_rb10_lb10_tb10_lt30_force_down.py"]:
        path = os.path.join(tree, "inputs", name)
        emit(f"G-{name}", outcome(lambda: drive(path), steps=400000))

    for seed, length, width, fd in [(3, 2, 3, False), (11, 3, 3, True), (5, 4, 4, False)]:
        def board():
            moves, rewards, loose = rg.gen_rnd_board(seed, length, width, 0.3, 6, fd)
            path = f"inputs/gen_{seed}_{length}_{width}.py"
            rg.write_robots(path, length, width, moves, rewards, loose, 0.1, 0.1, 0.1)
            with open(path, "rb") as fh:
                src = hashlib.md5(fh.read()).hexdigest()
            return src, drive(path)
        emit(f"G-board{seed}", outcome(board, steps=400000))

    mark('end')
    out.flush()


# --------------------------------------------------------------------------- #
# parent
# --------------------------------------------------------------------------- #
def main():
    if len(sys.argv) == 3 and sys.argv[1] == "--worker":
        worker(sys.argv[2])
        return 0
    if len(sys.argv) != 3:
        print(__doc__)
        return 2
    trees = [os.path.abspath(p) for p in sys.argv[1:3]]
    env = dict(os.environ, PYTHONHASHSEED="0", PYTHONDONTWRITEBYTECODE="1")
    env.pop("PYTHONPATH", None)
    procs, dirs = [], []
    for tree in trees:
        d = tempfile.mkdtemp(prefix="equiv_F01_")
        dirs.append(d)
        procs.append(subprocess.Popen(
            [sys.executable, os.path.abspath(__file__), "--worker", tree],
            cwd=d, env=env, stdout=subprocess.PIPE, stderr=subprocess.PIPE, text=True))
    outs = []
    failed = False
    for tree, p in zip(trees, procs):
        try:
            so, se = p.communicate(timeout=WORKER_TIMEOUT)
        except subprocess.TimeoutExpired:
            p.kill()
            so, se = p.communicate()
            print(f"DIFF: worker for {tree} timed out")
            failed = True
        if p.returncode != 0:
            print(f"DIFF: worker for {tree} failed with code {p.returncode}\n{se[-2000:]}")
            failed = True
        outs.append(so.splitlines())
    import shutil
    for d in dirs:
        shutil.rmtree(d, ignore_errors=True)
    if failed:
        return 1
    a, b = outs
    for la, lb in zip(a, b):
        if la != lb:
            print("DIFF at case", la.split("\t", 1)[0])
            print(" clean  :", la[:600])
            print(" patched:", lb[:600])
            return 1
    if len(a) != len(b):
        print(f"DIFF: {len(a)} cases vs {len(b)} cases")
        return 1
    if not a:
        print("DIFF: no cases ran")
        return 1
    print("SAME")
    print(f"{len(a)} cases compared", file=sys.stderr)
    return 0


if __name__ == "__main__":
    sys.exit(main())
