#!/usr/bin/env python
"""
Equivalence test for property C12 (batch runs solve each game in isolation and
report failures).

usage: python equiv_test.py <path-to-patched-root> <path-to-clean-root>

The two trees are loaded in separate subprocesses (this very file, started with
--worker).  The parent process

 1. generates several hundred random well-formed games (cycles, several finals,
    dead states, ties, unreachable states, tiny / near-1 probabilities), a set of
    boundary games, a pool of malformed games (every ValueError the solver can
    raise) and a pool of games that make the driver crash (TypeError ...);
 2. lets the CLEAN tree screen the candidates (a solve that does not converge
    within 50 ms is dropped - value iteration diverges on some random games);
 3. builds many batches (subsets, orders, failing game first / between / last,
    colliding names, pre-set prune_states keys, shared sub-lists ...);
 4. runs every batch with run_games in both trees and compares, entry by entry
    and in order, everything but the timings - and the state of the input
    dictionary after the run, and the exception when the run crashes;
 5. checks the property itself in the patched tree: every entry of a batch is
    what the game gives when it is run alone, and what StochasticGame.solve gives
    on a private copy;
 6. runs `python conditionalrewards.py -f FILE -s` in both trees and compares the
    report files line by line (timing lines and the lines the patch adds on
    purpose are filtered out).

Prints PASS and exits 0 when no difference is found, FAIL and exits 1 otherwise.
"""
import copy
import os
import pickle
import random
import shutil
import subprocess
import sys
import tempfile

# --------------------------------------------------------------------------
# what this variant is allowed to add
# --------------------------------------------------------------------------
VARIANT = 1
if VARIANT == 1:
    # keyword arguments run_games is called with in the patched tree; every one of
    # them must give the entries of the clean tree
    PATCHED_KWARGS = [{}, {"repeat": 1}, {"repeat": 2}, {"repeat": 3}]
    NEW_KEYS = {"n_runs", "best_time", "mean_time"}
    NEW_REPORT_LINES = ("Timed runs ", "Best time ", "Mean time ")
    PATCHED_CLI_ARGS = [[], ["-r", "1"], ["--repeat", "3"]]
else:
    PATCHED_KWARGS = [{}]
    NEW_KEYS = set()
    NEW_REPORT_LINES = ()
    PATCHED_CLI_ARGS = [[]]
TIME_KEYS = {"total_time"} | {k for k in NEW_KEYS if k.endswith("_time")}
TIME_REPORT_LINES = ("Total time ",)

P1, P2, PR = "Player 1", "Player 2", "Probabilistic"


# --------------------------------------------------------------------------
# worker: runs inside one tree
# --------------------------------------------------------------------------
def worker(root, job_file, out_file):
    import logging
    import signal
    sys.path.insert(0, root)
    import conditionalrewards
    import tad
    assert os.path.realpath(conditionalrewards.__file__).startswith(os.path.realpath(root))
    assert os.path.realpath(tad.__file__).startswith(os.path.realpath(root))
    logging.disable(logging.CRITICAL)
    with open(job_file, "rb") as f:
        job = pickle.load(f)
    pool = job["pool"]

    class Timeout(BaseException):
        pass

    def on_alarm(signum, frame):
        raise Timeout()

    def safe_repr(x):
        try:
            return repr(x)
        except BaseException as e:  # noqa
            return "<unreprable %s>" % type(e).__name__

    def run_batch(batch, kwargs):
        games = {}
        for name, key in batch:
            games[name] = copy.deepcopy(pool[key])
        try:
            res = conditionalrewards.run_games(games, **kwargs)
        except Timeout:
            raise
        except Exception as e:
            return {"status": "exc", "exc": (type(e).__name__, str(e)), "after": safe_repr(games)}
        entries = []
        for name, entry in res.items():
            entries.append((name, {k: (v if k in job["time_keys"] else safe_repr(v))
                                   for k, v in entry.items()}, list(entry.keys())))
        return {"status": "ok", "entries": entries, "after": safe_repr(games)}

    out = {}
    if job["mode"] == "screen":
        signal.signal(signal.SIGALRM, on_alarm)
        keep = []
        for key in job["keys"]:
            signal.setitimer(signal.ITIMER_REAL, job["limit"])
            try:
                run_batch([("g", key)], {})
                signal.setitimer(signal.ITIMER_REAL, 0)
                keep.append(key)
            except Timeout:
                pass
            finally:
                signal.setitimer(signal.ITIMER_REAL, 0)
        out["keep"] = keep
    elif job["mode"] == "run":
        out["batches"] = {}
        for kw_idx, kwargs in enumerate(job["kwargs"]):
            for b_idx, batch in enumerate(job["batches"]):
                out["batches"][(kw_idx, b_idx)] = run_batch(batch, kwargs)
        # the reference of the property: the game solved alone, directly with the solver
        out["direct"] = {}
        for key in job["direct_keys"]:
            ref = {}
            for prune in (True, False):
                g = copy.deepcopy(pool[key])
                g["prune_states"] = prune
                sg = tad.StochasticGame(**g)
                n_tr = sg.count_transitions()
                if not prune and ref[True][0] == "err":
                    # the driver does not attempt it either (and it need not converge)
                    ref[prune] = ("skipped", sg.num_states, n_tr, None)
                    continue
                try:
                    sol = sg.solve()
                    ref[prune] = ("ok", sg.num_states, n_tr, [safe_repr(x) for x in sol])
                except ValueError as e:
                    ref[prune] = ("err", sg.num_states, n_tr, str(e))
            out["direct"][key] = ref
        # argument validation of the new option (only asked of the patched tree)
        out["bad_kwargs"] = []
        for kwargs in job.get("bad_kwargs", []):
            games = {"g": copy.deepcopy(pool[job["direct_keys"][0]])}
            before = safe_repr(games)
            try:
                conditionalrewards.run_games(games, **kwargs)
                out["bad_kwargs"].append((kwargs, "no error", before == safe_repr(games)))
            except Exception as e:
                out["bad_kwargs"].append((kwargs, type(e).__name__, before == safe_repr(games)))
    with open(out_file, "wb") as f:
        pickle.dump(out, f)


# --------------------------------------------------------------------------
# parent: game generation
# --------------------------------------------------------------------------
PROB_TEMPLATES = {
    1: [[1], [1.0]],
    2: [[0.5, 0.5], [0.9, 0.1], [0.25, 0.75], [1 / 3, 2 / 3], [0.1, 0.9],
        [1 - 1e-9, 1e-9], [0.999999, 0.000001], [0.6, 0.4]],
    3: [[0.2, 0.3, 0.5], [0.8, 0.1, 0.1], [0.8, 0.125, 0.075], [1 / 3, 1 / 3, 1 / 3],
        [0.5, 0.25, 0.25], [0.98, 0.01, 0.01]],
}


def absorbing(player, idx, rng):
    if player == PR:
        return [(rng.choice([1, 1.0]), idx)]
    return [("stay", idx)]


def random_game(rng):
    n = rng.choice([1, 2, 2, 3, 3, 4, 4, 5, 5, 6, 6, 7, 8, 10, 12, 16])
    n_sinks = 1 if n < 3 else rng.choice([1, 2, 2, 3])
    n_sinks = min(n_sinks, n)
    players = [rng.choice([P1, P2, PR, PR]) for _ in range(n)]
    rewards = [rng.choice([0, 0, 0, 1, 2, 3, 5, 10, 0.5, 2.5]) for _ in range(n)]
    transitions = []
    first_sink = n - n_sinks
    for i in range(n):
        if i >= first_sink:
            rewards[i] = 0
            transitions.append(absorbing(players[i], i, rng))
            continue
        forward = list(range(i + 1, n))
        m = rng.choice([1, 2, 2, 3])
        if players[i] == PR:
            probs = list(rng.choice(PROB_TEMPLATES[m]))
            rng.shuffle(probs)
            targets = [rng.choice(forward)]
            for _ in range(m - 1):
                targets.append(rng.randrange(n) if rng.random() < 0.6 else rng.choice(forward))
            transitions.append(list(zip(probs, targets)))
        else:
            names = rng.sample(["a", "b", "c", "d"], m)
            if m > 1 and rng.random() < 0.05:
                names[1] = names[0]         # duplicated action name
            targets = []
            for _ in range(m):
                if rng.random() < 0.3 and targets:
                    targets.append(targets[0])      # tie: two actions, same successor
                elif players[i] == P2 and rng.random() < 0.1:
                    targets.append(rng.randrange(n))  # a back edge of player 2
                else:
                    targets.append(rng.choice(forward))
            transitions.append(list(zip(names, targets)))
    k = rng.choice([1, 1, 2, 3])
    if rng.random() < 0.6:
        finals = [n - 1] + [rng.randrange(n) for _ in range(k - 1)]
    else:
        finals = [rng.randrange(n) for _ in range(k)]
    if rng.random() < 0.8:
        finals = sorted(set(finals))
    game = {"rewards": rewards, "players": players,
            "transition_list": transitions, "final_states": finals}
    if rng.random() < 0.1:
        game["prune_states"] = rng.choice([True, False, None, "yes"])
    return game


def boundary_games():
    g = {}
    g["one_state_final"] = {"rewards": [0], "players": [PR], "transition_list": [[(1, 0)]],
                            "final_states": [0]}
    g["one_state_p1_final"] = {"rewards": [0], "players": [P1],
                               "transition_list": [[("a", 0)]], "final_states": [0]}
    g["one_state_p2_final_reward"] = {"rewards": [0], "players": [P2],
                                      "transition_list": [[("a", 0)]], "final_states": [0, 0]}
    g["two_states"] = {"rewards": [3, 0], "players": [P1, PR],
                       "transition_list": [[("go", 1)], [(1.0, 1)]], "final_states": [1]}
    g["initial_is_final"] = {"rewards": [0, 0], "players": [PR, PR],
                             "transition_list": [[(0.5, 0), (0.5, 1)], [(1, 1)]],
                             "final_states": [0]}
    g["no_solution"] = {"rewards": [1, 0, 0], "players": [P1, PR, PR],
                        "transition_list": [[("a", 1)], [(1, 1)], [(1, 2)]], "final_states": [2]}
    g["no_solution_p2"] = {"rewards": [0, 0, 0], "players": [P2, PR, PR],
                           "transition_list": [[("a", 1), ("b", 2)], [(1, 1)], [(1, 2)]],
                           "final_states": [2]}
    g["tie_everywhere"] = {"rewards": [1, 1, 1, 0, 0], "players": [P1, P2, P2, PR, PR],
                           "transition_list": [[("a", 1), ("b", 2)], [("a", 3), ("b", 3)],
                                               [("a", 3), ("b", 3)], [(0.5, 3), (0.5, 4)], [(1, 4)]],
                           "final_states": [3]}
    g["all_final"] = {"rewards": [0, 0], "players": [P1, P2],
                      "transition_list": [[("a", 1)], [("a", 1)]], "final_states": [0, 1]}
    g["tuple_finals"] = {"rewards": (2, 0), "players": (P1, PR),
                         "transition_list": [[("go", 1)], [(1.0, 1)]], "final_states": (1,)}
    g["bool_probability"] = {"rewards": [True, 0], "players": [PR, PR],
                             "transition_list": [[(True, 1)], [(1, 1)]], "final_states": [1]}
    # sub-lists shared between states, and between fields
    shared = [(1, 2)]
    g["shared_rows"] = {"rewards": [1, 1, 0], "players": [PR, PR, PR],
                        "transition_list": [shared, shared, shared], "final_states": [2]}
    both2 = [0, 1]
    g["rewards_is_finals"] = {"rewards": both2, "players": [P1, PR],
                              "transition_list": [[("x", 1), ("y", 0)], [(1, 1)]],
                              "final_states": both2}
    return g


def malformed_games(good):
    """ games on which the (pruned) solve raises a ValueError """
    def mut(f):
        gm = copy.deepcopy(good)
        f(gm)
        return gm
    n = len(good["players"])
    m = {}
    m["short_transitions"] = mut(lambda x: x["transition_list"].pop())
    m["long_rewards"] = mut(lambda x: x["rewards"].append(0))
    m["short_rewards"] = mut(lambda x: x["rewards"].pop())
    m["negative_reward"] = mut(lambda x: x["rewards"].__setitem__(1, -1))
    m["final_too_big"] = mut(lambda x: x["final_states"].append(n))
    m["final_negative"] = mut(lambda x: x["final_states"].append(-1))
    m["bad_player"] = mut(lambda x: x["players"].__setitem__(1, "Player 3"))
    m["empty_row"] = mut(lambda x: x["transition_list"].__setitem__(1, []))
    m["row_is_tuple"] = mut(lambda x: x["transition_list"].__setitem__(
        1, tuple(x["transition_list"][1])))
    m["row_is_none"] = mut(lambda x: x["transition_list"].__setitem__(1, None))
    m["entry_is_list"] = mut(lambda x: x["transition_list"].__setitem__(
        0, [list(t) for t in x["transition_list"][0]]))
    m["entry_len_3"] = mut(lambda x: x["transition_list"].__setitem__(
        0, [t + (0,) for t in x["transition_list"][0]]))
    m["entry_len_1"] = mut(lambda x: x["transition_list"].__setitem__(
        0, [t[:1] for t in x["transition_list"][0]]))
    m["action_not_str"] = mut(lambda x: x["transition_list"].__setitem__(0, [(1, 1)]))
    m["prob_not_number"] = mut(lambda x: x["transition_list"].__setitem__(1, [("1", 1)]))
    m["next_not_int"] = mut(lambda x: x["transition_list"].__setitem__(0, [("a", 1.0)]))
    m["next_is_str"] = mut(lambda x: x["transition_list"].__setitem__(0, [("a", "1")]))
    m["next_too_big"] = mut(lambda x: x["transition_list"].__setitem__(0, [("a", n)]))
    m["next_negative"] = mut(lambda x: x["transition_list"].__setitem__(0, [("a", -1)]))
    m["no_finals"] = mut(lambda x: x.__setitem__("final_states", []))
    m["empty_game"] = {"rewards": [], "players": [], "transition_list": [], "final_states": [0]}
    m["row_mutable_nested"] = mut(lambda x: x["transition_list"].__setitem__(
        1, [(0.5, [1]), (0.5, 1)]))
    cyc = copy.deepcopy(good)
    cyc["transition_list"][1] = cyc["transition_list"]      # a list that contains itself
    m["cyclic_rows"] = cyc
    cyc2 = copy.deepcopy(good)
    cyc2["rewards"].append(cyc2["rewards"])
    m["cyclic_rewards"] = cyc2
    return m


def crashing_games(good):
    """ games on which run_games itself raises (not a ValueError of the solve) """
    def mut(f):
        gm = copy.deepcopy(good)
        f(gm)
        return gm
    c = {}
    c["missing_rewards"] = mut(lambda x: x.pop("rewards"))
    c["extra_key"] = mut(lambda x: x.__setitem__("comment", "hello"))
    c["rewards_none"] = mut(lambda x: x.__setitem__("rewards", None))
    c["players_none"] = mut(lambda x: x.__setitem__("players", None))
    c["finals_none"] = mut(lambda x: x.__setitem__("final_states", None))
    c["finals_int"] = mut(lambda x: x.__setitem__("final_states", 2))
    c["rewards_str"] = mut(lambda x: x["rewards"].__setitem__(0, "1"))
    c["transitions_none"] = mut(lambda x: x.__setitem__("transition_list", None))
    c["not_a_dict"] = [1, 2, 3]
    c["none_game"] = None
    return c


GOOD_TEMPLATE = {
    "rewards": [10, 0, 5, 0, 0],
    "players": [P1, PR, P2, PR, PR],
    "transition_list": [[("alfa_1", 1), ("alfa_2", 2)],
                        [(0.8, 4), (0.1, 0), (0.1, 3)],
                        [("gamma_1", 1), ("gamma_2", 4)],
                        [(1, 3)],
                        [(1, 4)]],
    "final_states": [4],
}


def load_repo_inputs(root):
    games = {}
    for fn in ("example_17_08.py", "example_games.py", "paper_games.py", "manual_1_game_a.py",
               "robot_1_w1_l2_r6_rb10_lb5_tb10_lt0.py", "robot_1_w2_l1_r6_rb10_lb5_tb10_lt0.py",
               "robot_1_w2_l2_r6_rb10_lb5_tb10_lt0.py"):
        path = os.path.join(root, "inputs", fn)
        if os.path.exists(path):
            with open(path) as f:
                d = eval(f.read())
            for name, game in d.items():
                games["repo:%s:%s" % (fn, name)] = game
    return games


# --------------------------------------------------------------------------
# parent: orchestration
# --------------------------------------------------------------------------
def call_worker(root, job, tmp, tag, timeout=900):
    job_file = os.path.join(tmp, tag + ".job")
    out_file = os.path.join(tmp, tag + ".out")
    with open(job_file, "wb") as f:
        pickle.dump(job, f)
    proc = subprocess.run([sys.executable, os.path.abspath(__file__), "--worker", root,
                           job_file, out_file], timeout=timeout,
                          stdout=subprocess.PIPE, stderr=subprocess.PIPE, text=True)
    if proc.returncode != 0 or not os.path.exists(out_file):
        raise RuntimeError("worker %s failed (rc %s):\n%s\n%s" % (tag, proc.returncode, proc.stdout, proc.stderr))
    with open(out_file, "rb") as f:
        return pickle.load(f)


def strip_entry(entry, keys, allowed_new):
    """ the comparable part of an entry: HEAD's keys, in HEAD's order, minus the timings """
    return [(k, entry[k]) for k in keys if k not in TIME_KEYS and k not in allowed_new]


def main():
    if len(sys.argv) != 3:
        print(__doc__)
        sys.exit(2)
    patched, clean = os.path.abspath(sys.argv[1]), os.path.abspath(sys.argv[2])
    failures = []

    def fail(msg):
        failures.append(msg)
        if len(failures) <= 25:
            print("DIFF:", msg)

    rng = random.Random(20241012)
    tmp = tempfile.mkdtemp(prefix="c12_equiv_")
    try:
        # ---- 1. candidates -------------------------------------------------
        pool = {}
        for i in range(900):
            pool["rnd%03d" % i] = random_game(rng)
        for k, v in boundary_games().items():
            pool["bnd:" + k] = v
        pool.update(load_repo_inputs(clean))
        good_keys = list(pool)
        bad = {"bad:" + k: v for k, v in malformed_games(GOOD_TEMPLATE).items()}
        # a few malformed variants of random games too
        for i in range(40):
            base = pool["rnd%03d" % i]
            if len(base["players"]) < 3:
                continue
            mm = malformed_games({k: v for k, v in base.items() if k != "prune_states"})
            pick = rng.choice(sorted(mm))
            try:
                bad["bad:rnd%03d:%s" % (i, pick)] = mm[pick]
            except Exception:
                pass
        crash = {"crash:" + k: v for k, v in crashing_games(GOOD_TEMPLATE).items()}
        pool.update(bad)
        pool.update(crash)
        pool["good:template"] = copy.deepcopy(GOOD_TEMPLATE)
        good_keys.append("good:template")

        # ---- 2. screening by the clean tree --------------------------------
        screen = call_worker(clean, {"mode": "screen", "pool": pool, "keys": list(pool),
                                     "limit": 0.05, "time_keys": TIME_KEYS}, tmp, "screen")
        kept = set(screen["keep"])
        good_keys = [k for k in good_keys if k in kept]
        bad_keys = [k for k in bad if k in kept]
        crash_keys = [k for k in crash if k in kept]
        print("games kept after screening: %d well-formed candidates, %d malformed, %d crashing"
              % (len(good_keys), len(bad_keys), len(crash_keys)))
        if len(good_keys) < 500 or len(bad_keys) < 20:
            fail("screening kept too few games")

        # ---- 3. batches -----------------------------------------------------
        batches = []
        solo_index = {}
        for k in good_keys + bad_keys:
            solo_index[k] = len(batches)
            batches.append([(k, k)])
        n_solo = len(batches)
        for _ in range(260):                                  # random mixes
            size = rng.choice([2, 3, 3, 4, 5, 6, 8])
            keys = [rng.choice(bad_keys) if rng.random() < 0.3 else rng.choice(good_keys)
                    for _ in range(size)]
            keys = list(dict.fromkeys(keys))
            batches.append([(k, k) for k in keys])
        for _ in range(60):                                   # same subset, several orders
            keys = list(dict.fromkeys(rng.sample(good_keys, 3) + rng.sample(bad_keys, 2)))
            for _ in range(3):
                rng.shuffle(keys)
                batches.append([(k, k) for k in keys])
        for _ in range(40):                                   # failing first / between / last
            g1, g2 = rng.sample(good_keys, 2)
            b = rng.choice(bad_keys)
            batches.append([(b, b), (g1, g1), (g2, g2)])
            batches.append([(g1, g1), (b, b), (g2, g2)])
            batches.append([(g1, g1), (g2, g2), (b, b)])
            batches.append([(b, b), (rng.choice(bad_keys) + "'", rng.choice(bad_keys)), (g1, g1)])
        for _ in range(40):                                   # the same game twice, colliding names
            g1, g2 = rng.sample(good_keys, 2)
            b = rng.choice(bad_keys)
            batches.append([("a", g1), ("a_no_prune", g2), ("b", g1)])
            batches.append([("a_no_prune", g2), ("a", g1)])
            batches.append([("a", b), ("a_no_prune", g2), ("a_no_prune_no_prune", g1)])
            batches.append([("", g1), ("_no_prune", b)])
        batches.append([])                                    # the empty file
        n_compared_for_isolation = len(batches)
        for _ in range(60):                                   # crashing games
            keys = list(dict.fromkeys(rng.sample(good_keys, 2) + [rng.choice(bad_keys)]))
            c = rng.choice(crash_keys)
            pos = rng.randrange(len(keys) + 1)
            keys.insert(pos, c)
            batches.append([(k, k) for k in keys])
        for c in crash_keys:
            batches.append([(c, c)])
        g1 = good_keys[0]
        batches.append([(5, g1), (6, g1)])                    # names that are not strings
        batches.append([(("t", 1), g1)])
        print("batches: %d (of which %d single-game runs)" % (len(batches), n_solo))

        # ---- 4. run both trees ---------------------------------------------
        direct_keys = good_keys + bad_keys
        job = {"mode": "run", "pool": pool, "batches": batches, "kwargs": [{}],
               "direct_keys": direct_keys, "time_keys": TIME_KEYS}
        out_clean = call_worker(clean, job, tmp, "clean")
        job_p = dict(job, kwargs=PATCHED_KWARGS)
        if VARIANT == 1:
            job_p["bad_kwargs"] = [{"repeat": 0}, {"repeat": -1}, {"repeat": True},
                                   {"repeat": "2"}, {"repeat": 1.5}, {"repeat": None}]
        out_patched = call_worker(patched, job_p, tmp, "patched")

        if out_clean["direct"] != out_patched["direct"]:
            fail("the solver itself differs between the trees (direct solves)")

        n_entries = 0
        for kw_idx, kwargs in enumerate(PATCHED_KWARGS):
            for b_idx, batch in enumerate(batches):
                rc = out_clean["batches"][(0, b_idx)]
                rp = out_patched["batches"][(kw_idx, b_idx)]
                where = "batch %d %r kwargs %r" % (b_idx, [b[0] for b in batch], kwargs)
                if rc["status"] != rp["status"]:
                    fail("%s: status %s vs %s (%s / %s)" % (where, rc["status"], rp["status"],
                                                          rc.get("exc"), rp.get("exc")))
                    continue
                if rc["after"] != rp["after"]:
                    fail("%s: the input dictionary is left in a different state" % where)
                if rc["status"] == "exc":
                    if rc["exc"] != rp["exc"]:
                        fail("%s: exception %r vs %r" % (where, rc["exc"], rp["exc"]))
                    continue
                if [e[0] for e in rc["entries"]] != [e[0] for e in rp["entries"]]:
                    fail("%s: entry names/order differ" % where)
                    continue
                for (name, ec, keys_c), (_, ep, keys_p) in zip(rc["entries"], rp["entries"]):
                    n_entries += 1
                    if [k for k in keys_p if k not in NEW_KEYS] != keys_c:
                        fail("%s: keys of entry %r differ: %r vs %r" % (where, name, keys_c, keys_p))
                        continue
                    if set(keys_p) - set(keys_c) != NEW_KEYS:
                        fail("%s: unexpected new keys in %r: %r" % (where, name, keys_p))
                    a = strip_entry(ec, keys_c, NEW_KEYS)
                    b = strip_entry(ep, keys_c, NEW_KEYS)
                    if a != b:
                        fail("%s: entry %r differs:\n   clean   %r\n   patched %r" % (where, name, a, b))
                    for tk in TIME_KEYS:
                        if not (isinstance(ep[tk], float) and ep[tk] >= 0):
                            fail("%s: %s of %r is %r" % (where, tk, name, ep[tk]))
                    if VARIANT == 1:
                        want = kwargs.get("repeat", 1)
                        msg = ep["msg"]
                        exp_runs = want if msg == repr("Game solved") else (
                            0 if msg == repr("Game not solved") else 1)
                        if ep["n_runs"] != repr(exp_runs):
                            fail("%s: n_runs of %r is %s, expected %d" % (where, name, ep["n_runs"], exp_runs))
                        if not (ep["best_time"] <= ep["mean_time"] <= ep["total_time"] + 1e-12):
                            fail("%s: inconsistent timings in %r" % (where, name))
        print("entries compared between the trees: %d" % n_entries)

        if VARIANT == 1:
            for kwargs, outcome, untouched in out_patched["bad_kwargs"]:
                if outcome != "ValueError" or not untouched:
                    fail("run_games(**%r): %s, input untouched: %s" % (kwargs, outcome, untouched))

        # ---- 5. the property itself, in the patched tree ---------------------
        n_iso = 0
        for kw_idx, kwargs in enumerate(PATCHED_KWARGS):
            for b_idx in range(n_compared_for_isolation):
                batch = batches[b_idx]
                names = [b[0] for b in batch]
                if any((str(n) + "_no_prune") in names for n in names):
                    continue    # colliding names: an entry is overwritten, compared with HEAD above
                rp = out_patched["batches"][(kw_idx, b_idx)]
                if rp["status"] != "ok":
                    fail("batch %d crashed in the patched tree: %r" % (b_idx, rp.get("exc")))
                    continue
                got = {name: (e, keys) for name, e, keys in rp["entries"]}
                if len(got) != 2 * len(batch):
                    fail("batch %d: %d entries for %d games" % (b_idx, len(got), len(batch)))
                for name, key in batch:
                    solo = out_patched["batches"][(0, solo_index[key])]
                    solo_entries = {n: (e, keys) for n, e, keys in solo["entries"]}
                    direct = out_patched["direct"][key]
                    for suffix, prune in (("", True), ("_no_prune", False)):
                        n_iso += 1
                        e, keys = got[name + suffix]
                        se, skeys = solo_entries[key + suffix]
                        if strip_entry(e, keys, NEW_KEYS) != strip_entry(se, skeys, NEW_KEYS):
                            fail("batch %d: entry %r is not what the game gives alone" % (b_idx, name + suffix))
                        # against the solver used directly
                        if direct[True][0] == "err":
                            exp_msg = ("Error while solving the game: " + direct[True][3]) if prune \
                                else "Game not solved"
                            exp_sol = [repr(x) for x in (None, None, None, None, 0, 0, 0, 0)]
                        else:
                            exp_msg = "Game solved"
                            exp_sol = direct[prune][3]
                        got_sol = [e["final_strategies"], e["reachability_strategies"], e["rewards"],
                                   e["probabilities"], e["n_iterations_reach"], e["n_iterations_rew"],
                                   e["prob_min_rew"], e["rew_min_reach"]]
                        if e["msg"] != repr(exp_msg) or got_sol != exp_sol \
                                or e["n_states"] != repr(direct[prune][1]) \
                                or e["n_transitions"] != repr(direct[prune][2]):
                            fail("batch %d: entry %r is not what StochasticGame.solve gives" % (b_idx, name + suffix))
        print("entries checked against the game solved alone: %d" % n_iso)

        # ---- 6. the command line and the report ------------------------------
        files = {}
        for i in range(25):
            keys = list(dict.fromkeys(rng.sample(good_keys, rng.choice([1, 2, 3, 4]))
                                      + rng.sample(bad_keys, rng.choice([0, 1, 2]))))
            keys = [k for k in keys if "cyclic" not in k]
            rng.shuffle(keys)
            files["file%02d.py" % i] = {k.replace(":", "_"): pool[k] for k in keys}
        files["empty.py"] = {}
        files["crash.py"] = {"ok": pool[good_keys[1]], "boom": pool["crash:extra_key"],
                             "later": pool[good_keys[2]]}
        repo_files = ["example_17_08.py", "example_games.py", "paper_games.py",
                      "robot_1_w2_l2_r6_rb10_lb5_tb10_lt0.py",
                      "robot_999132423_w3_l3_r6_rb1_lb2_tb10_lt30.py"]

        def cli(root, tag, extra):
            cwd = os.path.join(tmp, "cli_" + tag)
            shutil.rmtree(cwd, ignore_errors=True)
            os.makedirs(os.path.join(cwd, "outputs"))
            os.makedirs(os.path.join(cwd, "inputs"))
            results = {}
            todo = []
            for fn, d in files.items():
                with open(os.path.join(cwd, "inputs", fn), "w") as f:
                    f.write(repr(d))
                todo.append((fn, os.path.join("inputs", fn)))
            for fn in repo_files:
                src = os.path.join(clean, "inputs", fn)
                if os.path.exists(src):
                    todo.append((fn, src))
            for fn, path in todo:
                for save in (True, False):
                    out = os.path.join(cwd, "outputs", fn.split(".")[0] + ".txt")
                    if os.path.exists(out):
                        os.remove(out)
                    cmd = [sys.executable, os.path.join(root, "conditionalrewards.py"), "-f", path] \
                        + (["-s"] if save else []) + extra
                    p = subprocess.run(cmd, cwd=cwd, stdout=subprocess.PIPE, stderr=subprocess.PIPE,
                                       text=True, timeout=600)
                    report = None
                    if os.path.exists(out):
                        with open(out) as f:
                            report = f.read().split("\n")
                    last_err = p.stderr.strip().split("\n")[-1] if p.returncode else ""
                    err_lines = [l for l in p.stderr.split("\n")
                                 if l.startswith("Error while solving")]
                    results[(fn, save)] = (p.returncode, p.stdout, last_err, err_lines, report)
            return results

        ref = cli(clean, "clean", [])
        for extra in PATCHED_CLI_ARGS:
            got = cli(patched, "patched", extra)
            for key in ref:
                rc, rp = ref[key], got[key]
                if rc[:4] != rp[:4]:
                    fail("CLI %r %r: exit status / output differ: %r vs %r" % (key, extra, rc[:4], rp[:4]))
                if (rc[4] is None) != (rp[4] is None):
                    fail("CLI %r %r: report written in one tree only" % (key, extra))
                    continue
                if rc[4] is None:
                    continue
                drop = TIME_REPORT_LINES
                a = [l for l in rc[4] if not l.startswith(drop)]
                b = [l for l in rp[4] if not l.startswith(drop + NEW_REPORT_LINES)]
                if a != b:
                    fail("CLI %r %r: the reports differ" % (key, extra))
                # the new lines: once per entry, right after the total time
                n_total = sum(1 for l in rp[4] if l.startswith("Total time "))
                for prefix in NEW_REPORT_LINES:
                    if sum(1 for l in rp[4] if l.startswith(prefix)) != n_total:
                        fail("CLI %r %r: line %r is not written for every entry" % (key, extra, prefix))
        print("command-line runs compared: %d x %d" % (len(ref), len(PATCHED_CLI_ARGS)))
    finally:
        shutil.rmtree(tmp, ignore_errors=True)

    if failures:
        print("FAIL (%d differences)" % len(failures))
        sys.exit(1)
    print("PASS")
    sys.exit(0)


if __name__ == "__main__":
    if len(sys.argv) >= 2 and sys.argv[1] == "--worker":
        worker(sys.argv[2], sys.argv[3], sys.argv[4])
    else:
        try:
            main()
        except (RuntimeError, subprocess.TimeoutExpired) as problem:
            # a tree that crashes or does not terminate where the other one does
            print("DIFF: %s" % (str(problem)[:2000],))
            print("FAIL")
            sys.exit(1)
