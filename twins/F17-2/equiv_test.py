#!/usr/bin/env python
"""
Equivalence test for property C17 (generated file names identify the parameters).

usage: python equiv_test.py <path-to-patched-root> <path-to-clean-root>

Each tree is loaded in its own subprocess (same module names), driven through
 * prob_to_str on every k/100 (k = 0..100), on awkward floats and on non-float numbers,
 * roberta_generator.main() (in-process, argv patched) on several hundred parameter sets:
   full 1..99 sweep of each of the four probabilities, boundary boards (width 1, length 1),
   tiny / near-1 / half-way probabilities, force_down on/off, big seeds and rewards,
   rejected parameter sets (the exception type and message are compared),
 * the real command line (python roberta_generator.py ...) for a handful of sets,
 * stochastic_game_from_roborta_board.create_sg_from_board on several boards,
 * check_input called directly on ~900 argument tuples (all boundary values, nan, inf, bools,
   wrong types; which message is raised first must agree),
 * the new helpers of the patched tree against the documented name format, and main(argv)
   against the sys.argv route.
For every run the set of paths created below the working directory and the sha256 of
every file are recorded. The two records must be identical. In addition the property
itself is checked on the patched record (k/100 appears as k; distinct whole-percent
parameter sets get distinct files), and - only if the patched tree knows them - the
new options are checked not to alter the base name.
"""
import hashlib
import json
import os
import subprocess
import sys
import tempfile

HARNESS = r'''
import contextlib, hashlib, io, json, os, random, sys, tempfile, subprocess
root = sys.argv[1]
sys.path.insert(0, root)
import roberta_generator as rg
import stochastic_game_from_roborta_board as manual
from fractions import Fraction
from decimal import Decimal

out = {}

def snapshot(top):
    res = {}
    for d, _, files in os.walk(top):
        for f in files:
            p = os.path.join(d, f)
            with open(p, "rb") as fh:
                res[os.path.relpath(p, top)] = hashlib.sha256(fh.read()).hexdigest()
    return res

def fresh_cwd(with_inputs=True):
    d = tempfile.mkdtemp(prefix="c17_")
    if with_inputs:
        os.mkdir(os.path.join(d, "inputs"))
    os.chdir(d)
    return d

def call(fn):
    so, se = io.StringIO(), io.StringIO()
    try:
        with contextlib.redirect_stdout(so), contextlib.redirect_stderr(se):
            fn()
        status = ["ok"]
    except SystemExit as e:
        status = ["SystemExit", repr(e.code)]
    except BaseException as e:
        status = [type(e).__name__, str(e)]
    return status, so.getvalue()

def run_main(args, with_inputs=True):
    d = fresh_cwd(with_inputs)
    old = sys.argv
    sys.argv = ["roberta_generator.py"] + list(args)
    try:
        status, stdout = call(rg.main)
    finally:
        sys.argv = old
    return {"status": status, "stdout": stdout, "files": snapshot(d)}

# ---------------------------------------------------------------- prob_to_str
pts = {}
vals = [k / 100 for k in range(0, 101)]
vals += [float("0.%02d" % k) for k in range(1, 100)]
vals += [k / 1000 for k in range(0, 1001, 5)]
vals += [1e-12, 1e-9, 0.001, 0.004999, 0.005, 0.0050001, 0.015, 0.025, 0.035, 0.994999,
         0.995, 0.999, 0.9999999, 1 - 1e-12, 0.285, 0.2850000001, 0.575, 0.125, 0.375]
rnd = random.Random(1234)
vals += [rnd.random() for _ in range(500)]
for v in vals:
    pts[repr(v)] = call(lambda: pts.__setitem__("_", rg.prob_to_str(v)))[0] + [pts.pop("_", None)]
for v in [0, 1, Fraction(29, 100), Fraction(1, 200), Decimal("0.29"), Decimal("0.57"),
          float("nan"), float("inf"), -0.29, 1.5, True, "0.29", None]:
    pts["odd:" + repr(v)] = call(lambda: pts.__setitem__("_", rg.prob_to_str(v)))[0] + [pts.pop("_", None)]
out["prob_to_str"] = pts

# ---------------------------------------------------------------- main() sweeps
runs = {}
def add(args, **kw):
    runs[" ".join(args) + ("" if kw.get("with_inputs", True) else " [no inputs dir]")] = run_main(args, **kw)

FLAGS = {"rb": "-p", "lb": "-q", "tb": "-r", "lt": "-t"}
for tag, flag in FLAGS.items():
    for k in range(1, 100):
        add(["-w", "2", "-l", "2", "-s", "3", flag, "0.%02d" % k])
for k in range(1, 100):      # all four at once, long options, other spelling of k/100
    v = repr(k / 100)
    add(["--width", "1", "--length", "1", "--prob_robot_break", v, "--prob_light_break", v,
         "--prob_tile_break", v, "--prob_loose_tile", v])
rnd = random.Random(99)
for _ in range(150):         # random whole-percent parameter sets
    a = ["-s", str(rnd.choice([0, 1, 7, 47, 2**31, 999132423])),
         "-w", str(rnd.randint(1, 4)), "-l", str(rnd.randint(1, 4)),
         "-m", str(rnd.choice([1, 2, 6, 9, 60])),
         "-p", "0.%02d" % rnd.randint(1, 99), "-q", "0.%02d" % rnd.randint(1, 99),
         "-r", "0.%02d" % rnd.randint(1, 99), "-t", "0.%02d" % rnd.randint(1, 99)]
    if rnd.random() < 0.5:
        a.append("-f")
    add(a)
for w in (1, 2, 3):
    for l in (1, 2, 3):
        for fd in ([], ["-f"], ["--force_down"]):
            add(["-w", str(w), "-l", str(l)] + fd)
add([])
add(["-f"])
add(["-s", "0"]); add(["-s", "123456789012345678901234567890"])
add(["-m", "1"]); add(["-m", "2000", "-w", "2", "-l", "2"]); add(["-m", "1100", "-w", "1", "-l", "1"])
for p in ["1e-12", "1e-9", "0.001", "0.004999", "0.005", "0.0050001", "0.015", "0.025", "0.285",
          "0.575", "0.994999", "0.995", "0.999", "0.9999999", "29e-2", ".57", "0.58000000000000001"]:
    for flag in FLAGS.values():
        add(["-w", "1", "-l", "2", flag, p])
# rejected sets: nothing may be written, the message must be the same
for bad in [["-s", "-1"], ["-w", "0"], ["-w", "-3"], ["-l", "0"], ["-m", "0"], ["-m", "-1"],
            ["-p", "0"], ["-p", "1"], ["-p", "-0.1"], ["-p", "1.5"], ["-p", "nan"], ["-p", "inf"],
            ["-q", "0"], ["-q", "1"], ["-q", "nan"], ["-q", "-inf"],
            ["-r", "0"], ["-r", "1"], ["-r", "nan"], ["-t", "0"], ["-t", "1"], ["-t", "nan"],
            ["-p", "abc"], ["-w", "1.5"], ["--bogus"], ["-s"], ["-p", "0", "-w", "0", "-s", "-1"],
            ["-t", "1", "-r", "1", "-q", "1"]]:
    add(bad)
add([], with_inputs=False)
add(["-p", "0.29"], with_inputs=False)
# overwriting: same name twice in the same directory
d = fresh_cwd()
old = sys.argv
seq = []
for a in (["-p", "0.28"], ["-p", "0.29"], ["-p", "0.28"], ["-p", "0.28", "-f"], ["-p", "0.285"]):
    sys.argv = ["roberta_generator.py"] + a
    seq.append([call(rg.main), snapshot(d)])
sys.argv = old
runs["sequence in one directory"] = seq
out["main"] = runs

# ---------------------------------------------------------------- real command line
cli = {}
for a in (["-p", "0.29", "-q", "0.57", "-r", "0.58", "-t", "0.07"], ["-w", "1", "-l", "1", "-f"],
          ["-p", "1"], ["-w", "0"], ["-t", "0.995", "-s", "5"]):
    d = fresh_cwd()
    r = subprocess.run([sys.executable, os.path.join(root, "roberta_generator.py")] + a,
                       cwd=d, capture_output=True, text=True)
    cli[" ".join(a)] = {"rc": r.returncode, "stdout": r.stdout,
                        "stderr_tail": r.stderr.strip().splitlines()[-1:] , "files": snapshot(d)}
out["cli"] = cli

# ---------------------------------------------------------------- manual entry point
man = {}
boards = {
    "1x1": ([[1]], [[3]], [[0]]),
    "1x1 down": ([[3]], [[0]], [[1]]),
    "2x3": ([[0, 1, 2], [1, 1, 0]], [[0, 5, 2], [1, 0, 0]], [[0, 1, 0], [1, 1, 0]]),
    "3x2 down": ([[0, 3], [3, 1], [2, 3]], [[6, 0], [1, 4], [0, 0]], [[1, 0], [0, 0], [1, 1]]),
    "4x4": ([[1, 1, 0, 2]] * 4, [[1, 2, 3, 4]] * 4, [[0, 0, 1, 0]] * 4),
}
for name, (moves, rewards, loose) in boards.items():
    for probs in [(0.1, 0.1, 0.1), (0.29, 0.57, 0.58), (0.28, 0.57, 0.58), (0.07, 0.14, 0.55),
                  (0.001, 0.999, 0.5), (0.005, 0.995, 0.285), (0, 1, 0.5),
                  (Fraction(29, 100), Fraction(57, 100), Fraction(1, 2))]:
        d = fresh_cwd()
        st = call(lambda: manual.create_sg_from_board(moves, rewards, loose, *probs))
        man[name + " " + repr(probs)] = [st, snapshot(d)]
for k in range(1, 100):
    d = fresh_cwd()
    st = call(lambda: manual.create_sg_from_board([[1, 0]], [[2, 1]], [[0, 1]], k / 100, (100 - k) / 100, k / 100))
    man["sweep %d" % k] = [st, snapshot(d)]
d = fresh_cwd(False)
man["no inputs dir"] = [call(lambda: manual.create_sg_from_board([[1]], [[1]], [[0]], 0.1, 0.1, 0.1)), snapshot(d)]
man["empty board"] = [call(lambda: manual.create_sg_from_board([], [], [], 0.1, 0.1, 0.1)), snapshot(fresh_cwd())]
out["manual"] = man

# ---------------------------------------------------------------- check_input called directly
chk = {}
nan, inf = float("nan"), float("inf")
grid_int = [-1, 0, 1, 3]
grid_p = [-0.5, 0, 0.0, 1e-300, 0.29, 0.5, 1 - 1e-16, 1, 1.0, 2, nan, inf, -inf, True, False]
rnd = random.Random(5)
cases = []
for s_ in grid_int:
    for w_ in grid_int:
        for l_ in grid_int:
            for m_ in grid_int:
                cases.append((s_, w_, l_, 0.1, 0.1, 0.3, 0.1, m_))
for i in range(4):
    for v in grid_p:
        ps = [0.1, 0.1, 0.3, 0.1]
        ps[i] = v
        cases.append((0, 3, 3) + tuple(ps) + (6,))
for _ in range(600):
    cases.append((rnd.choice(grid_int), rnd.choice(grid_int), rnd.choice(grid_int),
                  rnd.choice(grid_p), rnd.choice(grid_p), rnd.choice(grid_p), rnd.choice(grid_p),
                  rnd.choice(grid_int)))
cases += [(None, 1, 1, 0.1, 0.1, 0.1, 0.1, 1), (0, "3", 1, 0.1, 0.1, 0.1, 0.1, 1),
          (0, 1, 1, "0.1", 0.1, 0.1, 0.1, 1), (0, 1, 1, 0.1, None, 0.1, 0.1, 1),
          (0, 1, 1, Fraction(1, 3), Decimal("0.5"), 0.1, 0.1, 1), (0, 1, 1, 0.1, 0.1, 0.1, 0.1, None)]
for i, c in enumerate(cases):
    chk["%04d %r" % (i, c)] = call(lambda: rg.check_input(*c))[0]
out["check_input"] = chk

# ---------------------------------------------------------------- new helpers (only if present)
helpers = {}
if hasattr(rg, "generated_file_name"):
    rnd = random.Random(77)
    for _ in range(400):
        seed, w, l, m = rnd.randint(0, 10**6), rnd.randint(1, 50), rnd.randint(1, 50), rnd.randint(1, 99)
        ks = [rnd.randint(1, 99) for _ in range(4)]
        fd = rnd.random() < 0.5
        got = rg.generated_file_name(seed, w, l, m, ks[0] / 100, ks[1] / 100, ks[2] / 100, ks[3] / 100, fd)
        want = "inputs/robot_%d_w%d_l%d_r%d_rb%d_lb%d_tb%d_lt%d%s.py" % (
            seed, w, l, m, ks[0], ks[1], ks[2], ks[3], "_force_down" if fd else "")
        if got != want:
            helpers["%r" % ((seed, w, l, m, ks, fd),)] = [got, want]
    for k in range(0, 101):
        if rg.prob_to_percent(k / 100) != k or type(rg.prob_to_percent(k / 100)) is not int:
            helpers["percent %d" % k] = repr(rg.prob_to_percent(k / 100))
import inspect
if inspect.signature(rg.main).parameters:
    for a in (["-p", "0.29", "-f"], ["-w", "1", "-l", "1", "-t", "0.57"], [], ["-p", "1"]):
        via_sys = run_main(a)
        d = fresh_cwd()
        sys.argv = ["roberta_generator.py", "-w", "0"]     # must be ignored when argv is given
        st = call(lambda: rg.main(a))
        via_arg = {"status": st[0], "stdout": st[1], "files": snapshot(d)}
        if via_sys != via_arg:
            helpers["main(argv) " + " ".join(a)] = [via_sys, via_arg]
out["helper_problems"] = helpers

# ---------------------------------------------------------------- new options (only if known)
extra = {}
opts = set()
for act in rg.init_parser()._actions:
    opts.update(act.option_strings)
if "--output_dir" in opts:
    for a in (["-p", "0.29"], ["-w", "1", "-l", "1", "-t", "0.57", "-f"], []):
        base = run_main(a)
        other = run_main(a + ["--output_dir", "elsewhere/deep"], with_inputs=False)
        slash = run_main(a + ["-o", "inputs/"])
        same = run_main(a + ["-o", "inputs"])
        extra["output_dir " + " ".join(a)] = {
            "base": base, "other": other, "slash": slash, "same": same}
if "--no_clobber" in opts:
    d = fresh_cwd()
    seq = []
    for a in (["-n", "-p", "0.28"], ["-n", "-p", "0.29"], ["-n", "-p", "0.28"], ["-p", "0.28"]):
        seq.append([call(lambda: rg.main(a)), snapshot(d)])
    extra["no_clobber"] = seq
if "--verbose" in opts:
    extra["verbose"] = run_main(["-v", "-p", "0.29"])
out["extra"] = extra

sys.__stdout__.write(json.dumps(out, sort_keys=True))
'''


def record(root):
    root = os.path.abspath(root)
    with tempfile.TemporaryDirectory() as tmp:
        h = os.path.join(tmp, "harness.py")
        with open(h, "w") as fh:
            fh.write(HARNESS)
        env = dict(os.environ, PYTHONDONTWRITEBYTECODE="1", PYTHONHASHSEED="0", TMPDIR=tmp)
        r = subprocess.run([sys.executable, h, root], cwd=tmp, capture_output=True, text=True, env=env)
    if r.returncode != 0:
        print(r.stderr)
        raise SystemExit("FAIL: harness crashed on " + root)
    return json.loads(r.stdout)


def diff(a, b, path, out):
    if isinstance(a, dict) and isinstance(b, dict):
        for k in sorted(set(a) | set(b)):
            if k not in a or k not in b:
                out.append("%s/%s: only in %s" % (path, k, "patched" if k in a else "clean"))
            else:
                diff(a[k], b[k], path + "/" + k, out)
    elif a != b:
        out.append("%s: patched=%r clean=%r" % (path, a, b))


def expected_name(args):
    """name demanded by the property for a whole-percent parameter set given as argv"""
    vals = {"-s": "0", "-w": "3", "-l": "3", "-m": "6", "-p": "0.1", "-q": "0.1", "-r": "0.1", "-t": "0.3"}
    longs = {"--seed": "-s", "--width": "-w", "--length": "-l", "--max_reward": "-m",
             "--prob_robot_break": "-p", "--prob_light_break": "-q", "--prob_tile_break": "-r",
             "--prob_loose_tile": "-t"}
    fd = False
    it = iter(args)
    for a in it:
        if a in ("-f", "--force_down"):
            fd = True
        else:
            vals[longs.get(a, a)] = next(it)
    pct = {}
    for f in "pqrt":
        x = float(vals["-" + f]) * 100
        if abs(x - round(x)) > 1e-6 or not 1 <= round(x) <= 99:
            return None
        pct[f] = round(x)
    return "inputs/robot_%s_w%s_l%s_r%s_rb%d_lb%d_tb%d_lt%d%s.py" % (
        vals["-s"], vals["-w"], vals["-l"], vals["-m"], pct["p"], pct["q"], pct["r"], pct["t"],
        "_force_down" if fd else "")


def check_property(rec, problems):
    for k in range(1, 100):
        for key in (repr(k / 100), repr(float("0.%02d" % k))):
            got = rec["prob_to_str"][key]
            if got != ["ok", str(k)]:
                problems.append("prob_to_str(%s) = %r, expected %d" % (key, got, k))
    # expected_name is injective in the parameters, so "every run wrote exactly its expected
    # name" also gives "different whole-percent parameter sets never share a file"
    n = 0
    for args, run in rec["main"].items():
        if not isinstance(run, dict) or run["status"] != ["ok"] or "[" in args:
            continue
        argv = args.split()
        want = expected_name(argv)
        if want is None:
            continue
        n += 1
        if list(run["files"]) != [want]:
            problems.append("main %s wrote %r, expected %r" % (args, list(run["files"]), want))
    if n < 600:
        problems.append("too few whole-percent runs checked: %d" % n)
    for name, e in rec.get("extra", {}).items():
        if name.startswith("output_dir"):
            b = e["base"]["files"]
            (bn, bh), = b.items()
            for which, prefix in (("other", "elsewhere/deep/"), ("slash", "inputs/"), ("same", "inputs/")):
                f = e[which]["files"]
                if e[which]["status"] != ["ok"] or len(f) != 1:
                    problems.append("%s/%s: %r" % (name, which, e[which]))
                    continue
                (on, oh), = f.items()
                if os.path.basename(on) != os.path.basename(bn) or oh != bh or not on.startswith(prefix):
                    problems.append("%s/%s: %s differs from %s" % (name, which, on, bn))
    if "no_clobber" in rec.get("extra", {}):
        s = rec["extra"]["no_clobber"]
        a28 = "inputs/robot_0_w3_l3_r6_rb28_lb10_tb10_lt30.py"
        if s[0][0][0] != ["ok"] or s[1][0][0] != ["ok"] or s[2][0][0][0] != "FileExistsError" \
                or s[3][0][0] != ["ok"] or s[1][1][a28] != s[2][1][a28] or len(s[3][1]) != 2:
            problems.append("no_clobber sequence wrong: %r" % s)
    if "verbose" in rec.get("extra", {}):
        v = rec["extra"]["verbose"]
        if v["stdout"] != "wrote inputs/robot_0_w3_l3_r6_rb29_lb10_tb10_lt30.py\n" or \
                list(v["files"]) != ["inputs/robot_0_w3_l3_r6_rb29_lb10_tb10_lt30.py"]:
            problems.append("verbose wrong: %r" % v)


def main():
    if len(sys.argv) != 3:
        raise SystemExit(__doc__)
    patched = record(sys.argv[1])
    clean = record(sys.argv[2])
    problems = []
    pe, ce = patched.pop("extra"), clean.pop("extra")
    ph, ch = patched.pop("helper_problems"), clean.pop("helper_problems")
    diff(patched, clean, "", problems)
    patched["extra"], clean["extra"] = pe, ce
    for k, v in ph.items():
        problems.append("helper %s: %r" % (k, v))
    check_property(patched, problems)
    nruns = len(patched["main"]) + len(patched["manual"]) + len(patched["cli"])
    print("compared %d generator runs, %d prob_to_str values, %d check_input calls" % (
        nruns, len(patched["prob_to_str"]), len(patched["check_input"])))
    if problems:
        for p in problems[:40]:
            print("DIFF", p)
        print("FAIL (%d differences)" % len(problems))
        sys.exit(1)
    print("PASS")


if __name__ == "__main__":
    main()
