#!/usr/bin/env python
"""Differential test for roberta_generator.py (property C15: random boards are
reproducible, in range, honour their parameters; bad parameter sets are refused).

usage: python equiv.py <clean_repo_dir> <patched_repo_dir>

Each tree is loaded in its own subprocess (module names collide); both run the
same deterministic list of cases and dump one line per case; the parent compares
the dumps line by line.  Prints SAME / exits 0 when nothing differs, prints the
first difference and exits 1 otherwise.
"""
import os
import subprocess
import sys
import tempfile


# --------------------------------------------------------------------------- driver
def drive(repo, out_path):
    import contextlib
    import decimal
    import fractions
    import hashlib
    import io
    import itertools
    import random
    import re
    import shutil

    repo = os.path.abspath(repo)
    sys.path.insert(0, repo)
    import roberta_generator as rg

    out = open(out_path, "w")
    rnd = random.Random(20240615)           # private stream: the module reseeds the global one
    nan, inf = float("nan"), float("inf")

    def state_tag():
        return hashlib.sha1(repr(random.getstate()).encode()).hexdigest()[:12]

    def emit(label, text):
        out.write(label + "\t" + text.replace("\n", "\\n") + "\n")

    def call(label, fn, *args, **kwargs):
        try:
            res = "OK " + repr(fn(*args, **kwargs))
        except BaseException as exc:         # noqa: type + message is the observable
            res = "EXC " + type(exc).__name__ + ": " + str(exc)
        emit(label, res + " | state=" + state_tag())

    # ---------------------------------------------------------------- A. gen_rnd_board
    # A1. systematic small grid: every shape incl. empty ones, both modes, boundary probs
    n = 0
    for length, width in itertools.product(range(0, 5), range(0, 5)):
        for force_down in (False, True):
            for prob in (0.3, 0.0, 1.0, 0.5):
                for max_reward in (6, 1):
                    seed = n % 7
                    n += 1
                    call("A1 %r" % ((seed, length, width, prob, max_reward, force_down),),
                         rg.gen_rnd_board, seed, length, width, prob, max_reward, force_down)

    # A2. random parameter sets, wide ranges, default arguments left out at random
    for k in range(1500):
        seed = rnd.choice([rnd.randrange(0, 10**6), rnd.randrange(0, 50), 0, 2**64 + k, -k])
        length = rnd.randrange(0, 9)
        width = rnd.randrange(0, 9)
        prob = rnd.choice([rnd.random(), 0.001, 0.999, 0.3, 1e-300, 1 - 2**-53])
        max_reward = rnd.choice([1, 2, 3, 6, 6, 10, 30, 60, 1100, 0, -1, -3, 2.5])
        force_down = rnd.choice([False, True, 0, 1, None, "", "x", [], [0]])
        how = rnd.randrange(3)
        label = "A2 %r" % ((seed, length, width, prob, max_reward, force_down, how),)
        if how == 0:
            call(label, rg.gen_rnd_board, seed, length, width, prob)
        elif how == 1:
            call(label, rg.gen_rnd_board, seed, length, width, prob, max_reward)
        else:
            call(label, rg.gen_rnd_board, seed=seed, length=length, width=width,
                 prob_loose_tile=prob, max_reward=max_reward, force_down=force_down)

    # A3. reproducibility: the same call twice, with other draws in between
    for k in range(150):
        args = (rnd.randrange(0, 1000), rnd.randrange(1, 7), rnd.randrange(1, 7),
                rnd.random(), rnd.randrange(1, 9), rnd.random() < 0.5)
        first = rg.gen_rnd_board(*args)
        random.random()
        second = rg.gen_rnd_board(*args)
        emit("A3 %r" % (args,), repr(first == second) + " " + repr(first))

    # A4. malformed arguments: exception type + message, and which one wins
    odd_seeds = [0, 1.5, "seed", b"bytes", bytearray(b"ba"), True, (1, 2), [1], {1: 2}, 3 + 4j, -7, 2**70]   # no nan / None seeds: not deterministic
    odd_sizes = [2, 0, -1, -5, 2.0, 2.5, "3", None, True, [2], nan, 3]
    odd_probs = [0.3, -0.5, 1.5, nan, inf, -inf, "0.3", None, True, fractions.Fraction(1, 3),
                 decimal.Decimal("0.3"), [0.3], 1, 0]
    odd_rewards = [6, 0, -1, -3, -1100, 1100, 2.5, "6", None, True, [6], nan, inf, -inf,
                   fractions.Fraction(7, 2), decimal.Decimal(4), 3 + 0j]
    odd_flags = [False, True, None, 0, 2, "", "no", [], [False], 0.0, nan]
    for seed in odd_seeds:
        call("A4 seed=%r" % (seed,), rg.gen_rnd_board, seed, 2, 3, 0.3, 6, True)
    for length in odd_sizes:
        for width in odd_sizes:
            for force_down in (False, True):
                call("A4 size=%r" % ((length, width, force_down),),
                     rg.gen_rnd_board, 5, length, width, 0.3, 6, force_down)
    for prob in odd_probs:
        for length in (0, 2):
            call("A4 prob=%r" % ((prob, length),), rg.gen_rnd_board, 5, length, 2, prob, 6, True)
    for max_reward in odd_rewards:
        for length, width in ((0, 2), (2, 0), (2, 2)):
            call("A4 reward=%r" % ((max_reward, length, width),),
                 rg.gen_rnd_board, 5, length, width, 0.3, max_reward, False)
    for force_down in odd_flags:
        for length in (0, 2):
            call("A4 flag=%r" % ((force_down, length),),
                 rg.gen_rnd_board, 5, length, 3, 0.3, 6, force_down)
    for k in range(600):                    # several bad arguments at once: the first one must win
        args = (rnd.choice(odd_seeds), rnd.choice(odd_sizes), rnd.choice(odd_sizes),
                rnd.choice(odd_probs), rnd.choice(odd_rewards), rnd.choice(odd_flags))
        call("A4 mix=%r" % (args,), rg.gen_rnd_board, *args)
    call("A4 noargs", rg.gen_rnd_board)
    call("A4 toomany", rg.gen_rnd_board, 1, 2, 3, 0.3, 6, True, 7)

    # ---------------------------------------------------------------- B. get_random_moves
    for k in range(600):
        seed = rnd.randrange(0, 10**5)
        length = rnd.choice([0, 1, 2, 3, 5, 8, -1])
        width = rnd.choice([0, 1, 2, 3, 5, 8, 13, -1, 2.5, "2", None])
        force_down = rnd.choice([False, True, 0, 1, None, "f", []])
        random.seed(seed)
        call("B %r" % ((seed, length, width, force_down),),
             rg.get_random_moves, length, width, force_down)

    # ---------------------------------------------------------------- C. check_input
    good = dict(seed=0, width=3, length=3, prob_robot_break=0.1, prob_light_break=0.1,
                prob_loose_tile=0.3, prob_tile_break=0.1, max_reward=6)
    names = list(good)
    tiny = 5e-324
    int_values = [-10**9, -2, -1, 0, 1, 2, 10**9, -0.5, 0.0, -0.0, 0.5, -tiny, tiny, True, False,
                  nan, inf, -inf, "1", None, [1], fractions.Fraction(-1, 3), decimal.Decimal("0")]
    prob_values = [-1, -tiny, -0.0, 0, 0.0, tiny, 0.1, 0.5, 1 - 2**-53, 1, 1.0, 1 + 2**-52, 2,
                   True, False, nan, inf, -inf, "0.5", None, [0.5], fractions.Fraction(1, 2),
                   fractions.Fraction(1, 1), decimal.Decimal("1"), decimal.Decimal("0.5"),
                   decimal.Decimal("NaN")]

    def values_for(name):
        return prob_values if name.startswith("prob_") else int_values

    call("C good", rg.check_input, **good)
    call("C positional", rg.check_input, 0, 3, 3, 0.1, 0.1, 0.3, 0.1, 6)
    call("C swapped", rg.check_input, 0, 3, 3, 0.1, 0.1, 0.3, 6, 0.1)
    call("C missing", rg.check_input, 0, 3, 3)
    for name in names:                      # every boundary of every single check
        for value in values_for(name):
            call("C1 %s=%r" % (name, value), rg.check_input, **dict(good, **{name: value}))
    for a, b in itertools.combinations(names, 2):   # two offenders: the earlier check must win
        for va in values_for(a):
            for vb in values_for(b)[::3]:
                call("C2 %s=%r %s=%r" % (a, va, b, vb), rg.check_input,
                     **dict(good, **{a: va, b: vb}))
    for k in range(3000):                   # everything random
        kwargs = {name: rnd.choice(values_for(name)) for name in names}
        call("C3 %r" % (sorted(kwargs.items(), key=lambda kv: kv[0]),), rg.check_input, **kwargs)

    class Spy(float):
        """records which comparison is asked of which parameter, in order"""
        log = []

        def __new__(cls, tag, value):
            self = float.__new__(cls, value)
            self.tag = tag
            return self

        def _note(self, op, other):
            Spy.log.append("%s%s%r" % (self.tag, op, other))

        def __lt__(self, other):
            self._note("<", other)
            return float(self) < other

        def __le__(self, other):
            self._note("<=", other)
            return float(self) <= other

        def __gt__(self, other):
            self._note(">", other)
            return float(self) > other

        def __ge__(self, other):
            self._note(">=", other)
            return float(self) >= other

        def __eq__(self, other):
            self._note("==", other)
            return float(self) == other

        __hash__ = float.__hash__

    for k in range(400):                    # evaluation order of the eight checks
        Spy.log = []
        kwargs = {name: Spy(name, rnd.choice([0.5] * 14 + [-1, 0, 0.5, 1, 2, nan]))
                  for name in names}
        try:
            res = "OK %r" % (rg.check_input(**kwargs),)
        except BaseException as exc:
            res = "EXC %s: %s" % (type(exc).__name__, exc)
        emit("C4 %d" % k, res + " | " + ";".join(Spy.log))

    # ---------------------------------------------------------------- D. prob_to_str
    for value in [0.1, 0.05, 0.3, 0.005, 0.015, 0.025, 0.125, 0.135, 0.145, 0.995, 0.999,
                  0.001, 0.5, 1e-9, 0.29, 0.57, 0.58, nan, inf, "a", None, 1, 0, True,
                  fractions.Fraction(1, 8), decimal.Decimal("0.125")] + \
                 [rnd.random() for _ in range(300)] + [k / 200 for k in range(201)]:
        call("D %r" % (value,), rg.prob_to_str, value)

    # ---------------------------------------------------------------- E. main (command line)
    work = tempfile.mkdtemp(prefix="f15drv_")
    start_dir = os.getcwd()

    def listing(root):
        items = []
        for dirpath, dirnames, filenames in os.walk(root):
            dirnames.sort()
            for fn in sorted(filenames):
                full = os.path.join(dirpath, fn)
                with open(full, "rb") as fh:
                    data = fh.read()
                items.append((os.path.relpath(full, root), len(data),
                              hashlib.sha1(data).hexdigest()))
        return items

    def run_main(label, argv, with_inputs=True, keep=None):
        case_dir = tempfile.mkdtemp(dir=work)
        if with_inputs:
            os.mkdir(os.path.join(case_dir, "inputs"))
        os.chdir(case_dir)
        old_argv = sys.argv
        sys.argv = ["roberta_generator.py"] + [str(a) for a in argv]
        err, sout = io.StringIO(), io.StringIO()
        try:
            with contextlib.redirect_stderr(err), contextlib.redirect_stdout(sout):
                try:
                    res = "OK " + repr(rg.main())
                except SystemExit as exc:
                    res = "EXIT " + repr(exc.code)
                except BaseException as exc:
                    res = "EXC " + type(exc).__name__ + ": " + str(exc)
        finally:
            sys.argv = old_argv
            os.chdir(start_dir)
        files = listing(case_dir)
        extra = ""
        if keep is not None and len(files) == 1:
            with open(os.path.join(case_dir, files[0][0]), "rb") as fh:
                extra = " | committed_equal=%r" % (fh.read() == keep,)
        emit(label, res + " | out=" + repr(sout.getvalue()) + " | err=" + repr(err.getvalue()) +
             " | files=" + repr(files) + extra + " | state=" + state_tag())
        shutil.rmtree(case_dir, ignore_errors=True)

    run_main("E defaults", [])
    run_main("E defaults noinputs", [], with_inputs=False)
    run_main("E help", ["--help"])
    run_main("E unknown", ["--bogus", 1])
    run_main("E badint", ["-s", "1.5"])
    run_main("E badfloat", ["-p", "x"])
    run_main("E abbrev", ["--see", 3, "--wid", 2, "--len", 2, "--force"])
    flags = {"seed": "-s", "width": "-w", "length": "-l", "max_reward": "-m",
             "prob_robot_break": "-p", "prob_light_break": "-q", "prob_tile_break": "-r",
             "prob_loose_tile": "-t"}
    cli_int = ["-2", "-1", "0", "1", "2", "7", "+3", " 4", "1_0", "0x3", "1e2"]
    cli_prob = ["-0.5", "-0", "0", "0.0", "5e-324", "1e-9", "0.004", "0.005", "0.015", "0.1",
                "0.125", "0.5", "0.994", "0.995", "0.9999999999999999", "1", "1.0", "1.5",
                "nan", "inf", "-inf", "1e-400", ".3", "1_0e-2"]
    for name, flag in flags.items():        # every boundary of every check, through the parser
        for value in (cli_prob if name.startswith("prob_") else cli_int):
            for extra_args in ([], ["-f"]):
                if value.startswith("-"):
                    argv = ["--" + name + "=" + value] + extra_args
                else:
                    argv = [flag, value] + extra_args
                run_main("E1 %r" % (argv,), argv)
    for k in range(350):                    # random full command lines
        argv = []
        for name, flag in flags.items():
            if rnd.random() < 0.75:
                if name.startswith("prob_"):
                    value = rnd.choice(["%.3f" % rnd.random(), "%.17g" % rnd.random(), "0.1", "0.3",
                                        "0.05"] + ([rnd.choice(cli_prob)] if k % 3 == 0 else []))
                elif name == "seed":
                    value = rnd.choice([str(rnd.randrange(0, 10**4)), "0", "47", "-1"][:3 + (k % 7 == 0)])
                elif name == "max_reward":
                    value = rnd.choice(["1", "2", "5", "6", "9", "0", "-1"][:5 + 2 * (k % 5 == 0)])
                else:
                    value = rnd.choice(["1", "2", "3", "4", "6", "9", "0", "-3"][:6 + 2 * (k % 6 == 0)])
                argv.append(("--" + name + "=" + value) if rnd.random() < 0.5 or value.startswith("-")
                            else flag)
                if argv[-1] == flag:
                    argv.append(value)
        if rnd.random() < 0.5:
            argv.append(rnd.choice(["-f", "--force_down"]))
        run_main("E2 %r" % (argv,), argv, with_inputs=(k % 10 != 9))

    # E3. the committed boards whose names encode their parameters
    pattern = re.compile(r"^robot_(\d+)_w(\d+)_l(\d+)_r(\d+)_rb(\d+)_lb(\d+)_tb(\d+)_lt(\d+)"
                         r"(_force_down)?\.py$")
    for fn in sorted(os.listdir(os.path.join(repo, "inputs"))):
        m = pattern.match(fn)
        if not m:
            continue
        seed, width, length, max_reward, rb, lb, tb, lt = (int(g) for g in m.groups()[:8])
        if 0 in (rb, lb, tb, lt):
            emit("E3 " + fn, "skipped: a probability that rounds to 0 is not recoverable")
            continue
        argv = ["-s", seed, "-w", width, "-l", length, "-m", max_reward, "-p", rb / 100,
                "-q", lb / 100, "-r", tb / 100, "-t", lt / 100] + (["-f"] if m.group(9) else [])
        with open(os.path.join(repo, "inputs", fn), "rb") as fh:
            keep = fh.read()
        run_main("E3 " + fn, argv, keep=keep)

    shutil.rmtree(work, ignore_errors=True)
    out.close()


# --------------------------------------------------------------------------- parent
def main():
    if len(sys.argv) == 4 and sys.argv[1] == "--drive":
        drive(sys.argv[2], sys.argv[3])
        return 0
    if len(sys.argv) != 3:
        print("usage: python equiv.py <clean_repo_dir> <patched_repo_dir>")
        return 2
    tmp = tempfile.mkdtemp(prefix="f15equiv_")
    try:
        return compare(tmp)
    finally:
        import shutil
        shutil.rmtree(tmp, ignore_errors=True)


def compare(tmp):
    dumps = []
    procs = []
    env = dict(os.environ, PYTHONHASHSEED="0", PYTHONDONTWRITEBYTECODE="1")
    for idx, repo in enumerate(sys.argv[1:3]):
        dump = os.path.join(tmp, "dump%d.txt" % idx)
        dumps.append(dump)
        procs.append(subprocess.Popen(
            [sys.executable, "-B", os.path.abspath(__file__), "--drive", os.path.abspath(repo), dump],
            cwd=tmp, env=env, stdout=subprocess.PIPE, stderr=subprocess.STDOUT))
    for idx, proc in enumerate(procs):
        try:
            output, _ = proc.communicate(timeout=110)
        except subprocess.TimeoutExpired:
            proc.kill()
            print("DIFF: driver %d timed out" % idx)
            return 1
        if proc.returncode != 0:
            print("DIFF: driver %d failed (%d):\n%s" % (idx, proc.returncode,
                                                       output.decode(errors="replace")[-3000:]))
            return 1
    with open(dumps[0]) as fh:
        left = fh.read().split("\n")
    with open(dumps[1]) as fh:
        right = fh.read().split("\n")
    for number, (a, b) in enumerate(zip(left, right)):
        if a != b:
            print("DIFF at case %d" % number)
            print("  clean  : " + a[:1500])
            print("  patched: " + b[:1500])
            return 1
    if len(left) != len(right):
        print("DIFF: %d cases vs %d cases" % (len(left), len(right)))
        return 1
    if len(left) < 1000:
        print("DIFF: suspiciously few cases (%d)" % len(left))
        return 1
    sys.stderr.write("%d cases compared\n" % (len(left) - 1))
    print("SAME")
    return 0


if __name__ == "__main__":
    sys.exit(main())
