#!/usr/bin/env python
"""Differential test for property C09 (malformed games are rejected with ValueError).

usage:  python equiv.py <clean_repo_dir> <patched_repo_dir>

Both trees are loaded in their own subprocess (the module names collide).  Each
worker runs the SAME deterministic list of cases and writes one line per case
(label <TAB> repr of the outcome).  The driver compares the two files line by
line, prints `SAME` and exits 0 when nothing differs, prints the first
difference and exits 1 otherwise.

What is exercised (all against both trees):
  * random and hand-made well-formed games of all three state kinds (cycles,
    parallel edges, several finals, n = 1 .. 7), both pruning modes;
  * every well-formedness rule broken at EVERY position (state, transition,
    tuple slot) with boundary values (n, -1, n-1, 0, floats, bools, None, ...);
  * pairs of defects (which message wins), whole-list replacements, n = 0;
  * StochasticGame.solve(), check_game(), init_states(), count_transitions();
  * the node constructors called directly (odd players, odd transition lists);
  * conditionalrewards.run_games on batches mixing good and bad games: result
    dict, input dict afterwards, every log record (level + text), and the
    report file written by save_results_to_file byte for byte.
Exceptions are compared by type name and message.  Solves that would not
terminate are cut deterministically by a budget on the number of
`logging.debug` calls made by the value iteration (identical in both trees); a
wall-clock alarm per case is a second safety net.
"""
import os
import subprocess
import sys
import tempfile

SEED = 90909
DEBUG_BUDGET = 2000        # logging.debug calls per case
CASE_SECONDS = 20          # wall clock safety net per case
N_BASE = 16                # random base games
N_DOUBLE = 1500            # games with two defects
N_BATCH = 160              # run_games batches


# --------------------------------------------------------------------------- driver

def driver(clean, patched):
    tmp = tempfile.mkdtemp(prefix="equiv_F09_")
    procs = []
    for tag, repo in (("clean", clean), ("patched", patched)):
        out = os.path.join(tmp, tag + ".out")
        env = dict(os.environ, PYTHONHASHSEED="0", PYTHONDONTWRITEBYTECODE="1")
        p = subprocess.Popen(
            [sys.executable, os.path.abspath(__file__), "--worker", os.path.abspath(repo), out],
            env=env, stdout=subprocess.PIPE, stderr=subprocess.STDOUT)
        procs.append((tag, p, out))
    outputs = {}
    for tag, p, out in procs:
        try:
            stdout, _ = p.communicate(timeout=115)
        except subprocess.TimeoutExpired:
            p.kill()
            print(f"DIFFERENT: worker for the {tag} tree did not finish in time")
            return 1
        if p.returncode != 0:
            print(f"DIFFERENT: worker for the {tag} tree failed (exit {p.returncode}):")
            print(stdout.decode(errors="replace")[-3000:])
            return 1
        with open(out, "rb") as fh:
            outputs[tag] = fh.read().split(b"\n")
    a, b = outputs["clean"], outputs["patched"]
    for i, (la, lb) in enumerate(zip(a, b)):
        if la != lb:
            print(f"DIFFERENT at case #{i}:")
            print("  clean  :", la.decode(errors="replace")[:1500])
            print("  patched:", lb.decode(errors="replace")[:1500])
            return 1
    if len(a) != len(b):
        print(f"DIFFERENT: number of cases {len(a)} vs {len(b)}")
        return 1
    print(f"SAME ({len(a) - 1} cases)")
    return 0


# --------------------------------------------------------------------------- worker

def worker(repo, out_path):
    import collections
    import copy
    import decimal
    import enum
    import fractions
    import logging
    import random
    import signal

    sys.path.insert(0, repo)
    work = tempfile.mkdtemp(prefix="equiv_F09_w_")
    os.mkdir(os.path.join(work, "outputs"))
    os.chdir(work)
    import tad
    import conditionalrewards as cr
    assert os.path.dirname(os.path.abspath(tad.__file__)) == repo, tad.__file__
    assert os.path.dirname(os.path.abspath(cr.__file__)) == repo, cr.__file__

    P1, P2, PR = "Player 1", "Player 2", "Probabilistic"
    rnd = random.Random(SEED)
    nan, inf = float("nan"), float("inf")

    class Budget(BaseException):
        pass

    class CaseTimeout(BaseException):
        pass

    budget = [0]

    def counting_debug(*args, **kwargs):
        budget[0] += 1
        if budget[0] > DEBUG_BUDGET:
            raise Budget()

    logging.debug = counting_debug       # tad calls logging.debug(...) through the module

    def on_alarm(signum, frame):
        raise CaseTimeout()

    signal.signal(signal.SIGALRM, on_alarm)

    records = []

    class Capture(logging.Handler):
        def emit(self, record):
            text = record.getMessage()
            if text.startswith("Total time"):
                text = text.split(":")[0] + ": <masked>"
            records.append((record.levelname, text))

    root = logging.getLogger()
    root.addHandler(Capture())
    root.setLevel(logging.INFO)

    out = open(out_path, "w", encoding="utf-8", errors="backslashreplace")

    import re
    address = re.compile(r" at 0x[0-9a-fA-F]+")

    def emit(label, outcome):
        line = label.replace("\n", " ") + "\t" + repr(outcome).replace("\n", "\\n")
        out.write(address.sub(" at 0x?", line) + "\n")

    def guarded(fn):
        """Run one case: outcome or exception (type name + message), budget and alarm."""
        budget[0] = 0
        signal.setitimer(signal.ITIMER_REAL, CASE_SECONDS)
        try:
            try:
                return ("OK", fn())
            finally:
                signal.setitimer(signal.ITIMER_REAL, 0)
        except Budget:
            return ("BUDGET",)
        except CaseTimeout:
            return ("TIMEOUT",)
        except Exception as exc:      # noqa
            return ("EXC", type(exc).__name__, str(exc))

    def safe_repr(obj):
        try:
            return repr(obj)
        except Exception as exc:      # noqa
            return f"<repr failed {type(exc).__name__}>"

    # ------------------------------------------------------------------ helper types
    NT = collections.namedtuple("NT", "label target")

    class MyTuple(tuple):
        pass

    class MyList(list):
        pass

    class MyStr(str):
        pass

    class Idx(enum.IntEnum):
        ZERO = 0
        ONE = 1

    # ------------------------------------------------------------------ base games
    def split_probabilities(k):
        if rnd.random() < 0.6:
            parts = [rnd.randint(1, 4) for _ in range(k)]
            total = sum(parts)
            return [p / total for p in parts]
        eighths = [1] * k
        for _ in range(8 - k):
            eighths[rnd.randrange(k)] += 1
        return [e / 8 for e in eighths]

    def random_game(n, stopping):
        players = [rnd.choice([P1, P2, PR]) for _ in range(n)]
        transition_list = []
        n_sinks = 1 if n < 3 else rnd.randint(1, 2)
        for s in range(n):
            sink = stopping and s >= n - n_sinks
            if sink:
                k = 1
                targets = [s]
            else:
                k = rnd.randint(1, 3)
                if stopping:
                    targets = [rnd.randint(s + 1, n - 1) if (rnd.random() < 0.85 or players[s] != PR)
                               else rnd.randint(0, n - 1) for _ in range(k)]
                    if players[s] == PR and all(t <= s for t in targets):
                        targets[0] = rnd.randint(s + 1, n - 1)
                else:
                    targets = [rnd.randint(0, n - 1) for _ in range(k)]
            if players[s] == PR:
                probs = split_probabilities(k)
                if k == 1 and rnd.random() < 0.5:
                    probs = [1]
                transition_list.append(list(zip(probs, targets)))
            else:
                names = rnd.sample(["a", "b", "c", "alfa", " ", ""], k)
                if k > 1 and rnd.random() < 0.15:
                    names[1] = names[0]               # duplicate action name
                transition_list.append(list(zip(names, targets)))
        rewards = []
        for s in range(n):
            if stopping and s >= n - n_sinks:
                rewards.append(0)
            else:
                rewards.append(rnd.choice([0, 0, 1, 2, 5, 0.5, 5 / 3, 100]))
        if stopping:
            finals = [n - 1] if rnd.random() < 0.6 else sorted(
                rnd.sample(range(n), rnd.randint(1, min(3, n))))
        else:
            finals = rnd.sample(range(n), rnd.randint(1, min(3, n)))
        return {"rewards": rewards, "players": players,
                "transition_list": transition_list, "final_states": finals}

    base_games = []
    for fname in ("example_games.py", "paper_games.py"):
        path = os.path.join(repo, "inputs", fname)
        if os.path.exists(path):
            with open(path) as fh:
                for name, game in sorted(eval(fh.read()).items()):
                    game.pop("prune_states", None)
                    if len(game["players"]) <= 9:
                        base_games.append((f"{fname}:{name}", game))
    base_games = base_games[:6]
    base_games.append(("one-p1", {"rewards": [0], "players": [P1],
                                  "transition_list": [[("a", 0)]], "final_states": [0]}))
    base_games.append(("one-prob", {"rewards": [3], "players": [PR],
                                    "transition_list": [[(1, 0)]], "final_states": [0]}))
    base_games.append(("two", {"rewards": [1, 0], "players": [P2, PR],
                               "transition_list": [[("x", 1), ("y", 0)], [(0.5, 1), (0.5, 1)]],
                               "final_states": [1]}))
    for i in range(N_BASE):
        n = 1 + i % 7
        base_games.append((f"rnd{i}", random_game(n, stopping=(i % 3 != 2))))

    # ------------------------------------------------------------------ mutations
    # a mutation is (label, hard, fn); fn edits the game dict in place.
    # hard = likely to end in something else than ValueError (kept rare in batches)
    def mutations_of(game):
        n = len(game["players"])
        muts = []

        def add(label, fn, hard=False):
            muts.append((label, hard, fn))

        def setter(key, idx, value):
            def fn(g):
                g[key][idx] = value
            return fn

        def replacer(key, make):
            def fn(g):
                g[key] = make(g[key])
            return fn

        # --- list lengths
        add("tl drop last", replacer("transition_list", lambda v: v[:-1]))
        add("tl drop first", replacer("transition_list", lambda v: v[1:]))
        add("tl append []", replacer("transition_list", lambda v: v + [[]]))
        add("tl append copy", replacer("transition_list", lambda v: v + [v[-1]]))
        add("tl empty", replacer("transition_list", lambda v: []))
        add("tl tuple", replacer("transition_list", tuple))
        add("tl None", replacer("transition_list", lambda v: None), hard=True)
        add("rw drop last", replacer("rewards", lambda v: v[:-1]))
        add("rw drop first", replacer("rewards", lambda v: v[1:]))
        add("rw append 0", replacer("rewards", lambda v: v + [0]))
        add("rw append -1", replacer("rewards", lambda v: v + [-1]))
        add("rw empty", replacer("rewards", lambda v: []))
        add("rw tuple", replacer("rewards", tuple))
        add("rw None", replacer("rewards", lambda v: None), hard=True)
        add("rw dict", replacer("rewards", lambda v: dict(enumerate(v))))
        add("pl drop last", replacer("players", lambda v: v[:-1]))
        add("pl drop first", replacer("players", lambda v: v[1:]))
        for extra in (P1, P2, PR, "x"):
            add(f"pl append {extra!r}", replacer("players", lambda v, e=extra: v + [e]))
        add("pl empty", replacer("players", lambda v: []))
        add("pl tuple", replacer("players", tuple))
        add("pl None", replacer("players", lambda v: None), hard=True)

        # --- rewards, every position
        bad_rewards = [(-1, 0), (-0.5, 0), (-1e-300, 0), (-inf, 0), (nan, 0), (True, 0),
                       (False, 0), (-0.0, 0), (2.5, 0), (10 ** 30, 0), (-10 ** 30, 0),
                       ("1", 1), (None, 1), ([1], 1), (fractions.Fraction(-1, 3), 0),
                       (decimal.Decimal("-0.1"), 0)]
        for s in range(n):
            for value, hard in bad_rewards:
                add(f"rw[{s}]={value!r}", setter("rewards", s, value), hard=bool(hard))

        # --- players, every position
        bad_players = ["player 1", "Player 3", "", "Player 1 ", None, 1, [], b"Player 1",
                       ("Player 1",), "Probabilistic\n", "PROBABILISTIC", P1, P2, PR,
                       MyStr(P1), MyStr(PR)]
        for s in range(n):
            for value in bad_players:
                add(f"pl[{s}]={value!r}", setter("players", s, value))

        # --- final states, every position + append + whole list
        bad_finals = [(n, 0), (-1, 0), (n + 1, 0), (n + 5, 0), (-n, 0), (-n - 1, 0), (n - 1, 0),
                      (0, 0), (float(n), 0), (float(n - 1), 0), (n - 0.5, 0), (-0.5, 0),
                      (-1e-9, 0), (True, 0), (False, 0), (nan, 0), (inf, 0), (-inf, 0),
                      (None, 1), ("0", 1), ([0], 1), (Idx.ZERO, 0), (2 ** 70, 0)]
        for f in range(len(game["final_states"])):
            for value, hard in bad_finals:
                add(f"fs[{f}]={value!r}", setter("final_states", f, value), hard=bool(hard))
        for value, hard in bad_finals:
            add(f"fs append {value!r}",
                replacer("final_states", lambda v, x=value: list(v) + [x]), hard=bool(hard))
            add(f"fs prepend {value!r}",
                replacer("final_states", lambda v, x=value: [x] + list(v)), hard=bool(hard))
        whole_finals = [([], 0), ((), 0), (None, 1), ([n], 0), ([-1], 0), ([0, n], 0), ([n, 0], 0),
                        ([-1, 0], 0), ([0, -1], 0), ([0, 0], 0), ([n - 1, n - 1, 0], 0),
                        ("tuple", 0), ("set", 0), ({0: 1}, 0), ("0", 1), (0, 1),
                        (range(n), 0), (range(n + 1), 0), (range(-1, 1), 0), (range(0), 0),
                        ("iter", 1), (list(range(n)), 0), (list(range(n - 1, -1, -1)), 0)]
        for value, hard in whole_finals:
            if value == "tuple":
                add("fs as tuple", replacer("final_states", tuple))
            elif value == "set":
                add("fs as set", replacer("final_states", set))
            elif value == "iter":
                add("fs as iterator", replacer("final_states", iter), hard=True)
            else:
                add(f"fs={value!r}", replacer("final_states", lambda v, x=value: x), hard=bool(hard))

        # --- states without transitions / transitions that are not a list
        empties = [[], (), None, 0, "", {}, set(), False, 0.0, range(0), MyList()]
        for s in range(n):
            for value in empties:
                add(f"tl[{s}]={value!r}", setter("transition_list", s, value))
            add(f"tl[{s}] as tuple", lambda g, s=s: g["transition_list"].__setitem__(
                s, tuple(g["transition_list"][s])))
            add(f"tl[{s}] as MyList", lambda g, s=s: g["transition_list"].__setitem__(
                s, MyList(g["transition_list"][s])))
            add(f"tl[{s}] as set", lambda g, s=s: g["transition_list"].__setitem__(
                s, set(g["transition_list"][s])))
            add(f"tl[{s}] as dict", lambda g, s=s: g["transition_list"].__setitem__(
                s, dict(g["transition_list"][s])))
            add(f"tl[{s}] as iterator", lambda g, s=s: g["transition_list"].__setitem__(
                s, iter(g["transition_list"][s])), hard=True)
            for value in ("ab", 1, True, range(2), 2.5, b"ab"):
                add(f"tl[{s}]={value!r}", setter("transition_list", s, value))

        # --- every transition: shape, label slot, successor slot
        for s in range(n):
            is_prob = game["players"][s] == PR
            for j, t in enumerate(game["transition_list"][s]):
                label, target = t

                def put(value, s=s, j=j):
                    def fn(g):
                        g["transition_list"][s][j] = value
                    return fn

                shapes = [list(t), t + (0,), t[:1], (), None, "ab", 5, (t,), NT(*t), [t], t + t,
                          MyTuple(t), {label: target} if not isinstance(label, float) else {0: 1},
                          (target, label), range(2)]
                for shape in shapes:
                    add(f"tl[{s}][{j}]={shape!r}", put(shape))
                if is_prob:
                    labels = ["0.5", None, [0.5], 1j, True, False, fractions.Fraction(1, 2),
                              decimal.Decimal("0.5"), 0, -0.5, 2, nan, inf, 1.0, b"1", (0.5,)]
                else:
                    labels = [1, None, b"a", 1.5, ("a",), ["a"], True, "", "aaa", MyStr("z"),
                              0, nan, {"a"}]
                for value in labels:
                    add(f"tl[{s}][{j}].label={value!r}", put((value, target)))
                targets = [n, -1, n + 1, n + 7, -n, -n - 1, n - 1, 0, 1.0, float(n - 1), float(n),
                           -1.0, "1", None, True, False, 2 ** 70, -2 ** 70, nan, [0], (0,),
                           Idx.ZERO, Idx.ONE, b"\x00", 0.5]
                for value in targets:
                    add(f"tl[{s}][{j}].target={value!r}", put((label, value)))
            # one more transition appended at the end of the state (later positions)
            if game["transition_list"][s]:
                first = game["transition_list"][s][0]
                for extra in [(first[0], n), (first[0], -1), (first[0], n - 1), first + (1,), list(first),
                              (None, 0), (first[0], None), (first[0], 0.0)]:
                    add(f"tl[{s}] append {extra!r}",
                        lambda g, s=s, e=extra: g["transition_list"][s].append(e))
        return muts

    def fresh(game):
        return copy.deepcopy(game)

    def node_view(node, given=None):
        return (type(node).__name__, node.player, node.idx, node.reward, node.next_states,
                type(node.next_states).__name__, node.is_final_node, node.reach_probability,
                node.expected_rewards, node.expected_rewards_min_reach,
                node.expected_reach_min_rewards, node.num_states,
                None if given is None else node.next_states is given)

    def exercise(label, make_game):
        """All observations of one (possibly malformed) game description."""
        for prune in (True, False):
            g = make_game()
            before = safe_repr(g)
            res = guarded(lambda: tad.StochasticGame(prune_states=prune, **g).solve())
            emit(f"solve prune={prune} {label}", (res, before == safe_repr(g)))
        g = make_game()
        emit(f"check_game {label}", guarded(lambda: tad.StochasticGame(**g).check_game()))
        g = make_game()
        emit(f"init_states {label}", guarded(
            lambda: [node_view(nd) for nd in tad.StochasticGame(**g).init_states()]))
        g = make_game()
        emit(f"count {label}", guarded(lambda: tad.StochasticGame(**g).count_transitions()))

    def mutated(game, chain):
        def make():
            g = fresh(game)
            for _, _, fn in chain:
                try:
                    fn(g)
                except Exception:      # a second defect may not be applicable any more
                    pass
            return g
        return make

    # ------------------------------------------------------------------ 1. single defects
    all_mutations = []
    for name, game in base_games:
        exercise(f"[{name}] intact", mutated(game, []))
        muts = mutations_of(game)
        all_mutations.append((name, game, muts))
        for mut in muts:
            exercise(f"[{name}] {mut[0]}", mutated(game, [mut]))

    # ------------------------------------------------------------------ 2. boundary games
    boundary = {
        "n=0": {"rewards": [], "players": [], "transition_list": [], "final_states": []},
        "n=0 final 0": {"rewards": [], "players": [], "transition_list": [], "final_states": [0]},
        "n=0 rewards": {"rewards": [1], "players": [], "transition_list": [], "final_states": [0]},
        "n=1 no finals": {"rewards": [0], "players": [P1], "transition_list": [[("a", 0)]],
                          "final_states": []},
        "n=1 final 1": {"rewards": [0], "players": [P1], "transition_list": [[("a", 0)]],
                        "final_states": [1]},
        "n=1 final -1": {"rewards": [0], "players": [P1], "transition_list": [[("a", 0)]],
                         "final_states": [-1]},
        "n=1 succ 1": {"rewards": [0], "players": [P1], "transition_list": [[("a", 1)]],
                       "final_states": [0]},
        "n=1 succ -1": {"rewards": [0], "players": [P1], "transition_list": [[("a", -1)]],
                        "final_states": [0]},
        "n=2 first empty second bad": {"rewards": [0, 0], "players": [P1, PR],
                                       "transition_list": [[], [("a", 0)]], "final_states": [0]},
        "n=2 first bad second empty": {"rewards": [0, 0], "players": [P1, PR],
                                       "transition_list": [[(1, 0)], []], "final_states": [0]},
        "n=2 both empty": {"rewards": [0, 0], "players": [P1, PR],
                           "transition_list": [[], []], "final_states": [0]},
        "n=2 all wrong": {"rewards": [-1], "players": ["x", "y"],
                          "transition_list": [[]], "final_states": [7]},
        "n=2 unreachable final": {"rewards": [1, 0], "players": [P1, PR],
                                  "transition_list": [[("a", 0)], [(1, 1)]], "final_states": [1]},
    }
    for name, game in boundary.items():
        exercise(f"[boundary {name}]", mutated(game, []))

    # ------------------------------------------------------------------ 3. two defects
    for k in range(N_DOUBLE):
        name, game, muts = all_mutations[rnd.randrange(len(all_mutations))]
        m1, m2 = rnd.choice(muts), rnd.choice(muts)
        exercise(f"[{name}] {m1[0]} + {m2[0]}", mutated(game, [m1, m2]))

    # ------------------------------------------------------------------ 4. node constructors
    players = [P1, P2, PR, "foo", None, 1, [], "player 1", MyStr(P2)]
    classes = [tad.Node, tad.PlayerOne, tad.PlayerTwo, tad.ProbabilisticNode]
    transition_values = [
        [], [("a", 0)], [(0.5, 0), (0.5, 1)], [("a", 0), ("b", 1), ("c", 2)], [("a", 0), (0.5, 1)],
        [(0.5, 0), ("a", 1)], [("a", 3)], [("a", 2), ("b", 3)], [("a", -1)], [("a", 0), ("a", -1)],
        [("a", 1.0)], [(1, True)], [("a", False)], [("a", None)], [(None, 0)], [(None, None)],
        [["a", 0]], [("a", 0, 0)], [("a",)], [()], [None], ["ab"], [("a", 0), "ab"],
        [("a", 0), ("b",)], (("a", 0),), None, "ab", 0, {"a": 0}, [NT("a", 0)], [NT(0.5, 1)],
        [MyTuple(("a", 0))], MyList([("a", 0)]), [(1j, 0)], [(True, 0)], [(fractions.Fraction(1, 2), 0)],
        [("a", 2 ** 70)], [("a", Idx.ONE)], [(0, 0), (1, 1), (2, 2), (3, 3)], [("a", 0), ("b", 1), (2, 2)],
        [(nan, 0)], [("a", nan)], [(b"a", 0)], [(MyStr("a"), 0)], [("a", "0")], [("a", [0])],
    ]
    for cls in classes:
        for player in players:
            for ts in transition_values:
                for num_states in (0, 1, 3):
                    for is_final in (False, True):
                        given = copy.deepcopy(ts)
                        emit(f"node {cls.__name__} {player!r} n={num_states} final={is_final} {ts!r}",
                             (guarded(lambda: node_view(cls(
                                 player=player, idx=0, reward=2, next_states=given,
                                 num_states=num_states, is_final_node=is_final), given)),
                              safe_repr(given) == safe_repr(ts)))

    # ------------------------------------------------------------------ 5. run_games batches
    for k in range(N_BATCH):
        games = {}
        for i in range(rnd.randint(1, 5)):
            name, game, muts = all_mutations[rnd.randrange(len(all_mutations))]
            roll = rnd.random()
            if roll < 0.25:
                chain = []
            else:
                allow_hard = rnd.random() < 0.08
                pool = muts if allow_hard else [m for m in muts if not m[1]]
                chain = [rnd.choice(pool)] if roll < 0.85 else [rnd.choice(pool), rnd.choice(pool)]
            key = f"g{i}_{name}"
            games[key] = mutated(game, chain)()
            emit(f"batch {k} member {key}", [c[0] for c in chain])
        del records[:]
        outcome = guarded(lambda: cr.run_games(games))
        masked = outcome
        file_bytes = None
        if outcome[0] == "OK":
            results = outcome[1]
            times_ok = all(isinstance(r["total_time"], float) and r["total_time"] >= 0
                           for r in results.values())
            for r in results.values():
                r["total_time"] = 0.25
            masked = ("OK", safe_repr(results), [list(r) for r in results.values()], times_ok)
            saved = guarded(lambda: cr.save_results_to_file(results, f"inputs/batch_{k}.py"))
            path = os.path.join("outputs", f"batch_{k}.txt")
            file_bytes = (saved, open(path, "rb").read() if os.path.exists(path) else None)
        emit(f"batch {k} result", masked)
        emit(f"batch {k} input afterwards", safe_repr(games))
        emit(f"batch {k} log", list(records))
        emit(f"batch {k} file", file_bytes)

    # the games shipped with the repository, through the whole pipeline
    for fname in ("example_games.py", "paper_games.py"):
        path = os.path.join(repo, "inputs", fname)
        if not os.path.exists(path):
            continue
        del records[:]
        games = cr.read_dict_from_file(path)
        outcome = guarded(lambda: cr.run_games(games))
        if outcome[0] == "OK":
            for r in outcome[1].values():
                r["total_time"] = 0.25
            saved = guarded(lambda: cr.save_results_to_file(outcome[1], path))
            with open(os.path.join("outputs", fname[:-3] + ".txt"), "rb") as fh:
                emit(f"shipped {fname} file", (saved, fh.read()))
        emit(f"shipped {fname} result", safe_repr(outcome))
        emit(f"shipped {fname} log", list(records))

    out.close()


if __name__ == "__main__":
    if len(sys.argv) == 4 and sys.argv[1] == "--worker":
        worker(sys.argv[2], sys.argv[3])
    elif len(sys.argv) == 3:
        sys.exit(driver(sys.argv[1], sys.argv[2]))
    else:
        print(__doc__)
        sys.exit(2)
