#!/usr/bin/env python
"""Equivalence test for property C07 (backward search / reversed-transition table).

usage: python equiv_test.py <path-to-patched-root> <path-to-clean-root>

The two trees are loaded in two separate subprocesses (this same file run with
--worker <root>), both run the same deterministic battery of inputs and dump what
they observed as JSON; the parent compares the two dumps record by record and,
independently of the clean tree, checks the patched answers against an oracle
written here (forward fix-point reachability, straightforward edge reversal).
Prints PASS / exits 0 when nothing differs, FAIL / exits 1 otherwise.
"""
import copy
import json
import os
import random
import subprocess
import sys
import tempfile

N_RANDOM_GRAPHS = 700
N_RANDOM_GAMES = 400


# --------------------------------------------------------------------------- inputs
def random_graph(rng):
    """A transition list of varied shape plus a non-empty list of finals."""
    shape = rng.random()
    if shape < 0.15:
        n = rng.randint(1, 4)
    elif shape < 0.85:
        n = rng.randint(2, 25)
    else:
        n = rng.randint(26, 120)
    density = rng.choice([0.3, 0.8, 1.5, 3.0])
    transition_list = []
    for u in range(n):
        k = 0
        # number of outgoing transitions: sometimes none (dead end), sometimes many
        r = rng.random()
        if r < 0.12:
            k = 0
        else:
            k = max(1, int(rng.expovariate(1.0 / density)) + 1)
        k = min(k, 8)
        probabilistic = rng.random() < 0.4
        entry = []
        for t in range(k):
            kind = rng.random()
            if kind < 0.15:
                v = u                                # self loop
            elif kind < 0.30 and entry:
                v = rng.choice(entry)[1]             # parallel edge
            elif kind < 0.45:
                v = min(n - 1, u + 1)                # chain-ish
            elif kind < 0.55:
                v = rng.randrange(0, max(1, n // 3))  # keep part of the graph unreachable
            else:
                v = rng.randrange(n)
            label = (1.0 / k) if probabilistic else "a%d" % t
            entry.append((label, v))
        transition_list.append(entry)
    n_final = rng.choice([1, 1, 1, 2, 3, max(1, n // 2), n])
    n_final = max(1, min(n, n_final))
    finals = rng.sample(range(n), n_final)
    if rng.random() < 0.4:                           # repetitions, any order
        finals = finals + [rng.choice(finals) for _ in range(rng.randint(1, 4))]
        rng.shuffle(finals)
    return transition_list, finals


def chain(n, towards_end=True):
    if towards_end:
        return [[("go", min(i + 1, n - 1))] for i in range(n)]
    return [[("go", max(i - 1, 0))] for i in range(n)]


def boundary_graphs():
    cases = []
    # single states
    cases.append(("one-state-loop", [[(1, 0)]], [0]))
    cases.append(("one-state-no-edge", [[]], [0]))
    cases.append(("two-states-apart", [[("a", 0)], [("a", 1)]], [1]))
    cases.append(("two-states-apart-rev", [[("a", 0)], [("a", 1)]], [0]))
    # diamond: 3 reached through two different predecessors, 0 reaches it along two paths
    diamond = [[("l", 1), ("r", 2)], [("x", 3)], [("x", 3)], [(1, 3)]]
    cases.append(("diamond", diamond, [3]))
    cases.append(("diamond-rep", diamond, [3, 3, 3]))
    cases.append(("diamond-all-final", diamond, [3, 0, 2, 1, 0]))
    # double diamond with parallel edges and self loops
    dd = [[("a", 1), ("b", 2), ("c", 1)], [("a", 3), ("b", 3)], [("a", 3), ("s", 2)],
          [("a", 4), ("b", 5)], [("a", 6)], [("a", 6)], [(0.5, 6), (0.5, 6)], [(1, 7)]]
    cases.append(("double-diamond", dd, [6]))
    cases.append(("double-diamond-unreachable-final", dd, [7]))
    cases.append(("double-diamond-two-finals", dd, [7, 6]))
    cases.append(("double-diamond-tuple-finals", dd, (6, 4)))
    cases.append(("double-diamond-float-final", dd, [6.0]))
    cases.append(("double-diamond-bool-final", dd, [True]))
    # long chains (far beyond the recursion limit), both directions
    for n in (999, 1001, 5000, 20000):
        cases.append(("chain-%d" % n, chain(n), [n - 1]))
        cases.append(("chain-%d-first-final" % n, chain(n), [0]))
        cases.append(("rchain-%d" % n, chain(n, False), [0]))
        cases.append(("chain-%d-mid" % n, chain(n), [n // 2, n // 2]))
    # one big cycle, final anywhere
    n = 3000
    cycle = [[("go", (i + 1) % n)] for i in range(n)]
    cases.append(("cycle-3000", cycle, [1234]))
    # ladder: every state reached from two predecessors at every level (2**depth paths)
    n = 4000
    ladder = []
    for i in range(n):
        ladder.append([("a", min(n - 1, i + 1)), ("b", min(n - 1, i + 2))])
    cases.append(("ladder-4000", ladder, [n - 1]))
    # star into the final, and out of it
    n = 2000
    star_in = [[("go", 0)] for _ in range(n)]
    cases.append(("star-in", star_in, [0]))
    star_out = [[("a%d" % i, i) for i in range(n)]] + [[("stay", i)] for i in range(1, n)]
    cases.append(("star-out", star_out, [n - 1]))
    cases.append(("star-out-root-final", star_out, [0]))
    # complete graph with parallel edges
    n = 30
    complete = [[("a%d" % j, j) for j in range(n)] + [("again", 0)] for _ in range(n)]
    cases.append(("complete", complete, [7, 3]))
    # binary tree, edges towards the leaves: only the ancestors of the final leaf reach it
    n = 2047
    tree = [[("l", 2 * i + 1), ("r", 2 * i + 2)] if 2 * i + 2 < n else [("stay", i)]
            for i in range(n)]
    cases.append(("tree", tree, [n - 1, 1500]))
    # many finals in descending order with repetitions
    cases.append(("chain-many-finals", chain(500), list(range(499, 0, -7)) * 2))
    return cases


def malformed_graphs():
    """Outside the quantifier; the exception class (or answer) must not change either."""
    cases = []
    g = [[("a", 1)], [("a", 2)], [("a", 2)]]
    cases.append(("empty-finals", g, []))
    cases.append(("empty-everything", [], []))
    cases.append(("final-out-of-range", g, [7]))
    cases.append(("final-out-of-range-after-good", g, [2, 7]))
    cases.append(("negative-final", g, [-1]))
    cases.append(("edge-out-of-range", [[("a", 1)], [("a", 5)], [("a", 2)]], [2]))
    cases.append(("edge-out-of-range-final", [[("a", 1)], [("a", 5)], [("a", 2)]], [5]))
    cases.append(("entry-not-pairs", [[(1,)], [("a", 0)]], [0]))
    cases.append(("entry-triples", [[(1, 2, 3)], [("a", 0)]], [0]))
    cases.append(("entry-none", [None, [("a", 0)]], [0]))
    return cases


def random_game(rng):
    """A well-formed game whose value iterations converge.

    The last states are absorbing and worth nothing (finals and dead states); the
    players only move forward, the probabilistic states may also loop or jump back
    (cycles) but always keep a forward branch, so that every cycle leaks towards the
    absorbing states and the total rewards stay finite in both pruning modes.
    """
    n_inner = rng.randint(1, 11)
    n_absorbing = rng.randint(1, 4)
    n = n_inner + n_absorbing
    players, transition_list, rewards = [], [], []
    for u in range(n_inner):
        player = rng.choice(["Player 1", "Player 2", "Probabilistic"])
        players.append(player)
        rewards.append(rng.choice([0, 0, 1, 2, 3, 5]))
        k = rng.randint(1, 3)
        targets = [rng.randrange(u + 1, n)]
        for _ in range(k - 1):
            r = rng.random()
            if player == "Probabilistic" and r < 0.25:
                targets.append(u)                          # self loop
            elif player == "Probabilistic" and r < 0.5:
                targets.append(rng.randrange(0, u + 1))    # back edge: a cycle
            elif r < 0.65:
                targets.append(targets[0])                 # parallel edge / tie
            else:
                targets.append(rng.randrange(u + 1, n))
        rng.shuffle(targets)
        if player == "Probabilistic":
            weights = [rng.choice([1, 1, 2, 3]) for _ in targets]
            total = sum(weights)
            entry = [(w / total, t) for w, t in zip(weights, targets)]
        else:
            entry = [("act%d" % i, t) for i, t in enumerate(targets)]
        transition_list.append(entry)
    for u in range(n_inner, n):
        players.append("Probabilistic")
        rewards.append(0)
        transition_list.append([(1, u)])
    absorbing = list(range(n_inner, n))
    finals = rng.sample(absorbing, rng.randint(1, len(absorbing)))   # the others are dead
    if rng.random() < 0.3:
        finals = finals + [finals[0]]
    return {"rewards": rewards, "players": players,
            "transition_list": transition_list, "final_states": finals}


BOARD_PARAMETERS = [
    # seed, length, width, prob_loose_tile, force_down
    (0, 1, 1, 0.3, False), (1, 1, 1, 0.3, True), (2, 1, 6, 0.5, False), (3, 7, 1, 0.5, True),
    (4, 3, 3, 0.3, False), (5, 4, 5, 0.9999, True), (6, 5, 4, 1e-9, False),
    (7, 200, 3, 0.3, False), (8, 200, 3, 0.3, True), (9, 400, 2, 0.2, True),
    (10, 1500, 1, 0.1, False),
]
SMALL_BOARDS = 6     # the first ones are also solved completely through tad (the 7th has no
                     # loose tile at all and its unpruned total rewards diverge in every tree)


# --------------------------------------------------------------------------- worker
def describe(value):
    return repr(value)


def observe_graph(module, transition_list, finals):
    record = {}
    tl_before = copy.deepcopy(transition_list)
    finals_before = copy.deepcopy(finals)
    try:
        result = module.reverse_dfs(transition_list, finals)
        record["dfs"] = describe(result)
        record["dfs_type"] = type(result).__name__
        record["dfs_elem_types"] = sorted({type(x).__name__ for x in result})
    except Exception as exc:  # noqa
        record["dfs"] = "EXC " + type(exc).__name__
    try:
        table = module.reverse_transition_list(transition_list)
        record["table"] = describe(list(table.items()))     # order of keys and of entries
        record["table_type"] = type(table).__name__
        record["table_value_types"] = sorted({type(v).__name__ for v in table.values()})
    except Exception as exc:  # noqa
        record["table"] = "EXC " + type(exc).__name__
    record["inputs_untouched"] = (tl_before == transition_list and finals_before == finals
                                  and type(finals_before) is type(finals))
    # calling twice gives the same answer (no state kept between calls)
    try:
        record["dfs_again"] = describe(module.reverse_dfs(transition_list, finals))
    except Exception as exc:  # noqa
        record["dfs_again"] = "EXC " + type(exc).__name__
    return record


def observe_helpers(module, rng):
    """The public helpers of the module keep working the same way."""
    out = {}
    pairs = [(rng.randrange(6), rng.randrange(50)) for _ in range(40)]
    out["tuples_to_dict"] = describe(list(module.list_of_tuples_to_dict_of_lists(pairs).items()))
    g, _ = random_graph(rng)
    out["core"] = describe(module.reverse_transition_list_core(g))
    out["missing"] = describe(list(module.add_missing_states({3: [1], 9: [2]}, 5).items()))
    out["missing0"] = describe(list(module.add_missing_states({}, 0).items()))
    table = module.reverse_transition_list(g)
    seen = set()
    res = module.reverse_dfs_from(len(g) - 1, table, seen)
    out["dfs_from"] = describe((res, sorted(seen)))
    res = module.reverse_dfs_from(0, table, seen)       # accumulates into the same set
    out["dfs_from_2"] = describe((res, sorted(seen)))
    return out


def worker(root, out_path):
    sys.path.insert(0, root)
    os.chdir(root)
    import reverse_dfs as module
    import tad
    import roberta_generator as generator
    assert os.path.dirname(os.path.abspath(module.__file__)) == os.path.abspath(root)
    assert os.path.dirname(os.path.abspath(tad.__file__)) == os.path.abspath(root)
    sys.setrecursionlimit(1000)          # the interpreter default, whatever the launcher did

    records = {}
    rng = random.Random(20240607)
    for i in range(N_RANDOM_GRAPHS):
        tl, finals = random_graph(rng)
        records["random-%d" % i] = observe_graph(module, tl, finals)
    for name, tl, finals in boundary_graphs():
        records["boundary-" + name] = observe_graph(module, tl, finals)
    for name, tl, finals in malformed_graphs():
        records["malformed-" + name] = observe_graph(module, tl, finals)
    for i in range(20):
        records["helpers-%d" % i] = observe_helpers(module, rng)
    records["public-names"] = sorted(
        n for n in dir(module) if not n.startswith("_") and callable(getattr(module, n)))

    # the generator's boards (three games each), tall ones included
    tmp = tempfile.mkdtemp(prefix="c07_boards_")
    for idx, (seed, length, width, loose, force_down) in enumerate(BOARD_PARAMETERS):
        moves, rewards, loose_tiles = generator.gen_rnd_board(
            seed, length, width, loose, 6, force_down)
        path = os.path.join(tmp, "board_%d.py" % idx)
        generator.write_robots(path, length, width, moves, rewards, loose_tiles, 0.1, 0.1, 0.1)
        with open(path) as handle:
            games = eval(handle.read())
        for game_name, game in games.items():
            key = "board-%d-%s" % (idx, game_name)
            records[key] = observe_graph(module, game["transition_list"], game["final_states"])
            if idx < SMALL_BOARDS:
                for prune in (True, False):
                    records[key + "-solve-%s" % prune] = solve(tad, game, prune)

    # complete solves of random games: the consumer of the search sees no difference
    rng = random.Random(77)
    for i in range(N_RANDOM_GAMES):
        game = random_game(rng)
        for prune in (True, False):
            records["game-%d-%s" % (i, prune)] = solve(tad, game, prune)

    # the Solver entry point used by tad, called directly
    rng = random.Random(5)
    for i in range(40):
        game = random_game(rng)
        sg = tad.StochasticGame(**copy.deepcopy(game))
        solver = tad.Solver(state_list=sg.init_states())
        try:
            res = solver.solve_reachability(sg.transition_list, sg.final_states, False)
            records["solver-%d" % i] = describe(
                (res, [s.reach_probability for s in solver.state_list]))
        except Exception as exc:  # noqa
            records["solver-%d" % i] = "EXC %s %s" % (type(exc).__name__, exc)
    try:
        tad.Solver(state_list=[]).solve_reachability([], [], True)
        records["solver-empty-finals"] = "no exception"
    except Exception as exc:  # noqa
        records["solver-empty-finals"] = "EXC %s %s" % (type(exc).__name__, exc)

    with open(out_path, "w") as handle:
        json.dump(records, handle)


def solve(tad, game, prune):
    game = copy.deepcopy(game)
    before = copy.deepcopy(game)
    try:
        result = tad.StochasticGame(prune_states=prune, **game).solve()
        text = describe(result)
    except Exception as exc:  # noqa
        text = "EXC %s %s" % (type(exc).__name__, exc)
    return {"result": text, "inputs_untouched": before == game}


# --------------------------------------------------------------------------- oracle
def oracle_reaching(transition_list, finals):
    """Forward fix-point, no reversed table: independent of the code under test."""
    n = len(transition_list)
    succ = [sorted({v for _, v in entry}) for entry in transition_list]
    reaches = [False] * n
    for f in finals:
        reaches[f] = True
    changed = True
    # worklist over predecessors computed by brute force would be quadratic; iterate
    # in both directions until stable (chains converge in two sweeps)
    while changed:
        changed = False
        for order in (range(n - 1, -1, -1), range(n)):
            for u in order:
                if not reaches[u] and any(reaches[v] for v in succ[u]):
                    reaches[u] = True
                    changed = True
    final_set = set(finals)
    return [u for u in range(n) if reaches[u] and u not in final_set]


def oracle_table(transition_list):
    n = len(transition_list)
    table = {v: [] for v in range(n)}
    for v in range(n):
        for u in range(n):
            for _, w in transition_list[u]:
                if w == v:
                    table[v].append(u)
    return table


def check_against_oracle(records):
    problems = []
    rng = random.Random(20240607)
    cases = []
    for i in range(N_RANDOM_GRAPHS):
        tl, finals = random_graph(rng)
        cases.append(("random-%d" % i, tl, finals))
    for name, tl, finals in boundary_graphs():
        cases.append(("boundary-" + name, tl, finals))
    for key, tl, finals in cases:
        record = records[key]
        finals_int = [int(f) for f in finals]
        expected = oracle_reaching(tl, finals_int)
        if record["dfs"] != repr(expected):
            problems.append("%s: reverse_dfs differs from the oracle" % key)
        if record["dfs_type"] != "list":
            problems.append("%s: reverse_dfs does not return a list" % key)
        if len(tl) <= 150:
            got = dict(eval(record["table"]))
            if got != oracle_table(tl):
                problems.append("%s: reversed table differs from the oracle" % key)
        if not record["inputs_untouched"]:
            problems.append("%s: inputs modified" % key)
    return problems


# --------------------------------------------------------------------------- parent
def run_worker(root):
    handle, path = tempfile.mkstemp(prefix="c07_", suffix=".json")
    os.close(handle)
    env = dict(os.environ)
    env.pop("PYTHONPATH", None)
    env["PYTHONDONTWRITEBYTECODE"] = "1"
    proc = subprocess.run(
        [sys.executable, os.path.abspath(__file__), "--worker", os.path.abspath(root), path],
        env=env, stdout=subprocess.PIPE, stderr=subprocess.STDOUT, text=True, timeout=1500)
    if proc.returncode != 0:
        print(proc.stdout)
        print("FAIL (worker for %s crashed)" % root)
        sys.exit(1)
    with open(path) as fh:
        records = json.load(fh)
    os.remove(path)
    return records


def main():
    if len(sys.argv) == 4 and sys.argv[1] == "--worker":
        worker(sys.argv[2], sys.argv[3])
        return
    if len(sys.argv) != 3:
        print(__doc__)
        sys.exit(2)
    patched = run_worker(sys.argv[1])
    clean = run_worker(sys.argv[2])
    problems = []
    for key in sorted(set(patched) | set(clean)):
        if key == "public-names":
            missing = set(clean[key]) - set(patched.get(key, []))
            if missing:
                problems.append("public functions removed: %s" % sorted(missing))
            continue
        if patched.get(key) != clean.get(key):
            problems.append("%s: patched %.300r != clean %.300r" % (
                key, patched.get(key), clean.get(key)))
    problems += check_against_oracle(patched)
    print("%d records compared" % len(clean))
    if problems:
        for line in problems[:40]:
            print("DIFF", line)
        print("FAIL")
        sys.exit(1)
    print("PASS")


if __name__ == "__main__":
    main()
