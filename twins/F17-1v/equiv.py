#!/usr/bin/env python
"""Differential test for property C17 (generated file names identify their parameters).

usage: python equiv.py <clean_repo_dir> <patched_repo_dir>

Both trees are loaded in their own subprocess (the module names collide).  Each
subprocess runs the SAME deterministic list of cases in a private scratch directory
and records, per case: the returned value (repr) or the exception type + message,
captured stdout / stderr, and the complete list of files found afterwards (relative
path, size, sha256 of the bytes).  The two records are compared entry by entry.

Cases (about 3000):
  * prob_to_str on k/100 (k = 0..100), k/1000, random floats, ties, NaN, inf, ints,
    bools, Fractions, Decimals, strings, None, lists, ...
  * roberta_generator.main() through sys.argv: every probability option swept over
    k/100 for k = 1..99 (in several spellings), random parameter sets (long and short
    options, with/without --force_down), all boundary and rejected values, every pair
    of simultaneously invalid options (which message wins), argparse errors, --help,
    a missing inputs/ directory, overwriting an existing file
  * stochastic_game_from_roborta_board.create_sg_from_board on random boards (with
    and without forced-down tiles, one-column / one-row boards), odd probabilities and
    malformed boards
  * check_input called directly with a grid of odd values (NaN, inf, bool, None, str,
    Fraction, Decimal, list), positional and keyword calls
  * signatures of the public functions
  * a few real `python roberta_generator.py ...` command lines (exit code, stdout,
    last stderr line, files byte for byte)
Prints SAME and exits 0 when nothing differs, else prints the first difference, exit 1.
"""
import json
import os
import shutil
import subprocess
import sys
import tempfile

DRIVER = r'''
import sys, os, io, gc, json, hashlib, random, contextlib, inspect, shutil
from fractions import Fraction
from decimal import Decimal

tree, out_path = sys.argv[1], sys.argv[2]
sys.path.insert(0, tree)
sys.dont_write_bytecode = True
import roberta_generator as rg
import stochastic_game_from_roborta_board as sg

RNG = random.Random(20240517)      # private: main() reseeds the global generator
RESULTS = []
os.makedirs("inputs", exist_ok=True)


def snapshot_and_clean():
    gc.collect()
    found = []
    for root, dirs, files in os.walk("."):
        for name in files:
            path = os.path.join(root, name)
            with open(path, "rb") as fh:
                data = fh.read()
            found.append([os.path.relpath(path, "."), len(data), hashlib.sha256(data).hexdigest()])
            os.remove(path)
    found.sort()
    dirs_found = sorted(os.path.relpath(os.path.join(r, d), ".")
                        for r, ds, _ in os.walk(".") for d in ds)
    return found, dirs_found


def run(label, fn, keep_files=False):
    out, err = io.StringIO(), io.StringIO()
    rec = {"label": label}
    try:
        with contextlib.redirect_stdout(out), contextlib.redirect_stderr(err):
            rec["result"] = repr(fn())
    except BaseException as exc:          # SystemExit from argparse included
        rec["exception"] = [type(exc).__module__ + "." + type(exc).__qualname__, str(exc),
                            repr(getattr(exc, "code", None))]
    rec["stdout"], rec["stderr"] = out.getvalue(), err.getvalue()
    if not keep_files:
        rec["files"], rec["dirs"] = snapshot_and_clean()
    RESULTS.append(rec)


def call_main(argv):
    old = sys.argv
    sys.argv = ["roberta_generator.py"] + list(argv)
    try:
        return rg.main()
    finally:
        sys.argv = old


# ---------------------------------------------------------------- A. prob_to_str
values = [k / 100 for k in range(0, 101)]
values += [k / 1000 for k in range(0, 1001, 7)]
values += [float("%d.%02d" % (0, k)) for k in range(100)]
values += [RNG.random() for _ in range(400)]
values += [RNG.uniform(-3, 3) for _ in range(100)]
values += [0.005, 0.015, 0.025, 0.035, 0.045, 0.125, 0.285, 0.575, 0.995, 0.9949999, 0.99500001,
           0.004999999999999999, 0.49999999999999994 / 100, 1e-320, 5e-324, 1e-17, 1 - 2**-53,
           -0.0, 0.0, 1.0, -1.0, 1e15, 1e16, 1e22, 1e300, 1.7e308, -1.7e308,
           float("nan"), float("inf"), float("-inf"),
           0, 1, -1, 2, 7, 10**30, True, False,
           Fraction(1, 3), Fraction(29, 100), Fraction(1, 200), Fraction(3, 200), Fraction(-1, 200),
           Decimal("0.29"), Decimal("0.005"), Decimal("0.015"), Decimal("NaN"), Decimal("Infinity"),
           "0.29", "", "ab", None, [1], [], (1, 2), {}, {1}, 1j, 0.5 + 0j, b"x", object]
for i, v in enumerate(values):
    run("prob_to_str#%d %r" % (i, v), lambda v=v: rg.prob_to_str(v))
    run("sg.prob_to_str#%d %r" % (i, v), lambda v=v: sg.prob_to_str(v))

# ---------------------------------------------------------------- B. main()
LONG = {"p": "--prob_robot_break", "q": "--prob_light_break", "r": "--prob_tile_break",
        "t": "--prob_loose_tile", "s": "--seed", "w": "--width", "l": "--length",
        "m": "--max_reward"}
SPELL = [lambda k: "0.%02d" % k, lambda k: ".%02d" % k, lambda k: "%de-2" % k,
         lambda k: "%.17g" % (k / 100), lambda k: "0.%02d0" % k]

# sweep of every probability option over k/100
for opt in "pqrt":
    for k in range(1, 100):
        spell = SPELL[(k + ord(opt)) % len(SPELL)](k)
        argv = ["-" + opt, spell, "-w", "2", "-l", "2"]
        if k % 3 == 0:
            argv.append("-f")
        run("main sweep " + " ".join(argv), lambda a=argv: call_main(a))
# all four at the same k, and neighbouring values written into the same directory
for k in range(1, 100):
    s = "0.%02d" % k
    run("main all4 %d" % k, lambda s=s: call_main(["-p", s, "-q", s, "-r", s, "-t", s, "-w", "1", "-l", "1"]))
for k in range(1, 99):
    def two(k=k):
        call_main(["-p", "0.%02d" % k, "-w", "2", "-l", "1"])
        call_main(["-p", "0.%02d" % (k + 1), "-w", "2", "-l", "1"])
    run("main neighbours %d" % k, two)


def rnd_prob():
    kind = RNG.randrange(6)
    if kind < 3:
        return "0.%02d" % RNG.randint(1, 99)
    if kind == 3:
        return repr(RNG.random())
    if kind == 4:
        return "0.%03d" % RNG.randint(1, 999)
    return RNG.choice(["0.005", "0.015", "0.025", "0.995", "0.9951", "0.004", "0.5", "1e-9",
                       "0.285", "0.575", "0.145", "0.999999"])


for n in range(700):
    argv = []
    for opt in "swlmpqrt":
        if RNG.random() < 0.7:
            flag = "-" + opt if RNG.random() < 0.5 else LONG[opt]
            if opt == "s":
                val = str(RNG.choice([0, 1, 7, 47, 999132423, RNG.randrange(10**9)]))
            elif opt in "wl":
                val = str(RNG.randint(1, 5))
            elif opt == "m":
                val = str(RNG.randint(1, 9))
            else:
                val = rnd_prob()
            if RNG.random() < 0.15 and flag.startswith("--"):
                argv.append(flag + "=" + val)
            else:
                argv += [flag, val]
    if RNG.random() < 0.4:
        argv.append(RNG.choice(["-f", "--force_down"]))
    RNG.shuffle(argv) if False else None
    run("main random %d %s" % (n, " ".join(argv)), lambda a=argv: call_main(a))

# boundary and rejected values, one option at a time
BAD_PROB = ["0", "1", "0.0", "1.0", "-0.0", "-0.1", "1.5", "nan", "-nan", "inf", "-inf", "1e-320",
            "5e-324", "0.9999999999999999", "0.99999999999999999", "1e-17", "0.004", "0.005",
            "0.0049999", "0.995", "0.9951", "abc", "", "1/2", "0,5", "0x1p-1", "1_0e-2", " 0.3 "]
for opt in "pqrt":
    for val in BAD_PROB:
        for flag in ("-" + opt, LONG[opt]):
            run("main edge %s %r" % (flag, val), lambda f=flag, v=val: call_main([f, v]))
BAD_INT = ["-1", "0", "1", "-0", "+3", "2.5", "abc", "", "1e2", "1_0", " 4", "0x10", "99999999999999999999"]
for opt in "swlm":
    for val in BAD_INT:
        if opt in "wl" and val == "99999999999999999999":
            continue
        if opt == "m" and val == "99999999999999999999":
            continue
        run("main edge -%s %r" % (opt, val), lambda o=opt, v=val: call_main(["-" + o, v, "-w" if o != "w" else "-l", "2"]))
run("main big reward", lambda: call_main(["-m", "60", "-w", "2", "-l", "2"]))
run("main big seed", lambda: call_main(["-s", "99999999999999999999", "-w", "2", "-l", "2"]))

# which message wins when several options are invalid
INVALID = {"s": "-5", "w": "0", "l": "-2", "p": "0", "q": "1", "t": "1.5", "r": "-0.25", "m": "0"}
opts = list(INVALID)
for i in range(len(opts)):
    for j in range(i + 1, len(opts)):
        for order in (0, 1):
            a, b = (opts[i], opts[j]) if order == 0 else (opts[j], opts[i])
            argv = ["-" + a, INVALID[a], "-" + b, INVALID[b]]
            run("main pair " + " ".join(argv), lambda a=argv: call_main(a))
run("main all invalid", lambda: call_main([x for o in opts for x in ("-" + o, INVALID[o])]))
for o in opts:   # NaN next to an invalid option: NaN passes the range check
    for po in "pqrt":
        if po != o:
            run("main nan+%s" % o, lambda o=o, po=po: call_main(["-" + po, "nan", "-" + o, INVALID[o]]))
run("main nan nan", lambda: call_main(["-p", "nan", "-q", "nan", "-r", "nan", "-t", "nan"]))
run("main nan t only", lambda: call_main(["-t", "nan", "-w", "2"]))

# argparse level
for argv in (["--help"], ["-h"], ["--bogus"], ["-p"], ["-f", "1"], ["extra"], ["-f", "-f"],
             ["--prob", "0.2"], ["--prob_r", "0.2"], ["--prob_l", "0.2"], ["--prob_li", "0.2"],
             ["-p0.29"], ["-fp", "0.29"], ["-w3", "-l2", "-fs5"], []):
    run("main argparse %r" % (argv,), lambda a=argv: call_main(a))

# missing inputs/ directory
shutil.rmtree("inputs")
run("main without inputs dir", lambda: call_main(["-p", "0.29"]))
run("main without inputs dir, invalid", lambda: call_main(["-p", "0"]))
run("sg without inputs dir", lambda: sg.create_sg_from_board([[1]], [[1]], [[0]], 0.1, 0.1, 0.1))
os.makedirs("inputs", exist_ok=True)


# overwrite of an existing file
def overwrite():
    call_main(["-s", "3", "-w", "4", "-l", "4"])
    call_main(["-s", "3", "-w", "4", "-l", "4", "-t", "0.301"])   # same name, other board
run("main overwrite", overwrite)

# ---------------------------------------------------------------- C. create_sg_from_board
def rnd_board(force_down, length=None, width=None):
    length = length or RNG.randint(1, 4)
    width = width or RNG.randint(1, 4)
    top = 3 if force_down else 2
    moves = [[RNG.randint(0, top) for _ in range(width)] for _ in range(length)]
    if force_down:
        moves[RNG.randrange(length)][RNG.randrange(width)] = 3
    maxr = RNG.randint(0, 9)
    rewards = [[RNG.randint(0, maxr) for _ in range(width)] for _ in range(length)]
    loose = [[RNG.randint(0, 1) for _ in range(width)] for _ in range(length)]
    return moves, rewards, loose


def rnd_p():
    kind = RNG.randrange(8)
    if kind < 4:
        return RNG.randint(1, 99) / 100
    if kind == 4:
        return RNG.random()
    if kind == 5:
        return RNG.choice([0.005, 0.015, 0.025, 0.995, 0.285, 0.575, 0.0, 1.0, 0, 1])
    if kind == 6:
        return RNG.choice([Fraction(29, 100), Fraction(1, 3), Fraction(1, 200)])
    return RNG.choice([-0.25, 1.5, 2, True])


for n in range(500):
    fd = RNG.random() < 0.5
    board = rnd_board(fd)
    ps = (rnd_p(), rnd_p(), rnd_p())
    if n % 2:
        run("sg random %d %r" % (n, ps), lambda b=board, ps=ps: sg.create_sg_from_board(b[0], b[1], b[2], *ps))
    else:
        run("sg random kw %d %r" % (n, ps), lambda b=board, ps=ps: sg.create_sg_from_board(
            prob_tile_break=ps[2], prob_light_break=ps[1], prob_robot_break=ps[0],
            loose_tiles=b[2], rewards=b[1], moves=b[0]))
for k in range(1, 100):
    b = rnd_board(k % 2 == 0, 1 + k % 2, 1 + k % 3)
    for pos in range(3):
        ps = [0.1, 0.1, 0.1]
        ps[pos] = k / 100
        run("sg sweep %d %d" % (k, pos), lambda b=b, ps=ps: sg.create_sg_from_board(b[0], b[1], b[2], *ps))
one = [[1]]
MALFORMED = [
    ([], [], []), ([[]], [[]], [[]]), ([[1], []], [[1], [1]], [[0], [0]]), (one, [], one), (one, [[]], one),
    (one, one, []), ([[4]], one, [[0]]), ([[3]], one, [[0]]), ([[-1]], one, [[0]]), ([[1, 2], [1]], [[1, 2], [3, 4]], [[0, 0], [0, 0]]),
    ([[1, 1]], [[1]], [[0, 0]]), ([[1]], [[1.5]], [[0]]), ([[1]], [["7"]], [[0]]), ([[1]], [[10**5000]], [[0]]),
    ([[1]], [[2]], [[2]]), ([[1]], [[2]], [[True]]), ([[1.0]], [[2]], [[0]]), ([[2.0, 3.0]], [[2, 1]], [[0, 0]]),
    (None, one, one), (one, None, one), (3, one, one), ("ab", one, one), ([[1], [1]], [[1], [1]], [[1], [1]]),
    (((1, 0),), ((5, 0),), ((1, 1),)), ([[0, 1, 2, 3]], [[1, 2, 3, 4]], [[1, 0, 1, 0]]),
    (one, [[True]], [[0]]), (one, [[Fraction(7, 2)]], [[0]]), (one, [[Decimal("2.50")]], [[0]]),
    (one, [[None]], [[0]]), (one, [[[1, 2]]], [[0]]), (one, [[-3]], [[0]]), (one, [[2.0]], [[0]]),
    (one, [[float("nan")]], [[0]]), (one, [[1e22]], [[0]]), ([[2.9999999999999996]], one, [[0]]),
    ([[3.0]], one, [[0]]), ([[True]], one, [[0]]), ([[Fraction(3)]], one, [[0]]), ([["3"]], one, [[0]]),
]
ODD_P = [0.29, float("nan"), float("inf"), None, "0.1", 10**400, 1e308]
for i, (m, r, lt) in enumerate(MALFORMED):
    run("sg malformed %d" % i, lambda m=m, r=r, lt=lt: sg.create_sg_from_board(m, r, lt, 0.29, 0.57, 0.58))
    run("sg malformed nan %d" % i, lambda m=m, r=r, lt=lt: sg.create_sg_from_board(m, r, lt, float("nan"), None, "x"))
for i, p in enumerate(ODD_P):
    for pos in range(3):
        ps = [0.1, 0.2, 0.3]
        ps[pos] = p
        run("sg odd p %d %d" % (i, pos), lambda ps=ps: sg.create_sg_from_board([[1, 3]], [[2, 0]], [[1, 0]], *ps))
run("sg odd p all", lambda: sg.create_sg_from_board([[1, 3]], [[2, 0]], [[1, 0]], "a", None, float("nan")))
run("sg huge reward + nan", lambda: sg.create_sg_from_board([[1]], [[10**5000]], [[0]], float("nan"), 0.1, 0.1))
run("sg get_max", lambda: [sg.get_max_from_matrix([[1, 2], [3]]), sg.get_max_from_matrix([[0]])])

# ---------------------------------------------------------------- D. check_input
NAMES = ["seed", "width", "length", "prob_robot_break", "prob_light_break", "prob_loose_tile",
         "prob_tile_break", "max_reward"]
GOOD = [0, 3, 3, 0.1, 0.1, 0.3, 0.1, 6]
ODD = [-1, 0, 1, 2, 0.5, -0.5, 1.0, 0.0, -0.0, 1 - 2**-53, 5e-324, float("nan"), float("inf"), float("-inf"),
       True, False, None, "x", "", Fraction(1, 2), Fraction(3, 2), Decimal("0.3"), Decimal("NaN"),
       [1], (), 1j, 10**400, -10**400]
for pos in range(8):
    for v in ODD:
        args = list(GOOD)
        args[pos] = v
        run("check_input pos %d %r" % (pos, v), lambda a=args: rg.check_input(*a))
        run("check_input kw %d %r" % (pos, v), lambda a=args: rg.check_input(**dict(zip(reversed(NAMES), reversed(a)))))
for n in range(600):
    args = [RNG.choice(ODD) if RNG.random() < 0.35 else g for g in GOOD]
    run("check_input random %d %r" % (n, args), lambda a=args: rg.check_input(*a))
run("check_input too few", lambda: rg.check_input(1, 2, 3))
run("check_input too many", lambda: rg.check_input(*(GOOD + [1])))
run("check_input bad kw", lambda: rg.check_input(*GOOD[:7], reward=3))

# ---------------------------------------------------------------- E. signatures / parser
for mod, names in ((rg, ["prob_to_str", "check_input", "main", "init_parser", "write_robots",
                          "gen_rnd_board", "write_preamble"]),
                   (sg, ["create_sg_from_board", "get_max_from_matrix", "prob_to_str", "write_robots"])):
    for name in names:
        run("signature %s.%s" % (mod.__name__, name), lambda m=mod, n=name: str(inspect.signature(getattr(m, n))))
run("parser defaults", lambda: sorted(vars(rg.init_parser().parse_args([])).items()))
run("parser help", lambda: rg.init_parser().format_help())
run("parser usage", lambda: rg.init_parser().format_usage())
run("constants", lambda: [rg.MOVE_SINTAX, rg.TILE_SYNTAX, rg.FOUR_SPACES, rg.SIXTEEN_SPACES])

with open(out_path, "w") as fh:
    json.dump(RESULTS, fh)
'''

CLI_CASES = [
    [],
    ["-p", "0.29", "-q", "0.57", "-r", "0.58", "-t", "0.07", "-s", "12", "-w", "4", "-l", "2", "-f"],
    ["--prob_robot_break", "0.28", "--max_reward", "3", "--seed", "5"],
    ["-p", "1"],
    ["-p", "nan"],
    ["-w", "0", "-p", "0"],
    ["--help"],
    ["-p", "x"],
]


def run_tree(tree, scratch):
    tree = os.path.abspath(tree)
    work = os.path.join(scratch, "work")
    os.makedirs(work)
    driver = os.path.join(scratch, "driver.py")
    with open(driver, "w") as fh:
        fh.write(DRIVER)
    out = os.path.join(scratch, "out.json")
    env = dict(os.environ, PYTHONDONTWRITEBYTECODE="1", COLUMNS="80", PYTHONHASHSEED="0")
    proc = subprocess.run([sys.executable, driver, tree, out], cwd=work, env=env,
                          capture_output=True, text=True, timeout=100)
    if proc.returncode != 0 or not os.path.exists(out):
        return [{"label": "driver crashed", "rc": proc.returncode, "stderr": proc.stderr[-3000:]}]
    with open(out) as fh:
        results = json.load(fh)
    # real command lines
    for i, argv in enumerate(CLI_CASES):
        cwd = os.path.join(scratch, "cli%d" % i)
        os.makedirs(os.path.join(cwd, "inputs"))
        p = subprocess.run([sys.executable, os.path.join(tree, "roberta_generator.py")] + argv,
                           cwd=cwd, env=env, capture_output=True, timeout=30)
        files = []
        for root, _, names in os.walk(cwd):
            for name in sorted(names):
                path = os.path.join(root, name)
                with open(path, "rb") as fh:
                    files.append([os.path.relpath(path, cwd), fh.read().hex()])
        err_lines = p.stderr.decode().strip().splitlines()
        if err_lines and err_lines[0].startswith("Traceback"):
            err = err_lines[-1]          # paths / line numbers legitimately differ
        else:
            err = p.stderr.decode()
        results.append({"label": "cli %r" % (argv,), "rc": p.returncode,
                        "stdout": p.stdout.decode(), "stderr": err, "files": sorted(files)})
    return results


def main():
    if len(sys.argv) != 3:
        print(__doc__)
        return 2
    scratch = tempfile.mkdtemp(prefix="equiv_F17_")
    try:
        a = run_tree(sys.argv[1], os.path.join(scratch, "a"))
        b = run_tree(sys.argv[2], os.path.join(scratch, "b"))
    finally:
        shutil.rmtree(scratch, ignore_errors=True)
    if a and a[0].get("label") == "driver crashed" or b and b[0].get("label") == "driver crashed":
        print("DIFFERENT: driver crashed")
        print("clean  :", a[0] if a[0].get("label") == "driver crashed" else "ok")
        print("patched:", b[0] if b[0].get("label") == "driver crashed" else "ok")
        return 1
    if len(a) != len(b):
        print("DIFFERENT: number of cases %d vs %d" % (len(a), len(b)))
        return 1
    for x, y in zip(a, b):
        if x != y:
            print("DIFFERENT at case:", x.get("label"))
            for key in sorted(set(x) | set(y)):
                if x.get(key) != y.get(key):
                    print("  %s:\n    clean  : %r\n    patched: %r" % (key, x.get(key), y.get(key)))
            return 1
    print("%d cases compared" % len(a))
    print("SAME")
    return 0


if __name__ == "__main__":
    sys.exit(main())
